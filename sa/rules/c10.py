"""C10  Neighbour searches return exactly the atoms within the cutoff (structural part).

R1 compute_neighbors kernel: haystack-major loops in the given order, self pair skipped, minimum-image wrap on the difference, strict squared-cutoff test, push_back(i) followed by break
R2 compute_neighborlist: only index < atomIndex pairs are collected in the (parallel) search and every pair is completed exactly once in the reverse direction
R3 under periodic boundary conditions the voxel search works on positions wrapped into the primary cell (it compares positions with the box edges)
R4 wrappers: the periodic predicate selects the box pointer, positions and box of the same frame are handed over, arguments keep their roles across the FFI
"""
from __future__ import annotations

import ast
import re

from ..core import AnalysisError
from .. import cfront as C
from ..poly import Poly, Rat
from ..pyfront import dotted, call_name, kwarg, params, src, walk_no_nested, const

EXPLANATION = (
    "The candidate's displacement between its definition and the squared distance is decided by value (triclinic: floor reduction along c, b, a; rectangular: round(d / L) L; untouched when no image can be closer); the voxel sizes set by the constructor are shown never to be 0; both loop bodies of the brute-force kernel are decided by value numbering.  Further: "
    "The neighbour searches are decided structurally: the brute-force kernel is small enough to establish order, uniqueness (push_back followed by break), self exclusion, strictness of the cutoff "
    "test and the wrap on differences from the guards and statement order of its two loops; for the cell list the symmetric completion argument (collect i>j only, then mirror) is checked as written, "
    "together with the one precondition of the voxel arithmetic that is visible in the code: periodic positions are wrapped into the primary cell before they are hashed, sorted and compared with the box edges.")
NOT_DECIDED = ["the x-range arithmetic and corner pruning of Voxels::getNeighbors (that the y row of a z voxel is complete under triclinic cells is decided, C10-R5)", "set equality with compute_distances near the cutoff", "triclinic cells whose minimum image needs the 27-image search (compute_neighbors wraps once)"]
ASSUMPTIONS = ["unit cell vectors are in the lower-triangular form mdtraj produces"]
FLOORS = {"C10-R1": 3, "C10-R2": 7, "C10-R3": 1, "C10-R4": 12, "C10-R5": 4}

NB = "mdtraj/geometry/src/neighbors.cpp"
NL = "mdtraj/geometry/src/neighborlist.cpp"
NBP = "mdtraj/geometry/neighbors.pyx"
NLP = "mdtraj/geometry/neighborlist.pyx"


def _n(t):
    return re.sub(r"\s", "", t)


def check(ctx):
    ctx.rule("C10-R1", "for hit in haystack (given order): for qit in query: skip i==j; delta = pos1-pos2 wrapped; if |delta|^2 < cutoff^2: push_back(i); break")
    ctx.rule("C10-R2", "getNeighbors records index only when index < atomIndex and |delta|^2 <= cutoff^2; the completion loop adds i to the list of every recorded partner")
    ctx.rule("C10-R3", "usePeriodic: positions are wrapped (c, b, a by floor) into the primary cell and the wrapped copy is what is hashed and searched")
    ctx.rule("C10-R4", "is_periodic = periodic and unit cell present; per-frame pointers use the same frame index; every FFI argument is the variable its C parameter names")
    cf = C.get(ctx.repo)
    C.MEMBER_OBJECTS = True
    try:
        r1(ctx, cf)
        r1_result_order(ctx, cf)
        r2(ctx, cf)
        r3(ctx, cf)
        r4(ctx, cf)
        ctx.rule("C10-R5", "voxel grid invariants: a voxel size is recomputed only from a positive extent; periodic y / z ranges are clamped to one period as the last adjustment before the loop")
        r5_voxel_invariants(ctx, cf)
        r5_face_tests(ctx, cf)
        r5_disjoint_x_ranges(ctx, cf)
        r5_corner_extrema(ctx, cf)
        r5_y_range_of_a_z_voxel(ctx, cf)
    finally:
        C.MEMBER_OBJECTS = False


def _iter_loop(n):
    """(iterator var, container, direction ok) for `for (it = X.begin(); it != X.end(); ++it)`"""
    ks = n.get("inner", [])
    parts = [x if isinstance(x, dict) and "kind" in x else None for x in ks]
    init, cond, inc = parts[0], parts[2] if len(parts) == 5 else parts[1], parts[3] if len(parts) == 5 else parts[2]
    ti, tc, tinc = _n(C.text(init)) if init else "", _n(C.text(cond)) if cond else "", _n(C.text(inc)) if inc else ""
    m = re.match(r"^\(?(\w+)=(\w+)\.begin\(\)\)?$", ti)
    m2 = re.match(r"^\(?(\w+)!=(\w+)\.end\(\)\)?$", tc)
    ok = bool(m and m2 and m.group(1) == m2.group(1) and m.group(2) == m2.group(2) and tinc in ("(++%s)" % m.group(1), "(%s++)" % m.group(1), "(%s++0)" % m.group(1)))
    return (m.group(1) if m else None, m.group(2) if m else None, ok, (ti, tc, tinc))


def _container_loop(n):
    """(loop variable, container, atom-variable initialiser pattern) for a loop over a whole std::vector: iterator form
    `for (it = X.begin(); it != X.end(); ++it)` or index form `for (k = 0; k < X.size() [or a local holding it]; ++k)`; else None"""
    v, c, ok, _ = _iter_loop(n)
    if ok and c:
        return v, c, "iter"
    inner = n.get("inner", [])
    if len(inner) < 5 or not inner[0] or not inner[2] or not inner[3]:
        return None
    init, cond, inc = inner[0], inner[2], inner[3]
    if init["kind"] == "DeclStmt":
        d = [k for k in C.kids(init) if k["kind"] == "VarDecl"]
        if len(d) != 1 or not C.kids(d[0]) or _n(C.text(C.kids(d[0])[-1])).strip("()") != "0":
            return None
        var = d[0].get("name")
    else:
        m = re.match(r"^\(?(\w+)=0\)?$", _n(C.text(init)))
        if not m:
            return None
        var = m.group(1)
    # `k < n && !found`: the bound test, and flags that end the loop early (the whole container is still the range walked)
    conj = C._split_and(C.strip(cond)) if hasattr(C, "_split_and") else [cond]
    bound = None
    for c_ in conj:
        t_ = _n(C.text(c_))
        m = re.match(r"^\(?%s<(.+?)\)?$" % re.escape(var), t_)
        if m and bound is None:
            bound = m.group(1)
        elif not re.match(r"^\(?!\(?\w+\)?\)?$", t_):
            return None
    if bound is None or _n(C.text(inc)).strip("()") not in ("++" + var, var + "++", var + "++0"):
        return None
    return var, bound, "index"


def r1_result_order(ctx, cf):
    """compute_neighbors reports the hits in the order of the haystack: the vector that is returned only ever grows by push_back inside the loop over
    the haystack; nothing reorders or thins it afterwards (sort / unique / erase / reverse ...)."""
    fn = cf.function(NB, "_compute_neighbors")
    rets = [n for n in C.walk(fn) if n["kind"] == "ReturnStmt" and C.kids(n)]
    names = {x_.get("referencedDecl", {}).get("name") for r_ in rets for x_ in C.walk(r_) if x_["kind"] == "DeclRefExpr" and x_.get("referencedDecl", {}).get("kind") == "VarDecl"} - {None}
    pushes = [n for n in C.walk(fn) if n["kind"] == "CXXMemberCallExpr" and C.callee_name(n) == "push_back" and C.root_var(C.kids(C.strip(C.kids(n)[0]))[0])[0] in names]
    if len(names) != 1 or not pushes:
        raise AnalysisError("_compute_neighbors: the result vector (returned, filled by push_back) was not recognised")
    res = next(iter(names))
    REORDER = {"sort", "stable_sort", "unique", "reverse", "rotate", "shuffle", "random_shuffle", "partition", "stable_partition", "nth_element", "partial_sort", "remove", "remove_if"}
    bad = []
    for n in C.walk(fn):
        if n["kind"] in ("CallExpr", "CXXMemberCallExpr"):
            cn = (C.callee_name(n) or "").split("::")[-1]
            touches = any(x_["kind"] == "DeclRefExpr" and x_.get("referencedDecl", {}).get("name") == res for x_ in C.walk(n))
            if touches and (cn in REORDER or (n["kind"] == "CXXMemberCallExpr" and cn in ("erase", "insert", "swap", "assign", "clear", "pop_back", "resize"))):
                bad.append((cn, C.line(n)))
    ctx.decide(not bad, "C10-R1", C.line(fn), NB, "_compute_neighbors", "the hits are reported in the order of the haystack: `%s` only grows by push_back (%d site(s))" % (res, len(pushes)), "",
               "`%s` is passed through %s before it is returned: the neighbours come back in another order than the haystack's (or thinned)" % (res, ", ".join("%s (line %s)" % b_ for b_ in bad[:3])))


def r1(ctx, cf):
    """_compute_neighbors by value numbering (sa/symval.py): for a generic haystack atom i and query atom j the statements of the two loop
    bodies are evaluated on every path; the difference vector, its wrap and the squared distance are compared with the definition built from
    the parameters (coordinates X, box B, cutoff), so local names, pointer walks and iterator / index loops make no difference."""
    from ..symval import SymExec, State, Ptr, Vec, Unsupported, _canon
    fn = cf.function(NB, "_compute_neighbors")
    ctx.analysed_files.add(NB)
    ctx.analysed_functions.add(NB + ":_compute_neighbors")
    body = C.kids(C.body_of(fn))
    # sizes held in locals: n = X.size()
    sizes = {}
    for v in C.walk(fn):
        if v["kind"] == "VarDecl" and C.kids(v):
            m = re.match(r"^\(?(\w+)\.size\(\)\)?$", _n(C.text(C.kids(v)[-1])))
            if m:
                sizes[v.get("name")] = m.group(1)
    found = []
    for n in C.walk(fn):
        if n["kind"] == "ForStmt":
            cl = _container_loop(n)
            if cl:
                var, cont, form = cl
                m = re.match(r"^(\w+)\.size\(\)$", cont)
                cont = m.group(1) if m else sizes.get(cont, cont)
                if cont in ("haystack_indices", "query_indices"):
                    found.append((n, var, cont, form))
    outer = [f for f in found if f[2] == "haystack_indices"]
    inner = [f for f in found if f[2] == "query_indices"]
    ok = len(outer) == 1 and len(inner) == 1 and any(x is inner[0][0] for x in C.walk(outer[0][0]))
    ctx.decide(ok, "C10-R1", C.line(outer[0][0]) if outer else C.line(fn), NB, "_compute_neighbors", "outer loop over all of haystack_indices, inner loop over all of query_indices", "",
               "loops over whole containers found: %s" % [(f[2], f[3]) for f in found])
    if not ok:
        return
    (ol, ovar, _, _), (il, ivar, _, _) = outer[0], inner[0]
    obody = [x for x in ol["inner"] if isinstance(x, dict) and x.get("kind") == "CompoundStmt"][0]
    ibody = [x for x in il["inner"] if isinstance(x, dict) and x.get("kind") == "CompoundStmt"][0]

    def atom_decl(stmts, loopvar, cont):
        """the VarDecl that reads the current element: `*it` or `cont[k]`"""
        for s_ in stmts:
            if s_["kind"] == "DeclStmt":
                for v in C.kids(s_):
                    if v["kind"] == "VarDecl" and C.kids(v):
                        t = _n(C.text(C.kids(v)[-1])).strip("()")
                        if t in ("*" + loopvar, "%s[%s]" % (cont, loopvar)):
                            return s_, v.get("name")
        return None, None
    od, iname = atom_decl(C.kids(obody), ovar, "haystack_indices")
    idn, jname = atom_decl(C.kids(ibody), ivar, "query_indices")
    if od is None or idn is None:
        ctx.violated("C10-R1", C.line(ol), NB, "_compute_neighbors", "i = current haystack atom, j = current query atom", "the loops do not read the current element of their container into a local (`*it` / `container[k]`)")
        return

    def sym(n_):
        return Rat(Poly.var(n_))
    pushed = []

    def cm(name, args, n_, st_, ex_):
        if name == "push_back":
            pushed.append((len(st_.conds), tuple(st_.cvals), list(args)))
            return Rat(Poly.const(0))
        return None
    i, j = sym("i"), sym("j")
    results = {}
    for mode in ("box", "nobox"):
        ex = SymExec(cf, NB, call_model=cm, max_unroll=16)
        st = State()
        st.env["frame_xyz"] = Ptr("X", 0)
        st.env["box_matrix"] = Ptr("B", 0)
        st.env["cutoff"] = sym("cutoff")
        st.env["n_atoms"] = sym("n_atoms")
        try:
            outs = [st]
            for stmt in body:
                if stmt is ol or any(x is ol for x in C.walk(stmt)):
                    break
                nxt = []
                for o in outs:
                    nxt.extend(ex.run([stmt], o))
                outs = nxt
                for o in outs:
                    for k_, v_ in list(o.env.items()):
                        # `box_matrix != NULL`: decided per mode
                        if isinstance(v_, Rat) and v_.const_value() is None and any("NULL" in x for x in v_.vars()) and len(v_.vars()) == 1 and v_ == Rat(Poly.var(list(v_.vars())[0])):
                            o.env[k_] = Rat(Poly.const(1 if mode == "box" else 0))
            finals = []
            for o in outs:
                o.env[iname] = i
                for o2 in ex.run([s_ for s_ in C.kids(obody) if s_ is not od and s_ is not il], o):
                    o2.env[jname] = j
                    n0 = len(pushed)
                    for o3 in ex.run([s_ for s_ in C.kids(ibody) if s_ is not idn], o2):
                        finals.append(o3)
            results[mode] = (ex, finals)
        except Unsupported as e:
            ctx.undecided("C10-R1", C.line(fn), NB, "_compute_neighbors", "loop bodies", "not evaluable: %s" % e)
            return
    # ---- the definition, from the parameters
    X = lambda a, k: sym("X[%s]" % _canon(3 * a + k))     # noqa: E731
    B = [sym("B[%d]" % k) for k in range(9)]

    def spec(ex, kind):
        rnd = lambda v: ex.opaque_call("round", [v])      # noqa: E731
        d = [X(i, k) - X(j, k) for k in range(3)]
        if kind == "tri":
            b1, b2, b3 = B[0:3], B[3:6], B[6:9]
            s_ = rnd(b3[1] / b2[1])
            b3 = [b3[k] - b2[k] * s_ for k in range(3)]
            s_ = rnd(b3[0] / b1[0])
            b3 = [b3[k] - b1[k] * s_ for k in range(3)]
            s_ = rnd(b2[0] / b1[0])
            b2 = [b2[k] - b1[k] * s_ for k in range(3)]
            R = [1 / B[0], 1 / B[4], 1 / B[8]]
            for (bv, ax) in ((b3, 2), (b2, 1), (b1, 0)):
                s_ = rnd(d[ax] * R[ax])
                d = [d[k] - bv[k] * s_ for k in range(3)]
        elif kind == "rect":
            d = [d[k] - rnd(d[k] * (1 / B[4 * k])) * B[4 * k] for k in range(3)]
        return d, d[0] * d[0] + d[1] * d[1] + d[2] * d[2]

    def last_cmp(cv):
        """(left, right) of the final `<` test of a path, as canonical strings"""
        if not cv:
            return None
        t = str(cv[-1][0])
        m = re.match(r"^\((.*)<([^<]*)\)$", t)
        return (m.group(1), m.group(2)) if m else None
    problems = []
    seen_kinds = set()
    for mode, (ex, finals) in results.items():
        for o in finals:
            cv = [(str(c), p_) for c, p_ in o.cvals]
            same = [p_ for c, p_ in cv if c in ("(i==j)", "(j==i)")] + [not p_ for c, p_ in cv if c in ("(i!=j)", "(j!=i)")]
            if not same:
                problems.append("a path of the inner body does not test i == j first (%s)" % [c for c, _ in cv][:2])
                continue
            if same[0]:
                if o.loopctl != "continue" and not o.done:
                    problems.append("for i == j the body does not move on to the next query atom")
                continue
            # the final test of the path, decoded from its value: |delta|^2 < cutoff^2 (taken) or its negation in whatever spelling, with delta wrapped the
            # triclinic way, the rectangular way or not at all - the path tells which by the value it compares
            from ..symval import elementary_facts, has_fact
            lc = last_cmp(o.cvals)
            lastf = elementary_facts(ex, o.cexprs[-1][0] if o.cexprs[-1][0] is not None else o.cvals[-1][0], o.cexprs[-1][1]) if o.cexprs else []
            within, kind = None, ("plain" if mode == "nobox" else "tri")
            for kind_ in (("plain",) if mode == "nobox" else ("tri", "rect")):
                want_d, want_d2 = spec(ex, kind_)
                dd = want_d2 - sym("cutoff") * sym("cutoff")
                if has_fact(lastf, "<", dd):
                    within, kind = True, kind_
                    break
                if has_fact(lastf, "<=", Rat(Poly.const(0)) - dd):
                    within, kind = False, kind_
                    break
            if within is None:
                # the flag form: the body ends by storing the comparison in a local, `found = (|delta|^2 < cutoff^2)`; the loop header stops on it
                # and the atom is recorded after the loop.  Decoded by value like the branch form.
                for kind_ in (("plain",) if mode == "nobox" else ("tri", "rect")):
                    want_d, want_d2 = spec(ex, kind_)
                    dd = want_d2 - sym("cutoff") * sym("cutoff")
                    flag = next((k_ for k_, v_ in o.env.items() if isinstance(k_, str) and isinstance(v_, Rat) and v_.const_value() is None
                                 and has_fact(elementary_facts(ex, v_, True), "<", dd)), None)
                    if flag is not None:
                        hdr = [_n(C.text(c_)) for c_ in (C._split_and(C.strip(il.get("inner", [None, None, None])[2])) if il.get("inner", [None] * 3)[2] else [])]
                        stops = any(re.match(r"^\(?!\(?%s\)?\)?$" % re.escape(flag), t_) for t_ in hdr)
                        after = C.kids(obody)[C.kids(obody).index(il) + 1:] if il in C.kids(obody) else []
                        verdicts = []
                        for fv in (1, 0):
                            st2 = o.fork()
                            st2.env[flag] = Rat(Poly.const(fv))
                            st2.loopctl = None
                            n0 = len(pushed)
                            try:
                                ex.run(after, st2)
                            except Unsupported:
                                verdicts.append(None)
                                continue
                            new_ = pushed[n0:]
                            verdicts.append(len(new_) == fv and all(len(r_[2]) == 1 and r_[2][0] == i for r_ in new_))
                        init_false = any(v_["kind"] == "VarDecl" and v_.get("name") == flag and C.kids(v_) and _n(C.text(C.kids(v_)[-1])).strip("()") in ("false", "0") for v_ in C.walk(obody))
                        if stops and init_false and verdicts == [True, True]:
                            seen_kinds.add(kind_)
                            within = "flag"
                        else:
                            problems.append("%s cell: the comparison is kept in `%s`, but %s" % (kind_, flag, "the loop does not stop on it" if not stops else ("it does not start as false" if not init_false else "the atom is not recorded exactly once after the loop when it is set")))
                            within = "flag-bad"
                        break
                if within in ("flag", "flag-bad"):
                    continue
            if within is not None:
                seen_kinds.add(kind)
            if within is None:
                problems.append("%s cell: the quantity compared with cutoff^2 is not |x_i - x_j%s|^2 (%s)" % (
                    {"plain": "no", "rect": "rectangular", "tri": "triclinic"}[kind], "" if kind == "plain" else " wrapped", (lc[0][:80] + " < " + lc[1][:30]) if lc else "no `<` test"))
                continue
            rec = [p_ for p_ in pushed if tuple(p_[1]) == tuple(o.cvals)]
            if within:
                if not rec or any(len(r_[2]) != 1 or r_[2][0] != i for r_ in rec):
                    problems.append("%s cell: within the cutoff the haystack atom i is not what is recorded (%s)" % (kind, [r_[2] for r_ in rec]))
                if o.loopctl != "break":
                    problems.append("%s cell: the search does not stop after the atom was recorded (it would be reported once per query atom in range)" % kind)
            elif rec:
                problems.append("%s cell: an atom outside the cutoff is recorded" % kind)
    if seen_kinds != {"plain", "rect", "tri"}:
        problems.append("paths found for %s (expected plain, rectangular and triclinic)" % sorted(seen_kinds))
    ctx.decide(not problems, "C10-R1", C.line(il), NB, "_compute_neighbors",
               "per pair: skip i == j; delta = x_i - x_j, wrapped c, b, a with the reduced box (triclinic) / component-wise (rectangular) / not at all (no box); i recorded once iff |delta|^2 < cutoff^2", "",
               "; ".join(problems[:3]))
    # ---- the flags
    decl = {v.get("name"): _n(C.text(C.kids(v)[-1])) for v in C.walk(fn) if v["kind"] == "VarDecl" and C.kids(v) and v.get("name") in ("periodic", "triclinic")}
    tri = decl.get("triclinic", "")
    flat = tri.replace("(", "").replace(")", "")
    if flat.startswith("periodic&&"):
        idx = set(int(k) for k in re.findall(r"box_matrix\[(\d)\]!=0", flat))
        how = tri
    else:
        idx, how = _triclinic_by_paths(cf, fn, ol)
    ctx.decide(idx == {1, 2, 3, 5, 6, 7}, "C10-R1", C.line(fn), NB, "_compute_neighbors", "triclinic iff any off-diagonal entry of the box is non-zero", "",
               "the triclinic flag looks at box entries %s (off-diagonal entries are 1, 2, 3, 5, 6, 7): a cell skewed only in an entry that is not examined is wrapped as rectangular; %s" % (sorted(idx) if idx is not None else None, how[:160]))


def r2(ctx, cf):
    ctx.analysed_files.add(NL)
    fn = cf.function(NL, "getNeighbors")
    ctx.analysed_functions.add(NL + ":Voxels::getNeighbors")
    g = C.guards(fn)
    pb = [n for n in C.walk(fn) if n["kind"] == "CXXMemberCallExpr" and C.callee_name(n) == "push_back"]
    if len(pb) != 1:
        raise AnalysisError("getNeighbors: expected one push_back, found %d" % len(pb))
    facts = set(g.get(pb[0]["id"], []))
    need = {("(index>=atomIndex)", False), ("(dSquared>maxDistanceSquared)", False)}
    ctx.decide(need <= facts and _n(C.text(C.call_args(pb[0])[0])) == "index", "C10-R2", C.line(pb[0]), NL, "Voxels::getNeighbors", "partner recorded iff index < atomIndex and dSquared <= cutoff^2", "",
               "a partner is recorded under %s: pairs would be collected in both directions (duplicates after completion) or with itself" % sorted(f for f in facts if "index" in f[0] or "dSquared" in f[0]))
    decl = {v.get("name"): _n(C.text(C.kids(v)[-1])) for v in C.walk(fn) if v["kind"] == "VarDecl" and C.kids(v) and v.get("name") in ("maxDistanceSquared", "dSquared", "index", "atomPos", "centerPosVec", "centerAtomPos")}
    deltas = [v for v in C.walk(fn) if v["kind"] == "VarDecl" and v.get("name") == "delta" and C.kids(v) and _n(C.text(C.kids(v)[-1])) == "(atomPos-centerPosVec)"]
    ok = decl.get("maxDistanceSquared") == "(maxDistance*maxDistance)" and decl.get("dSquared") == "dot3(delta,delta)" and len(deltas) == 1 and decl.get("index") == "voxelBins[item].second" and \
        decl.get("atomPos", "").startswith("fvec4(atomLocations[(3*index)]") and decl.get("centerAtomPos") == "(&atomLocations[(3*atomIndex)])"
    ctx.decide(ok, "C10-R2", C.line(fn), NL, "Voxels::getNeighbors", "dSquared = |x[index] - x[atomIndex]|^2 (after the wrap) against cutoff^2", "", "distance quantities are %s" % decl)
    _candidate_wrap_by_value(ctx, cf, fn)
    top = cf.function(NL, "_compute_neighborlist")
    ctx.analysed_functions.add(NL + ":_compute_neighborlist")
    comp = [n for n in C.walk(top) if n["kind"] == "CXXMemberCallExpr" and C.callee_name(n) == "push_back"]
    ok = len(comp) == 1 and _n(C.text(comp[0])) == "neighbors[neighbors[i][j]].push_back(i)"
    ctx.decide(ok, "C10-R2", C.line(comp[0]) if comp else C.line(top), NL, "_compute_neighborlist", "completion: neighbors[neighbors[i][j]].push_back(i)", "", "completion statement is %s" % (C.text(comp[0]) if comp else None))
    if comp:
        loops = [n for n in C.walk(top) if n["kind"] == "ForStmt" and any(x is comp[0] for x in C.walk(n))]
        hdr = [(_n(C.text(C.kids(l)[0])) if C.kids(l) else "", _n(C.text(C.kids(l)[1]))) for l in loops]
        ok = len(loops) == 2 and hdr[0][1] == "(i<numAtoms)" and hdr[1][1] == "(j<neighbors[i].size())"
        ctx.decide(ok, "C10-R2", C.line(loops[0]) if loops else C.line(top), NL, "_compute_neighborlist", "completion ranges over every atom and every recorded partner", "", "completion loops are %s" % hdr)
        omp = [n for n in C.walk(top) if n["kind"].startswith("OMPParallel")]
        ok = bool(omp) and all(C.line(o) < C.line(loops[0]) for o in omp) and not any(x is comp[0] for o in omp for x in C.walk(o))
        ctx.decide(ok, "C10-R2", C.line(comp[0]), NL, "_compute_neighborlist", "completion runs after, and outside, the parallel search", "", "the completion is inside or before the parallel search")
    call = [n for n in C.walk(top) if n["kind"] == "CXXMemberCallExpr" and C.callee_name(n) == "getNeighbors"]
    ok = len(call) == 1 and [_n(C.text(a)) for a in C.call_args(call[0])] == ["neighbors[i]", "i", "maxDistance", "atomLocations", "voxels.getVoxelIndex((&atomLocations[(3*i)]))"]
    ctx.decide(ok, "C10-R2", C.line(call[0]) if call else C.line(top), NL, "_compute_neighborlist", "search of atom i fills neighbors[i] from atom i's voxel", "", "getNeighbors is called as %s" % ([C.text(a) for a in C.call_args(call[0])] if call else None))
    red = [_n(C.text(n)) for n in C.walk(top) if n["kind"] == "CompoundAssignOperator" and _n(C.text(n)).startswith("(periodicBoxVectors[")]
    want = ["(periodicBoxVectors[2][i]-=(periodicBoxVectors[1][i]*roundf((periodicBoxVectors[2][1]/periodicBoxVectors[1][1]))))",
            "(periodicBoxVectors[2][i]-=(periodicBoxVectors[0][i]*roundf((periodicBoxVectors[2][0]/periodicBoxVectors[0][0]))))",
            "(periodicBoxVectors[1][i]-=(periodicBoxVectors[0][i]*roundf((periodicBoxVectors[1][0]/periodicBoxVectors[0][0]))))"]
    ctx.decide(red == want, "C10-R2", C.line(top), NL, "_compute_neighborlist", "box reduced c-=b, c-=a, b-=a", "", "box reduction is %s" % red)


def r3(ctx, cf):
    top = cf.function(NL, "_compute_neighborlist")
    # the pointer the rest of the function uses is re-pointed at a wrapped copy under usePeriodic
    g = C.guards(top)
    rep = [n for n in C.walk(top) if n["kind"] == "BinaryOperator" and n.get("opcode") == "=" and C.ref_name(C.kids(n)[0]) == "atomLocations"]
    if not rep:
        ctx.violated("C10-R3", C.line(top), NL, "_compute_neighborlist", "positions wrapped into the primary cell before hashing",
                     "atom positions are hashed (y, z by floor; x as raw sort key) and compared with the box edges (minx < 0, maxx > box[0][0], centerAtomPos[1] < maxDistance ...) without being wrapped into the primary "
                     "cell: neighbours of atoms that sit outside it are lost")
        return
    r = rep[0]
    facts = set(g.get(r["id"], []))
    ok = ("usePeriodic", True) in facts and _n(C.text(C.kids(r)[1])) == "(&wrappedLocations[0])"
    ctx.decide(ok, "C10-R3", C.line(r), NL, "_compute_neighborlist", "under usePeriodic the search uses the wrapped copy", "", "atomLocations is re-pointed as %s under %s" % (C.text(r), sorted(facts)))
    later = [n for n in C.walk(top) if n["kind"] == "DeclRefExpr" and n["referencedDecl"].get("name") == "atomLocations" and C.line(n) and C.line(n) > C.line(r)]
    first_use = [n for n in C.walk(top) if n["kind"] == "VarDecl" and n.get("name") == "minPos"]
    ok = bool(first_use) and C.line(first_use[0]) > C.line(r) and len(later) >= 5
    ctx.decide(ok, "C10-R3", C.line(r), NL, "_compute_neighborlist", "bounding box, voxel insertion and search all come after the re-pointing (%d uses)" % len(later), "", "some uses of the positions precede the wrap")
    # the wrap itself: for k = 2,1,0: scale = floorf(pos[k]/box[k][k]); pos[j] -= scale*box[k][j]
    loops = [n for n in C.walk(top) if n["kind"] == "ForStmt" and C.line(n) < C.line(r) and any(v.get("name") == "scale" for v in C.walk(n) if v["kind"] == "VarDecl")]
    ok = False
    why = "wrap loop not found"
    if loops:
        kl = [l for l in loops if _n(C.text(C.kids(l)[1])) == "(k>=0)"]
        sc = [v for v in C.walk(loops[0]) if v["kind"] == "VarDecl" and v.get("name") == "scale"]
        upd = [_n(C.text(n)) for n in C.walk(loops[0]) if n["kind"] == "CompoundAssignOperator" and _n(C.text(n)).startswith("(pos[")]
        init = [v for l in kl for v in C.walk(C.kids(l)[0]) if v["kind"] == "VarDecl" and v.get("name") == "k"]
        ok = bool(kl) and bool(init) and _n(C.text(C.kids(init[0])[-1])) == "2" and bool(sc) and _n(C.text(C.kids(sc[0])[-1])) == "floorf((pos[k]/periodicBoxVectors[k][k]))" and \
            upd == ["(pos[j]-=(scale*periodicBoxVectors[k][j]))"]
        why = "k loop %s, scale %s, update %s" % ([_n(C.text(C.kids(l)[1])) for l in loops], _n(C.text(C.kids(sc[0])[-1])) if sc else None, upd)
    ctx.decide(ok, "C10-R3", C.line(loops[0]) if loops else C.line(r), NL, "_compute_neighborlist", "wrap: for k = 2,1,0: pos -= floor(pos[k]/box[k][k]) * box[k]", "", "the wrap is not the c, b, a floor reduction: %s" % why)
    src_copy = [n for n in C.walk(top) if n["kind"] == "CXXMemberCallExpr" and C.callee_name(n) == "assign" and "wrappedLocations" in C.text(n)]
    ok = bool(src_copy) and _n(C.text(src_copy[0])) == "wrappedLocations.assign(atomLocations,(atomLocations+(3*numAtoms)))"
    ctx.decide(ok, "C10-R3", C.line(src_copy[0]) if src_copy else C.line(r), NL, "_compute_neighborlist", "the wrapped copy starts from all input positions (the caller's array is not modified)", "", "copy is %s" % (C.text(src_copy[0]) if src_copy else None))


ALIASES = {"xyz": {"xyz"}, "frame_xyz": {"xyz"}, "atomLocations": {"xyz"}, "n_atoms": {"n_atoms", "traj"}, "numAtoms": {"n_atoms"}, "cutoff": {"cutoff"}, "maxDistance": {"cutoff"},
           "query_indices": {"query_indices_"}, "haystack_indices": {"haystack_indices_"}, "box_matrix": {"box_matrix_pointer"}, "boxVectors": {"box_matrix_pointer"}}


def r4(ctx, cf):
    # ---- neighbors.pyx
    fn = ctx.py.func(NBP, "compute_neighbors")
    ctx.analysed_files.add(NBP)
    s = src(fn)
    per = [n for n in walk_no_nested(fn) if isinstance(n, ast.Assign) and dotted(n.targets[0]) == "is_periodic"]
    ok = bool(per) and _n(src(per[0].value)) in ("periodicandtraj.unitcell_vectorsisnotNone", "periodicand(traj.unitcell_vectorsisnotNone)")
    ctx.decide(ok, "C10-R4", per[0] if per else fn, NBP, "compute_neighbors", "is_periodic = periodic and unit cell present", "", "is_periodic is %s" % (src(per[0].value) if per else None))
    loop = [n for n in walk_no_nested(fn) if isinstance(n, ast.For) and src(n.iter) == "range(n_frames)"]
    if not loop:
        raise AnalysisError("compute_neighbors: frame loop not found")
    lp = loop[0]
    bp = [n for n in ast.walk(lp) if isinstance(n, ast.Assign) and dotted(n.targets[0]) == "box_matrix_pointer"]
    ok = len(bp) == 1 and _n(src(bp[0].value)) == "box_matrix[i,0,0]" and any(isinstance(n, ast.If) and src(n.test) == "is_periodic" and bp[0] in n.body for n in ast.walk(lp))
    ctx.decide(ok, "C10-R4", bp[0] if bp else lp, NBP, "compute_neighbors", "box pointer = box of frame i when periodic", "", "per-frame box pointer is %s" % (src(bp[0].value) if bp else None))
    nullp = [n for n in walk_no_nested(fn) if isinstance(n, ast.Assign) and dotted(n.targets[0]) == "box_matrix_pointer" and src(n.value) == "NULL"]
    ok = len(nullp) == 1 and any(isinstance(n, ast.If) and src(n.test) == "is_periodic" and nullp[0] in n.orelse for n in walk_no_nested(fn))
    ctx.decide(ok, "C10-R4", nullp[0] if nullp else fn, NBP, "compute_neighbors", "NULL box when not periodic", "", "non-periodic box pointer handling changed")
    bm = [n for n in walk_no_nested(fn) if isinstance(n, ast.Assign) and dotted(n.targets[0]) == "box_matrix"]
    ok = bool(bm) and _n(src(bm[0].value)).replace('"', "'") == "np.asarray(unitcell_vectors,order='c')" and "traj.unitcell_vectors" in s
    ctx.decide(ok, "C10-R4", bm[0] if bm else fn, NBP, "compute_neighbors", "box = traj.unitcell_vectors (rows a, b, c)", "", "box matrix is %s" % (src(bm[0].value) if bm else None))
    _ffi(ctx, cf, fn, NBP, "compute_neighbors", "_compute_neighbors", NB, frame="i")
    app = [n for n in ast.walk(lp) if isinstance(n, ast.Call) and call_name(n) == "results.append"]
    ok = len(app) == 2 and any("copy=True" in src(a) and "frame_neighbors_mview" in src(a) for a in app)
    ctx.decide(ok, "C10-R4", app[0] if app else lp, NBP, "compute_neighbors", "one result per frame, copied out of the C++ vector", "", "per-frame results are appended as %s" % [src(a)[:60] for a in app])
    dflt = [n for n in walk_no_nested(fn) if isinstance(n, ast.Assign) and dotted(n.targets[0]) == "haystack_indices" and "np.arange" in src(n.value)]
    ok = bool(dflt) and _n(src(dflt[0].value)) == "np.arange(traj.xyz.shape[1])"
    ctx.decide(ok, "C10-R4", dflt[0] if dflt else fn, NBP, "compute_neighbors", "default haystack = all atoms in index order", "", "default haystack is %s" % (src(dflt[0].value) if dflt else None))
    # ---- neighborlist.pyx
    fn = ctx.py.func(NLP, "compute_neighborlist")
    ctx.analysed_files.add(NLP)
    per = [n for n in walk_no_nested(fn) if isinstance(n, ast.Assign) and dotted(n.targets[0]) == "is_periodic"]
    ok = bool(per) and _n(src(per[0].value)) in ("periodicandtraj.unitcell_vectorsisnotNone", "periodicand(traj.unitcell_vectorsisnotNone)")
    ctx.decide(ok, "C10-R4", per[0] if per else fn, NLP, "compute_neighborlist", "is_periodic = periodic and unit cell present", "", "is_periodic is %s" % (src(per[0].value) if per else None))
    x = [n for n in walk_no_nested(fn) if isinstance(n, ast.Assign) and dotted(n.targets[0]) == "xyz"]
    u = [n for n in walk_no_nested(fn) if isinstance(n, ast.Assign) and dotted(n.targets[0]) == "unitcell_vectors"]
    ok = bool(x) and src(x[0].value) == "traj.xyz[frame]" and bool(u) and "traj.unitcell_vectors[frame]" in src(u[0].value)
    ctx.decide(ok, "C10-R4", x[0] if x else fn, NLP, "compute_neighborlist", "positions and box of the same frame", "", "positions %s, box %s" % (src(x[0].value) if x else None, src(u[0].value)[:50] if u else None))
    bp = [n for n in walk_no_nested(fn) if isinstance(n, ast.Assign) and dotted(n.targets[0]) == "box_matrix_pointer"]
    vals = sorted(_n(src(n.value)) for n in bp)
    ctx.decide(vals == ["NULL", "box_matrix[0,0]"], "C10-R4", bp[0] if bp else fn, NLP, "compute_neighborlist", "box pointer or NULL", "", "box pointer values are %s" % vals)
    _ffi(ctx, cf, fn, NLP, "compute_neighborlist", "_compute_neighborlist", NL, frame=None)
    loop = [n for n in walk_no_nested(fn) if isinstance(n, ast.For) and src(n.iter) == "range(n_atoms)"]
    ok = bool(loop) and len([n for n in ast.walk(loop[0]) if isinstance(n, ast.Call) and call_name(n) == "neighbors.append"]) == 2
    ctx.decide(ok, "C10-R4", loop[0] if loop else fn, NLP, "compute_neighborlist", "one list per atom, in atom order", "", "result assembly changed")


def _ffi(ctx, cf, fn, rel, q, cname, tu, frame):
    call = [n for n in ast.walk(fn) if isinstance(n, ast.Call) and call_name(n) == cname]
    if len(call) != 1:
        raise AnalysisError("%s: call to %s not found" % (q, cname))
    c = call[0]
    cps = [p.get("name") for p in C.fparams(cf.function(tu, cname))]
    ctx.decide(len(cps) == len(c.args), "C10-R4", c, rel, q, "%s(): %d arguments for %d parameters" % (cname, len(c.args), len(cps)), "", "argument count mismatch")
    for k, (a, p) in enumerate(zip(c.args, cps)):
        base = a
        while isinstance(base, ast.Subscript):
            base = base.value
        an = (dotted(base) or src(base)).split(".")[0]
        ok = an == p or an in ALIASES.get(p, set())
        if ok and isinstance(a, ast.Subscript) and frame is not None and p in ("xyz", "frame_xyz"):
            ok = _n(src(a)) == "xyz[%s,0,0]" % frame
        ctx.decide(ok, "C10-R4", c, rel, q, "%s arg %d -> %s" % (cname, k, p), "receives `%s`" % src(a)[:30], "parameter `%s` of %s receives `%s`" % (p, cname, src(a)[:40]))


def r5_voxel_invariants(ctx, cf):
    """Two invariants of the voxel grid that are visible in the code: a voxel size is never set to zero, and the periodic voxel ranges are clamped to one period after every other adjustment."""
    _voxel_sizes_by_value(ctx, cf)
    gn = cf.function(NL, "getNeighbors")
    for ax in ("y", "z"):
        loops = [n for n in C.walk(gn) if n["kind"] == "ForStmt" and _n(C.text(C.kids(n)[1])) == "(%s<=end%s)" % (ax, ax)]
        if not loops:
            ctx.undecided("C10-R5", C.line(gn), NL, "Voxels::getNeighbors", "%s voxel loop" % ax, "loop `for (%s = start%s; %s <= end%s; ...)` not found" % (ax, ax, ax, ax))
            continue
        lp = loops[0]
        writes = [n for n in C.walk(gn) if n["kind"] in ("BinaryOperator", "CompoundAssignOperator") and n.get("opcode", "").endswith("=") and n.get("opcode") not in ("==", "<=", ">=", "!=")
                  and C.ref_name(C.kids(n)[0]) in ("start" + ax, "end" + ax) and C.line(n) is not None and C.line(n) < C.line(lp)]
        decls = [n for n in C.walk(gn) if n["kind"] == "VarDecl" and n.get("name") in ("start" + ax, "end" + ax)]
        # only the writes that belong to this loop instance (after the declarations)
        dl = max([C.line(d) for d in decls if C.line(d) < C.line(lp)] or [0])
        writes = [w for w in writes if C.line(w) >= dl]
        per = [w for w in writes if ("usePeriodic", True) in [(t.replace("this.", ""), p) for t, p in C.guards(gn).get(w["id"], [])]]
        clamp = [w for w in per if _n(C.text(w)).replace("this.", "") == "(end%s=min(end%s,((start%s+n%s)-1)))" % (ax, ax, ax, ax)]
        ok = len(clamp) == 1 and all(C.line(w) <= C.line(clamp[0]) for w in per)
        ctx.decide(ok, "C10-R5", C.line(clamp[0]) if clamp else C.line(lp), NL, "Voxels::getNeighbors", "periodic %s range clamped to one period (end <= start + n - 1) after all other adjustments" % ax, "",
                   "the clamp `end%s = min(end%s, start%s+n%s-1)` is %s: the loop can span more than n%s voxels and one voxel column is scanned twice (duplicate neighbours)"
                   % (ax, ax, ax, ax, "missing" if not clamp else "followed by another write to start%s/end%s" % (ax, ax), ax))


def _voxel_sizes_by_value(ctx, cf):
    """The constructor of Voxels evaluated by value numbering for usePeriodic = true and = false: on every path the voxel size along y / z
    is the size asked for, or extent / n with an extent that is positive on that path - the box edge (periodic), or max - min of the atoms
    on a path where max > min has been established.  (extent / n with max == min is 0: every voxel index computed from it is garbage.)"""
    from ..symval import SymExec, State, Ptr, Unsupported, elementary_facts, has_fact
    ctor = cf.function(NL, "Voxels")
    ps = C.fparams(ctor)
    names = [p_.get("name") for p_ in ps]
    if len(names) != 8:
        raise AnalysisError("Voxels::Voxels: %d parameters (8 expected)" % len(names))
    vsy, vsz, miny, maxy, minz, maxz, box, per = names

    def model(name, args, n, st, ex):
        if name in ("resize", "assign", "clear", "push_back", "reserve"):
            return Rat(Poly.const(0))
        if name in ("max", "min") and len(args) == 2:
            return ex.opaque_call(name, args)
        return None
    var = lambda n_: Rat(Poly.var(n_))     # noqa: E731
    for periodic in (True, False):
        ex = SymExec(cf, NL, call_model=model, symbolic_loops={"*"})
        st = State()
        for p_ in ps:
            nm = p_.get("name")
            st.env[nm] = Ptr(nm, 0) if ("[" in C.qtype(p_) or "*" in C.qtype(p_)) else st.sym(nm)
        st.env[per] = Rat(Poly.const(1 if periodic else 0))
        fields = {}
        try:
            for k in C.kids(ctor):
                if k["kind"] == "CXXCtorInitializer":
                    fld = (k.get("anyInit") or {}).get("name")
                    try:
                        st.env["this." + fld] = ex.expr(C.kids(k)[0], st)
                        fields[fld] = st.env["this." + fld]
                    except Unsupported:
                        pass
            for fld in ("periodicBoxSize", "recipBoxSize"):
                st.env["this." + fld] = Ptr("this." + fld, 0)
            outs = ex.run(C.kids(C.body_of(ctor)), st)
        except Unsupported as e:
            ctx.undecided("C10-R5", C.line(ctor), NL, "Voxels::Voxels", "voxel sizes, usePeriodic=%s" % periodic, "not evaluable: %s" % e)
            continue
        # the two size fields: the members initialised from the first two parameters
        size_fields = [f for f, v in fields.items() if isinstance(v, Rat) and v == var(vsy)] + [f for f, v in fields.items() if isinstance(v, Rat) and v == var(vsz)]
        if len(size_fields) != 2:
            ctx.undecided("C10-R5", C.line(ctor), NL, "Voxels::Voxels", "voxel sizes", "the members initialised from (%s, %s) were not found" % (vsy, vsz))
            continue
        for ax, fld, asked, lo, hi, edge in (("y", size_fields[0], var(vsy), var(miny), var(maxy), 1), ("z", size_fields[1], var(vsz), var(minz), var(maxz), 2)):
            bad = None
            for o in outs:
                v = o.env.get("this." + fld)
                if v is None or not isinstance(v, Rat):
                    bad = bad or "the voxel size along %s has no scalar value on a path" % ax
                    continue
                if v == asked:
                    continue
                facts = []
                for (cv, pol), (txt, _p) in zip(o.cexprs, o.cvals):
                    facts += elementary_facts(ex, cv if cv is not None else txt, pol)
                num = Rat(v.n)      # numerator of extent / n
                box_edge = var("%s[(%d, %d)]" % (box, edge, edge))

                def prop(a_, b_):
                    """a_ == c * b_ for a positive constant c"""
                    pa, pb = a_.poly(), b_.poly()
                    if pa is None or pb is None or not pb.t:
                        return False
                    mono = sorted(pb.t)[0]
                    if mono not in pa.t:
                        return False
                    c_ = pa.t[mono] / pb.t[mono]
                    return c_ > 0 and a_ == b_ * Rat(Poly.const(c_))
                if periodic and prop(num, box_edge):
                    continue
                if prop(num, hi - lo) and has_fact(facts, "<", lo - hi):
                    continue
                if prop(num, hi - lo) and not has_fact(facts, "<", lo - hi):
                    bad = bad or "the voxel size along %s becomes (%s - %s) / n on a path where %s > %s has not been established: for atoms that share one %s coordinate it is 0 and every voxel index is garbage" % (ax, hi, lo, hi, lo, ax)
                else:
                    bad = bad or "the voxel size along %s becomes %r" % (ax, v)
            ctx.decide(bad is None, "C10-R5", C.line(ctor), NL, "Voxels::Voxels", "usePeriodic=%s: the voxel size along %s stays positive (asked size, box edge / n, or (max - min) / n only when max > min)" % (periodic, ax),
                       "%d paths" % len(outs), bad or "")


def _triclinic_by_paths(cf, fn, outer):
    """When the triclinic flag is not one expression: evaluate the statements before the atom loops on every path and return the set of
    box entries k such that `box_matrix[k] != 0` alone makes the flag true."""
    from ..symval import SymExec, State, Ptr, Unsupported
    pre = []
    for st in C.kids(C.body_of(fn)):
        if st is outer or any(x is outer for x in C.walk(st)):
            break
        pre.append(st)
    ex = SymExec(cf, NB, max_unroll=16)
    st0 = State()
    for p_ in C.fparams(fn):
        nm = p_.get("name")
        st0.env[nm] = Ptr(nm, 0) if "*" in C.qtype(p_) else st0.sym(nm)
    try:
        outs = [st0]
        for stmt in pre:
            nxt = []
            for o in outs:
                nxt.extend(ex.run([stmt], o))
            outs = nxt
            for o in outs:
                v = o.env.get("periodic")
                if v is not None and hasattr(v, "const_value") and v.const_value() is None:
                    o.env["periodic"] = Rat(Poly.const(1))      # the flag matters in the periodic case: a box is given
    except Unsupported as e:
        return None, "not evaluable: %s" % e
    idx = set()
    for o in outs:
        true_conds = [str(c) for c, p in o.cvals if p and "box_matrix[" in str(c)]
        v = o.env.get("triclinic")
        val = v.const_value() if hasattr(v, "const_value") else None
        nz = set(int(k) for c in true_conds for k in re.findall(r"box_matrix\[(\d)\]", c))
        if val is not None and val != 0 and len(nz) == 1:
            idx |= nz
    return idx, "flag computed on %d paths" % len(outs)


def r5_face_tests(ctx, cf):
    """needPeriodic decides whether the minimum-image wrap is applied to a candidate at all.  It must be true whenever the centre atom is
    within the cutoff of a cell face: for y and z each, `pos[k] < maxDistance` and `pos[k] > periodicBoxSize[k] - maxDistance` with the
    *same* k on both sides, and for x the already computed search range leaving [0, a_x]."""
    gn = cf.function(NL, "getNeighbors")
    decl = [v for v in C.walk(gn) if v["kind"] == "VarDecl" and v.get("name") == "needPeriodic" and C.kids(v)]
    if not decl:
        raise AnalysisError("getNeighbors: declaration of needPeriodic not found")
    init = C.strip(C.kids(decl[0])[-1])
    parts = C._split_and(init)
    disj = []
    for p_ in parts[1:]:
        disj += C._split_or(p_)
    flat = sorted(re.sub(r"[\s()]", "", C.text(d)).replace("this.", "") for d in disj)
    want = sorted(["centerAtomPos[%d]<maxDistance" % k for k in (1, 2)] + ["centerAtomPos[%d]>periodicBoxSize[%d]-maxDistance" % (k, k) for k in (1, 2)] + ["minx<0.0", "maxx>periodicBoxVectors[0][0]"])
    lead = re.sub(r"[\s()]", "", C.text(parts[0])).replace("this.", "") if parts else ""
    ctx.decide(lead == "usePeriodic" and flat == want, "C10-R5", C.line(decl[0]), NL, "Voxels::getNeighbors",
               "needPeriodic = usePeriodic and (within maxDistance of a y or z face, same axis on both sides of each test, or the x range leaves the cell)", "",
               "the face tests are %s (expected %s): an atom near the face whose test is missing or uses another axis's box length is searched without periodic images" % (flat, want))


def r5_corner_extrema(ctx, cf):
    """Triclinic cells: the x interval searched in a voxel is widened by the x offsets of the periodic images of the voxel's four (y, z) corners.  The
    block is value-numbered (sa/symval.py; floor / sqrt / abs / min / max opaque, lane by lane for fvec4): the lower end uses the largest and the
    upper end the smallest of exactly the four corner offsets, each the x component of corner - centre wrapped along c, b, a.  An extremum over fewer
    corners makes the interval too narrow and loses pairs."""
    from ..symval import SymExec, State, Ptr, Vec, Unsupported
    from ..poly import Poly, Rat
    gn = cf.function(NL, "getNeighbors")
    desc = "triclinic cells: the x interval of a voxel is widened by the extrema over the images of all four of its corners"
    cands = [n for n in C.walk(gn) if n["kind"] == "IfStmt" and "triclinic" in C.text(C.kids(n)[0]) and sum(1 for y in C.walk(n) if y["kind"] == "VarDecl" and "fvec4" in C.qtype(y)) >= 4]
    if not cands:
        ctx.undecided("C10-R5", C.line(gn), NL, "Voxels::getNeighbors", desc, "the block that prunes by voxel corners under `triclinic` was not found")
        return
    then = C.kids(cands[0])[1]

    def model(name, args, n, st, ex_):
        vals = [a for a in args if isinstance(a, Rat)]
        if name in ("min", "max") and len(vals) == 2 and len(args) == 2:
            return ex_.opaque_call(name, vals)
        if name in ("min", "max") and len(args) == 2 and all(isinstance(a, Vec) for a in args):
            return Vec([ex_.opaque_call(name, [args[0][k], args[1][k]]) for k in range(4)])
        if name in ("abs", "fabs", "fabsf", "__builtin_labs") and len(args) == 1 and isinstance(args[0], Vec):
            return Vec([ex_.opaque_call("abs", [args[0][k]]) for k in range(4)])
        return None
    ex = SymExec(cf, NL, call_model=model)
    st = State()
    var = lambda n_: Rat(Poly.var(n_))      # noqa: E731
    c = [var("c%d" % k) for k in range(3)]
    Bm = [[var("B%d%d" % (k, j)) for j in range(3)] for k in range(3)]
    for nm in ("centerPosVec", "this.centerPosVec"):
        st.env[nm] = Vec(c + [Rat(Poly.const(0))])
    for nm in ("centerAtomPos", "recipBoxSize", "periodicBoxVec4"):
        st.env[nm] = Ptr(nm, 0)
        st.env["this." + nm] = Ptr(nm, 0)
    for k in range(3):
        st.env[("periodicBoxVec4", k)] = Vec(Bm[k] + [Rat(Poly.const(0))])
    names = {"voxelIndex.y": "vy", "voxelIndex.z": "vz", "atomVoxelIndex.y": "ay", "atomVoxelIndex.z": "az", "minx": "minx", "maxx": "maxx", "voxelSizeY": "sy", "voxelSizeZ": "sz", "maxDistanceSquared": "d2max"}
    for nm, sym_ in names.items():
        st.env[nm] = var(sym_)
        st.env["this." + nm] = var(sym_)
    try:
        outs = ex.run(C.kids(then), st)
    except Unsupported as e:
        ctx.undecided("C10-R5", C.line(cands[0]), NL, "Voxels::getNeighbors", desc, "not evaluable: %s" % e)
        return
    floors = [n_ for n_, (f_, a_) in ex.opaque.items() if f_ in ("floor", "floorf")]
    fname = ex.opaque[floors[0]][0] if floors else "floor"
    rec = [var("recipBoxSize[%d]" % k) for k in range(3)]
    half = Rat(Poly.const(1)) / 2

    def wrap(d):
        d = list(d)
        for k in (2, 1, 0):
            f = ex.opaque_call(fname, [d[k] * rec[k] + half])
            d = [d[j] - Bm[k][j] * f for j in range(3)]
        return d
    zero = Rat(Poly.const(0))
    d1 = [zero, var("sy") * var("vy") - c[1], var("sz") * var("vz") - c[2]]
    corners = [d1, [d1[0], d1[1] + var("sy"), d1[2]], [d1[0], d1[1], d1[2] + var("sz")], [d1[0], d1[1] + var("sy"), d1[2] + var("sz")]]
    want = [wrap(d_)[0] for d_ in corners]

    def leaves(v, fn_):
        vs = list(v.vars()) if isinstance(v, Rat) else []
        if isinstance(v, Rat) and len(vs) == 1 and v == var(vs[0]) and ex.opaque.get(vs[0], ("",))[0] == fn_:
            out = []
            for a_ in ex.opaque[vs[0]][1]:
                out += leaves(a_, fn_)
            return out
        return [v]

    def chain_of(v, outer, inner):
        """the leaves of the `inner` extremum inside  outer(old, centre -+ dist - inner(...))"""
        vs = list(v.vars()) if isinstance(v, Rat) else []
        if not (len(vs) == 1 and ex.opaque.get(vs[0], ("",))[0] == outer):
            return None
        for a_ in ex.opaque[vs[0]][1]:
            tops = [x_ for x_ in a_.vars() if ex.opaque.get(x_, ("",))[0] == inner]
            if tops:
                return leaves(var(tops[0]), inner)
        return None
    done, why = 0, []
    for o in outs:
        lo, hi = chain_of(o.env.get("minx"), "min", "max"), chain_of(o.env.get("maxx"), "max", "min")
        if lo is None or hi is None:
            continue
        done += 1
        for what, got in (("lower end (largest corner offset)", lo), ("upper end (smallest corner offset)", hi)):
            missing = [k_ + 1 for k_, w_ in enumerate(want) if not any(g_ == w_ for g_ in got)]
            extra = [g_ for g_ in got if not any(g_ == w_ for w_ in want)]
            if missing or extra:
                why.append("the %s is taken over %d value(s) that %s" % (what, len({repr(g_) for g_ in got}), ("leave out the image of corner %s" % missing) if missing else "are not corner offsets"))
        break
    if not done:
        ctx.undecided("C10-R5", C.line(cands[0]), NL, "Voxels::getNeighbors", desc, "no path on which the interval is widened was recognised (%d paths)" % len(outs))
        return
    ctx.decide(not why, "C10-R5", C.line(cands[0]), NL, "Voxels::getNeighbors", desc, "", "; ".join(why) + ": the interval can be too narrow, pairs across a skewed cell are lost")


def r5_disjoint_x_ranges(ctx, cf):
    """Near a cell face the atoms of one voxel are searched in two index ranges of its sorted bin (the primary one and the wrapped one).  The block
    that sets them is value-numbered (sa/symval.py; findLowerBound / findUpperBound kept as opaque functions of their arguments, known only to return
    an index >= their lower hint and <= the larger of their hints - read off their loops): on every path that searches two ranges, the second ends at
    or before the start of the first or starts at or after its end.  Overlapping ranges list an atom twice."""
    from ..symval import SymExec, State, Ptr, Unsupported, elementary_facts, has_fact
    from ..poly import Poly, Rat
    gn = cf.function(NL, "getNeighbors")
    desc = "the two x ranges searched in a voxel near a cell face do not overlap"
    # the statements between the declaration of the two range arrays (int[2]) and the loop that walks the ranges
    arrs = [v for v in C.walk(gn) if v["kind"] == "VarDecl" and re.sub(r"\s", "", C.qtype(v)) == "int[2]"]
    arrays = sorted({v.get("name") for v in arrs})
    if len(arrays) != 2:
        ctx.undecided("C10-R5", C.line(gn), NL, "Voxels::getNeighbors", desc, "the two range arrays (int[2]) were not found (%s)" % arrays)
        return
    comp = next((n for n in C.walk(gn) if n["kind"] == "CompoundStmt" and any(k_["kind"] == "DeclStmt" and any(v_ is arrs[0] for v_ in C.kids(k_)) for k_ in C.kids(n))), None)
    if comp is None:
        ctx.undecided("C10-R5", C.line(gn), NL, "Voxels::getNeighbors", desc, "the block that declares the range arrays was not found")
        return
    kids_ = C.kids(comp)
    i0 = next(k_ for k_, x_ in enumerate(kids_) if x_["kind"] == "DeclStmt" and any(v_ in arrs for v_ in C.kids(x_)))
    uses = lambda x_: any(y_["kind"] == "DeclRefExpr" and y_.get("referencedDecl", {}).get("name") in arrays for y_ in C.walk(x_))       # noqa: E731
    i1 = next((k_ for k_, x_ in enumerate(kids_) if k_ > i0 and x_["kind"] == "ForStmt" and uses(x_)), None)
    if i1 is None:
        ctx.undecided("C10-R5", C.line(comp), NL, "Voxels::getNeighbors", desc, "the loop over the ranges was not found")
        return
    seg = kids_[i0:i1]
    blk = seg[0]

    def model(name, args, n, st, ex_):
        vals = [a for a in args if isinstance(a, Rat)]
        if name in ("findLowerBound", "findUpperBound") and len(vals) >= 2:
            return ex_.opaque_call(name, vals)
        if name in ("min", "max") and len(vals) == 2 and len(args) == 2:
            return ex_.opaque_call(name, vals)
        if name == "size":
            return ex_.opaque_call("size", [])
        return None
    ex = SymExec(cf, NL, call_model=model)
    st = State()
    for nm in ("needPeriodic", "this.needPeriodic", "minx", "maxx"):
        st.env[nm] = Rat(Poly.var(nm.replace("this.", "")))
    # members and locals of the enclosing function that the statements subscript: arrays of unknown content
    for top_ in seg:
      for x_ in C.walk(top_):
        if x_["kind"] in ("ArraySubscriptExpr", "CXXOperatorCallExpr"):
            base = C.kids(x_)[0] if x_["kind"] == "ArraySubscriptExpr" else (C.call_args(x_)[0] if C.call_args(x_) else None)
            while base is not None and C.strip(base).get("kind") in ("ArraySubscriptExpr", "CXXOperatorCallExpr"):
                b_ = C.strip(base)
                base = C.kids(b_)[0] if b_["kind"] == "ArraySubscriptExpr" else (C.call_args(b_)[0] if C.call_args(b_) else None)
            t_ = re.sub(r"\s", "", C.text(base)) if base is not None else ""
            if t_ and re.match(r"^(this\.)?\w+$", t_) and t_.replace("this.", "") not in arrays:
                for nm in (t_, t_.replace("this.", ""), "this." + t_.replace("this.", "")):
                    st.env.setdefault(nm, Ptr(t_.replace("this.", ""), 0))
    try:
        outs = [st]
        for stmt in seg:
            nxt = []
            for s_ in outs:
                try:
                    nxt += ex.run([stmt], s_)
                except Unsupported:
                    if stmt["kind"] != "DeclStmt":
                        raise
                    for v_ in C.kids(stmt):      # a local whose initialiser the evaluator does not read (a container's size ...): an unknown value
                        if v_["kind"] == "VarDecl":
                            s_.env[v_.get("name")] = Rat(Poly.var(v_.get("name")))
                    nxt.append(s_)
            outs = nxt
    except Unsupported as e:
        ctx.undecided("C10-R5", C.line(blk), NL, "Voxels::getNeighbors", desc, "not evaluable: %s" % e)
        return
    # which array holds the starts: the one whose first element is what findLowerBound returned
    S_ = next((a_ for a_ in arrays for o_ in outs if isinstance(o_.env.get((a_, 0)), Rat) and len(o_.env[(a_, 0)].vars()) == 1
               and ex.opaque.get(list(o_.env[(a_, 0)].vars())[0], ("",))[0] == "findLowerBound"), None)
    if S_ is None:
        ctx.undecided("C10-R5", C.line(blk), NL, "Voxels::getNeighbors", desc, "the start of the primary range (findLowerBound) was not found")
        return
    E_ = [a_ for a_ in arrays if a_ != S_][0]

    def args_of(v):
        if isinstance(v, Rat) and len(v.vars()) == 1 and v == Rat(Poly.var(list(v.vars())[0])):
            return ex.opaque.get(list(v.vars())[0])
        return None

    def ge(v, b, facts, depth=0):
        if v == b or has_fact(facts, "<=", b - v) or has_fact(facts, "<", b - v):
            return True
        d_ = (v - b).const_value() if isinstance(v, Rat) and isinstance(b, Rat) else None
        if d_ is not None and d_ >= 0:
            return True
        o_ = args_of(v)
        if o_ and depth < 4:
            if o_[0] == "max":
                return any(ge(a_, b, facts, depth + 1) for a_ in o_[1])
            if o_[0] == "min":
                return all(ge(a_, b, facts, depth + 1) for a_ in o_[1])
            if o_[0] in ("findLowerBound", "findUpperBound"):
                return ge(o_[1][-2], b, facts, depth + 1)       # the result is never below the lower hint
        return False

    def le(v, b, facts, depth=0):
        if v == b or has_fact(facts, "<=", v - b) or has_fact(facts, "<", v - b):
            return True
        d_ = (b - v).const_value() if isinstance(v, Rat) and isinstance(b, Rat) else None
        if d_ is not None and d_ >= 0:
            return True
        o_ = args_of(v)
        if o_ and depth < 4:
            if o_[0] == "min":
                return any(le(a_, b, facts, depth + 1) for a_ in o_[1])
            if o_[0] == "max":
                return all(le(a_, b, facts, depth + 1) for a_ in o_[1])
            if o_[0] in ("findLowerBound", "findUpperBound"):
                return le(o_[1][-2], b, facts, depth + 1) and le(o_[1][-1], b, facts, depth + 1)       # ... nor above the larger hint
        return False
    n_two, bad = 0, []
    for o in outs:
        s1, e1, e0, s0 = o.env.get((S_, 1)), o.env.get((E_, 1)), o.env.get((E_, 0)), o.env.get((S_, 0))
        if s1 is None or e1 is None or e0 is None or s0 is None:
            continue        # one range only on this path
        n_two += 1
        facts = []
        for (cv, pol), (txt, _p) in zip(o.cexprs, o.cvals):
            facts += elementary_facts(ex, cv if cv is not None else txt, pol)
        if not (le(e1, s0, facts) or ge(s1, e0, facts)):
            bad.append("second range [%s, %s) against the first [%s, %s)" % (repr(s1)[:70], repr(e1)[:50], repr(s0)[:40], repr(e0)[:50]))
    if n_two == 0:
        ctx.undecided("C10-R5", C.line(blk), NL, "Voxels::getNeighbors", desc, "no path sets a second range")
        return
    ctx.decide(not bad, "C10-R5", C.line(blk), NL, "Voxels::getNeighbors", desc + " (%d paths with two ranges)" % n_two, "",
               "neither `end of the second <= start of the first` nor `start of the second >= end of the first` is established: %s - an atom inside both is listed twice" % "; ".join(bad[:2]))


def r5_y_range_of_a_z_voxel(ctx, cf):
    """For a z voxel the y voxels visited are shifted by boxz*c_y, boxz = floor(z/nz) being the periodic copy the *loop index* stands for.
    That is one copy per voxel - but a voxel about half a box away in z holds atoms on both sides of the half-box boundary, some of which are
    nearest through the neighbouring copy, whose y differs by c_y.  With c_y != 0 (triclinic) a single offset therefore loses pairs as soon
    as the cutoff comes within a voxel of c_z/2.  Accepted: under `triclinic` the y range is the whole row 0 .. ny-1 (the corner test that
    follows prunes), the single-offset form only when the cell is not triclinic.  Any other form is left undecided."""
    gn = cf.function(NL, "getNeighbors")
    g = C.guards(gn)
    asg = []
    for n in C.walk(gn):
        if n["kind"] in ("BinaryOperator", "CompoundAssignOperator") and n.get("opcode") in ("=", "-=", "+=") and C.ref_name(C.kids(n)[0]) in ("starty", "endy"):
            asg.append(n)
        if n["kind"] == "VarDecl" and n.get("name") in ("starty", "endy") and C.kids(n):
            asg.append(n)
    shifted = [n for n in asg if n["kind"] != "VarDecl" and "yoffset" in C.text(C.kids(n)[1])]
    if not shifted:
        ctx.undecided("C10-R5", C.line(gn), NL, "Voxels::getNeighbors", "y range of a z voxel", "the adjustment of starty / endy by yoffset was not found: the way the y range follows the periodic copy in z is not recognised")
        return
    def known_false(facts, name):
        """(name, False) directly, or from a refuted conjunction whose other conjuncts hold: not (A && name) and A  =>  not name"""
        facts = [(re.sub(r"this\.", "", t), p_) for t, p_ in facts]
        if (name, False) in facts:
            return True
        for t, p_ in facts:
            if not p_ and "&&" in t:
                parts = [x.strip("()") for x in t.strip("()").split("&&")]
                if name in parts and all((x, True) in facts or ("(%s)" % x, True) in facts for x in parts if x != name):
                    return True
        return False
    bad = [n for n in shifted if not known_false(g.get(n["id"], []), "triclinic")]
    full = [n for n in asg if n["kind"] != "VarDecl" and n.get("opcode") == "=" and ("triclinic", True) in [(t.replace("this.", ""), p_) for t, p_ in g.get(n["id"], [])]
            and re.sub(r"[\s()]|this\.", "", C.text(C.kids(n)[1])) in ("0", "ny-1")]
    if bad:
        ctx.violated("C10-R5", C.line(bad[0]), NL, "Voxels::getNeighbors", "triclinic cells: the y voxels visited for a z voxel do not hinge on one periodic copy of it",
                     "starty / endy are shifted by yoffset = floor(z/nz)*c_y also when the cell is triclinic: a z voxel half a box away holds atoms that are nearest through the other copy "
                     "(y differs by c_y), so pairs are lost once the cutoff comes within a voxel of c_z/2 - e.g. 4.77/4.94/4.50 nm, 124.8/60.2/76.9 deg, 300 atoms: 4 of 3550 pairs missing at 1.0 nm, 317 of 5360 at 1.15 nm")
    else:
        ctx.decide(len(full) == 2, "C10-R5", C.line(shifted[0]), NL, "Voxels::getNeighbors", "triclinic cells: the whole y row is visited (the corner test prunes); the single-offset range is used for rectangular cells only", "",
                   "under `triclinic` the y range is not 0 .. ny-1 (%d matching assignments)" % len(full))


def _candidate_wrap_by_value(ctx, cf, fn):
    """The displacement of a candidate from the centre atom, between its definition and the squared distance that decides the pair, by value
    numbering (a helper the wrap may have been moved into is evaluated in place): for a triclinic cell the displacement d is reduced by
    d -= c floor(d_z / c_z + 1/2), then b, then a (the reduced box vectors, reciprocal diagonal); for a rectangular cell by
    d -= round(d / L) L; and it is left alone when no image can be closer.  Whatever the statements look like."""
    from ..symval import SymExec, State, Ptr, Vec, Unsupported, elementary_facts
    q = "Voxels::getNeighbors"
    parent = {}
    for n in C.walk(fn):
        for k in C.kids(n):
            if "id" in k:
                parent[k["id"]] = n
    # D = dot3(X, X): the squared distance; X: the displacement
    cand = []
    for v in C.walk(fn):
        if v["kind"] == "VarDecl" and C.kids(v):
            init = C.strip(C.kids(v)[-1])
            if init.get("kind") == "CallExpr" and C.callee_name(init) == "dot3":
                a_ = [C.ref_id(x) for x in C.call_args(init)]
                if len(a_) == 2 and a_[0] is not None and a_[0] == a_[1]:
                    cand.append((v, a_[0]))
    if len(cand) != 1:
        ctx.undecided("C10-R2", C.line(fn), NL, q, "wrap of the candidate displacement", "%d squared-distance declarations `dot3(d, d)` found" % len(cand))
        return
    dvar, xid = cand[0]
    xdecl = next((v for v in C.walk(fn) if v["kind"] == "VarDecl" and v.get("id") == xid), None)
    blk = dvar
    while blk is not None and blk.get("kind") != "CompoundStmt":
        blk = parent.get(blk["id"])
    if xdecl is None or blk is None:
        ctx.undecided("C10-R2", C.line(fn), NL, q, "wrap of the candidate displacement", "declaration of the displacement not found")
        return
    stmts = C.kids(blk)
    i0 = next((i for i, s_ in enumerate(stmts) if any(x is xdecl for x in C.walk(s_))), None)
    i1 = next((i for i, s_ in enumerate(stmts) if any(x is dvar for x in C.walk(s_))), None)
    if i0 is None or i1 is None or i0 > i1:
        ctx.undecided("C10-R2", C.line(fn), NL, q, "wrap of the candidate displacement", "the displacement and the squared distance are not declared in one block")
        return
    seg = stmts[i0:i1 + 1]
    xname = xdecl.get("name")
    vec_arrays = [v.get("name") for v in C.walk(fn) if v["kind"] == "VarDecl" and "fvec4[3]" in C.qtype(v).replace(" ", "")]
    var = lambda n_: Rat(Poly.var(n_))     # noqa: E731
    results = {}
    flag_syms = {}
    for tric in (1, 0):
        def model(name, args, n, st_, ex_):
            if name == "abs" and len(args) == 1 and isinstance(args[0], Vec):
                return Vec(ex_.opaque_call("fabs", [x]) for x in args[0])
            return None
        ex = SymExec(cf, NL, call_model=model, max_unroll=8)
        st = State()
        st.env["this.triclinic"] = Rat(Poly.const(tric))
        for m_ in ("recipBoxSize", "periodicBoxSize"):
            st.env["this." + m_] = Ptr("this." + m_, 0)
        for arr in vec_arrays:
            st.env[arr] = Ptr(arr, 0)
            for k in range(3):
                st.env[(arr, k)] = Vec([var("B%d%d" % (k, c)) for c in range(3)] + [Rat(Poly.const(0))])
        # the two fvec4 built from the (reciprocal) box diagonal, if the block uses them: decided by how the function defines them
        for v in C.walk(fn):
            if v["kind"] == "VarDecl" and "fvec4" in C.qtype(v) and C.kids(v) and v is not xdecl and v.get("name") not in vec_arrays:
                txt = _n(C.text(C.kids(v)[-1]))
                if "recipBoxSize[0]" in txt and "recipBoxSize[1]" in txt:
                    st.env[v.get("name")] = Vec([var("this.recipBoxSize[%d]" % c) for c in range(3)] + [Rat(Poly.const(0))])
                elif "periodicBoxSize[0]" in txt and "periodicBoxSize[1]" in txt:
                    st.env[v.get("name")] = Vec([var("this.periodicBoxSize[%d]" % c) for c in range(3)] + [Rat(Poly.const(0))])
        # boolean locals the block reads but does not declare: their own initialisers, evaluated first (innermost dependencies first)
        inside = {v.get("id") for s_ in seg for v in C.walk(s_) if v["kind"] == "VarDecl"}
        decls = {v.get("id"): v for v in C.walk(fn) if v["kind"] == "VarDecl"}

        def prime(node, depth=0):
            for r_ in C.walk(node):
                if r_["kind"] == "DeclRefExpr":
                    rid = r_["referencedDecl"].get("id")
                    v = decls.get(rid)
                    if v is None or rid in inside or v.get("name") in st.env or depth > 3:
                        continue
                    if C.qtype(v).replace("const ", "").strip() in ("bool", "int") and C.kids(v):
                        prime(C.kids(v)[-1], depth + 1)
                        try:
                            st.env[v.get("name")] = ex.expr(C.kids(v)[-1], st)
                        except Unsupported:
                            if C.qtype(v).replace("const ", "").strip() == "bool":
                                # an unknown truth value: a symbol the evaluator treats as a condition (so that `b && true` is `b`)
                                b_ = Rat(Poly.var(v.get("name")))
                                ex.atoms[v.get("name")] = ("cmp", "!=", b_, Rat(Poly.const(0)))
                                st.env[v.get("name")] = b_
        for s_ in seg:
            prime(s_)
        try:
            outs = ex.run(seg, st)
        except Unsupported as e:
            ctx.undecided("C10-R2", C.line(xdecl), NL, q, "wrap of the candidate displacement", "not evaluable: %s" % e)
            return
        res = []
        for o in outs:
            d = o.env.get(xname)
            if not isinstance(d, Vec):
                continue
            facts = []
            for (cv, pol), (txt, _p) in zip(o.cexprs, o.cvals):
                facts += elementary_facts(ex, cv if cv is not None else txt, pol)
            res.append((d, facts, ex))
        results[tric] = res
    # the displacement as first defined: evaluate the declaration alone
    ex0 = SymExec(cf, NL)
    s0 = State()
    try:
        ex0.run([stmts[i0]], s0)
    except Unsupported as e:
        ctx.undecided("C10-R2", C.line(xdecl), NL, q, "wrap of the candidate displacement", "not evaluable: %s" % e)
        return
    d0 = s0.env.get(xname)
    if not isinstance(d0, Vec):
        ctx.undecided("C10-R2", C.line(xdecl), NL, q, "wrap of the candidate displacement", "the displacement is not a vector value")
        return

    def same(u, v, ex_=None):
        # equal, or equal after the component-wise |.| some versions apply before squaring
        if all(a_ == b_ for a_, b_ in zip(list(u)[:3], list(v)[:3])):
            return True
        return ex_ is not None and all(a_ == ex_.opaque_call("fabs", [b_]) for a_, b_ in zip(list(u)[:3], list(v)[:3]))
    for tric, what in ((1, "triclinic cell: d -= c floor(d_z/c_z + 1/2), then b, then a"), (0, "rectangular cell: d -= round(d / L) L")):
        res = results[tric]
        ex = res[0][2] if res else None
        if ex is None:
            ctx.undecided("C10-R2", C.line(xdecl), NL, q, what, "no path leaves a displacement")
            continue
        d = list(d0)[:3]
        if tric:
            for k in (2, 1, 0):
                f = ex.opaque_call("floor", [d[k] * var("this.recipBoxSize[%d]" % k) + Rat(Poly.const(1)) / 2])
                d = [d[c] - var("B%d%d" % (k, c)) * f for c in range(3)]
        else:
            d = [d[c] - ex.opaque_call("round", [d[c] * var("this.recipBoxSize[%d]" % c)]) * var("this.periodicBoxSize[%d]" % c) for c in range(3)]
        wrapped = [r_ for r_ in res if same(r_[0], d, ex)]
        plain = [r_ for r_ in res if same(r_[0], list(d0)[:3], ex)]
        other = [r_ for r_ in res if r_ not in wrapped and r_ not in plain]
        ok = bool(wrapped) and bool(plain) and not other
        why = ""
        if other:
            why = "a path leaves the displacement as %s" % repr(list(other[0][0])[0])[:200]
        elif not wrapped:
            why = "no path applies the reduction to the displacement"
        elif not plain:
            why = "every path wraps (the test that no image can be closer has gone)"
        ctx.decide(ok, "C10-R2", C.line(xdecl), NL, q, "wrap of the candidate displacement, " + what, "%d wrapped / %d plain paths" % (len(wrapped), len(plain)), why)
