"""C11  Re-imaging moves atoms only by lattice vectors and makes molecules whole (structural part).

R1 copy when not in place: the array handed to the mutating kernel is result.xyz with result = self only under inplace, else self[:]
R2 lattice form of every position update in make_whole / wrap_mols / image_frame
R3 the kernels never write the cell (and the Python side hands them a derived array)
R4 both callers sort the bonds by the first atom's index before the single-pass make_whole
"""
from __future__ import annotations

import ast
import re

from ..core import AnalysisError
from ..cfg import CFG
from ..flow import Defs
from ..pyfront import dotted, call_name, kwarg, params, src, walk_no_nested, const
from .. import effects

EXPLANATION = (
    'make_molecules_whole / image_molecules are evaluated on a model trajectory (copy unless inplace; default bond list sorted by first atom); Topology.find_molecules is evaluated on four model bond graphs and must return the connected components.  Further: '
    "The re-imaging kernels in image_molecules.pxi are read through the Cython desugarer: every product that involves a cell "
    "vector component and ends up in a position update is required to be  cell[r, k] * I(x[r] / cell[r, r])  with r constant, "
    "k the component index and I an integer-valued rounding; rows are processed c, b, a; position stores are `old -/+ accumulator`; "
    "an effect analysis shows that only the position array is written; the Python callers are checked for copy-unless-inplace and "
    "for the sorted-bonds precondition.")
NOT_DECIDED = ["that every bonded pair ends at its minimum-image separation (depends on bond graph order and cell, numerical)",
               "anchor heuristics (guess_anchor_molecules)"]
ASSUMPTIONS = ["Trajectory.__getitem__ (self[:]) returns a deep copy (decided by C03-R1)", "roundf / floorf / np.round / np.floor return integer-valued floats"]
FLOORS = {"C11-R1": 6, "C11-R2": 18, "C11-R3": 3, "C11-R4": 8, "C11-R5": 3}

PXI = "mdtraj/geometry/src/image_molecules.pxi"
TRAJ = "mdtraj/core/trajectory.py"
ROUND = ("roundf", "floorf", "np.round", "np.floor", "lround", "rint", "np.rint", "round", "floor")
CELLS = ("frame_unitcell_vectors",)


def check(ctx):
    ctx.rule("C11-R1", "with inplace=False the kernel receives (self[:]).xyz and the method returns that copy; with inplace=True it receives self.xyz")
    ctx.rule("C11-R2", "every term added to / subtracted from a position is cell[r, k] * I(v[r] / cell[r, r]) (r constant, k the component, I a rounding), rows processed 2,1,0; "
                       "position stores have the form old -/+ accumulator (plus one per-frame common offset in wrap_mols)")
    ctx.rule("C11-R3", "no kernel writes through the cell argument; the callers pass np.asarray(result.unitcell_vectors) (a derived array)")
    ctx.rule("C11-R4", "sorted_bonds defaults to the bonds sorted by the first atom's index")
    ctx.rule("C11-R5", "molecules are the connected components of the undirected bond graph")
    from .c05 import flag_identity
    flag_identity(ctx, "C11-R1", [TRAJ], name_filter=lambda q: q in ("Trajectory.image_molecules", "Trajectory.make_molecules_whole"), floor=2)
    r5_molecules(ctx)

    # ---------------- R1, R3(py), R4: by evaluation on a model trajectory --------------------------------
    r1_by_evaluation(ctx)
    r4_no_topology_memo_on_trajectory(ctx)
    # (the cell handed to the kernels: by value in r1_by_evaluation)

    # ---------------- R2 --------------------------------------------------------------------------------
    mod = ctx.py.mod(PXI)
    for fname in ("make_whole", "wrap_mols", "image_frame"):
        fn = ctx.py.func(PXI, fname)
        q = fname
        n_terms = 0
        rows_seen = []
        for n in walk_no_nested(fn):
            if isinstance(n, ast.BinOp) and isinstance(n.op, ast.Mult):
                sides = [(n.left, n.right), (n.right, n.left)]
                for a, b in sides:
                    if isinstance(a, ast.Subscript) and dotted(a.value) in CELLS:
                        idx = a.slice
                        if isinstance(idx, ast.Tuple) and len(idx.elts) == 2:
                            r, c = idx.elts
                        else:
                            r, c = idx, None      # whole row vector (numpy form)
                        if isinstance(b, ast.Constant):
                            continue   # 0.5 * cell[k,k]: the centring offset (checked below)
                        n_terms += 1
                        desc = "`%s`" % src(n)[:70]
                        rr = const(r)
                        isround = isinstance(b, ast.Call) and call_name(b) in ROUND
                        if not isinstance(rr, int):
                            ctx.violated("C11-R2", n, PXI, q, desc, "cell row index `%s` is not a constant: the shift is not an integer multiple of one cell vector" % src(r))
                            continue
                        if not isround:
                            ctx.violated("C11-R2", n, PXI, q, desc, "cell vector %d is multiplied by `%s`, which is not an integer-valued rounding: atoms move by a non-lattice vector" % (rr, src(b)[:40]))
                            continue
                        comp_ok = c is None or (isinstance(c, ast.Name))
                        # argument of the rounding: v[r] / cell[r, r]
                        arg = b.args[0] if b.args else None
                        # floor(x + 0.5) is round(x)
                        if isinstance(arg, ast.BinOp) and isinstance(arg.op, ast.Add) and const(arg.right) == 0.5 and "floor" in (call_name(b) or ""):
                            arg = arg.left
                        div_ok = False
                        if isinstance(arg, ast.BinOp) and isinstance(arg.op, ast.Div):
                            den = arg.right
                            num = arg.left
                            den_ok = isinstance(den, ast.Subscript) and dotted(den.value) in CELLS and re.sub(r"\s", "", src(den.slice)) in ("%d,%d" % (rr, rr), "(%d,%d)" % (rr, rr))
                            idxs = [const(s.slice) for s in ast.walk(num) if isinstance(s, ast.Subscript) and isinstance(const(s.slice), int)]
                            num_ok = bool(idxs) and all(i == rr for i in idxs)
                            div_ok = den_ok and num_ok
                        ok = comp_ok and div_ok
                        rows_seen.append((n.lineno, n.col_offset, rr))
                        ctx.decide(ok, "C11-R2", n, PXI, q, desc, "cell[%d, k] * I(v[%d] / cell[%d, %d])" % (rr, rr, rr, rr),
                                   "lattice term is malformed: component index `%s`, rounding argument `%s` (expected v[%d] / cell[%d, %d] with the vector "
                                   "component along the second index)" % (src(c) if c is not None else "-", src(arg)[:50] if arg is not None else "-", rr, rr, rr))
        # transposed use: cell[k, const] with variable first index outside a rounding argument
        for n in walk_no_nested(fn):
            if isinstance(n, ast.Subscript) and dotted(n.value) in CELLS and isinstance(n.slice, ast.Tuple) and len(n.slice.elts) == 2:
                r, c = n.slice.elts
                if isinstance(r, ast.Name) and isinstance(const(c), int):
                    ctx.violated("C11-R2", n, PXI, q, "`%s`" % src(n), "cell indexed [component, row]: rows and columns are transposed")
        if n_terms == 0:
            ctx.undecided("C11-R2", fn, PXI, q, "lattice terms", "no cell-vector product found")
            continue
        # rows processed c, b, a (each group in order 2,1,0)
        rows_sorted = [r for _, _, r in sorted(rows_seen)]
        seq = [r for i, r in enumerate(rows_sorted) if i == 0 or rows_sorted[i - 1] != r]
        ok = all(seq[i:i + 3] == [2, 1, 0] for i in range(0, len(seq), 3)) and len(seq) % 3 == 0
        ctx.decide(ok, "C11-R2", fn, PXI, q, "rows processed in the order c, b, a", str(seq), "cell rows are processed in the order %s (the wrap must go c, b, a for a reduced triclinic cell)" % seq)
        # position stores
        for n in walk_no_nested(fn):
            tgt = None
            if isinstance(n, ast.Assign) and isinstance(n.targets[0], ast.Subscript) and dotted(n.targets[0].value) == "frame_positions":
                tgt, val, op = n.targets[0], n.value, None
            elif isinstance(n, ast.AugAssign) and isinstance(n.target, ast.Subscript) and dotted(n.target.value) == "frame_positions":
                tgt, val, op = n.target, n.value, n.op
            if tgt is None:
                continue
            desc = "store `%s`" % src(n)[:70]
            if op is None:
                # P[a,k] = P[a,k] - acc[k]
                ok = isinstance(val, ast.BinOp) and isinstance(val.op, (ast.Sub, ast.Add)) and src(val.left) == src(tgt) and \
                    all(dotted(s.value) in ("offset", "mol_offset", "mol_center") for s in ast.walk(val.right) if isinstance(s, ast.Subscript)) and \
                    not any(isinstance(x, ast.Call) for x in ast.walk(val.right))
            else:
                names = {dotted(s.value) for s in ast.walk(val) if isinstance(s, ast.Subscript)} | {x.id for x in ast.walk(val) if isinstance(x, ast.Name)}
                names -= {"k", "j", "i"}
                ok = isinstance(op, (ast.Add, ast.Sub)) and names <= {"offset", "mol_offset", "mol_center"} and not any(isinstance(x, ast.Call) for x in ast.walk(val))
                if ok and names == {"mol_offset", "mol_center"}:
                    ok = re.sub(r"\s", "", src(val)) == "mol_offset[k]-mol_center[k]"
            ctx.decide(ok, "C11-R2", n, PXI, q, desc, "old -/+ accumulator", "position update is not `old +/- accumulated lattice shift`: `%s`" % src(n)[:80])
    # wrap_mols: the common offset does not depend on the atom and is 0.5*cell[k,k] - center[k]
    fn = ctx.py.func(PXI, "wrap_mols")
    off = [n for n in walk_no_nested(fn) if isinstance(n, ast.Assign) and isinstance(n.targets[0], ast.Subscript) and dotted(n.targets[0].value) == "offset"]
    ok = bool(off) and re.sub(r"\s", "", src(off[0].value)) == "0.5*frame_unitcell_vectors[k,k]-center[k]"
    ctx.decide(ok, "C11-R2", off[0] if off else fn, PXI, "wrap_mols", "one common per-frame translation", "0.5*cell[k,k] - center[k]", "the per-frame offset is `%s`" % (src(off[0].value) if off else None))
    # mol_offset accumulates from mol_center
    mo = [n for n in walk_no_nested(fn) if isinstance(n, ast.Assign) and isinstance(n.targets[0], ast.Subscript) and dotted(n.targets[0].value) == "mol_offset"
          and "frame_unitcell_vectors" in src(n.value)]
    ok = bool(mo) and re.sub(r"\s", "", src(mo[0].value)).startswith("mol_center[k]-frame_unitcell_vectors[2,k]*floorf(")
    ctx.decide(ok, "C11-R2", mo[0] if mo else fn, PXI, "wrap_mols", "mol_offset = mol_center - lattice terms", "", "mol_offset is not built as mol_center minus lattice terms")

    # ---------------- R3 effect analysis ------------------------------------------------------------------
    eff = effects.get_effects(ctx)
    for fname in ("make_whole", "wrap_mols", "image_frame", "image_molecules", "whole_molecules"):
        fi = eff.funcs.get((PXI, fname))
        if fi is None:
            raise AnalysisError("anchor function vanished: %s:%s" % (PXI, fname))
        cellp = [i for i, p in enumerate(fi.params) if p in ("frame_unitcell_vectors", "box")]
        written = [fi.params[i] for i in sorted(fi.mut | fi.maybe)]
        ok = bool(cellp) and not any(i in fi.mut or i in fi.maybe for i in cellp)
        ctx.decide(ok, "C11-R3", fi.fn, PXI, fname, "cell parameter is never written", "written parameters: %s" % written,
                   "the kernel writes through its cell parameter (written: %s): unit cells are modified by re-imaging" % written)


def r5_molecules(ctx):
    """image_molecules treats the sets returned by Topology.find_molecules as rigid units: the search must be over the undirected bond graph."""
    from ..tensym import TenSym, Obj, Raised
    from ..pysym import Unsupported as PUnsupported
    TOPF = "mdtraj/core/topology.py"
    fn = ctx.py.func(TOPF, "Topology.find_molecules")
    # find_molecules evaluated (sa/tensym.py) on model topologies whose bonds are listed in awkward orders: the sets returned must be the
    # connected components of the undirected bond graph, every atom in exactly one of them.
    worlds = [("chain listed backwards, branch to a lower index, a lone atom", 7, [(0, 1), (2, 1), (4, 3), (6, 3)]),
              ("a ring and a long chain entered from its middle", 8, [(3, 4), (4, 5), (5, 3), (1, 0), (2, 1), (7, 2), (6, 7)]),
              ("a star whose centre has the highest index", 5, [(4, 0), (4, 1), (4, 2), (4, 3)]),
              ("two atoms bonded once, the higher index first", 2, [(1, 0)])]
    for what, n_atoms, bond_ids in worlds:
        atoms = [Obj(tag="a%d" % i, index=i) for i in range(n_atoms)]
        bonds = [(atoms[i], atoms[j]) for i, j in bond_ids]
        top = Obj(_bonds=list(bonds), bonds=list(bonds), atoms=list(atoms), _atoms=list(atoms), n_atoms=n_atoms, _numAtoms=n_atoms, _residues=[Obj(n_atoms=n_atoms, _atoms=list(atoms))], n_bonds=len(bonds))
        comp = list(range(n_atoms))
        for i, j in bond_ids:       # union of the two components
            ci, cj = comp[i], comp[j]
            comp = [ci if c == cj else c for c in comp]
        want = sorted(sorted(k for k in range(n_atoms) if comp[k] == c) for c in set(comp))
        desc = "find_molecules on a model topology (%s): the connected components of the bond graph" % what
        try:
            r = TenSym().run_fn(fn, self=top)
        except PUnsupported as e:
            ctx.undecided("C11-R5", fn, TOPF, "Topology.find_molecules", desc, "not evaluable: %s" % e)
            continue
        got = None
        if isinstance(r, list) and all(isinstance(m, list) and all(isinstance(a_, Obj) and hasattr(a_, "index") for a_ in m) for m in r):
            got = sorted(sorted(a_.index for a_ in m) for m in r)
        ctx.decide(got == want, "C11-R5", fn, TOPF, "Topology.find_molecules", desc, "%d molecules" % len(want),
                   "returned %s, the components are %s: image_molecules / make_molecules_whole move the pieces of one molecule by different lattice vectors (or two molecules as one)" % (got, want))
    try:
        atoms = [Obj(tag="a%d" % i, index=i) for i in range(3)]
        top = Obj(_bonds=[], bonds=[], atoms=list(atoms), _atoms=list(atoms), n_atoms=3, _numAtoms=3, _residues=[Obj(n_atoms=3, _atoms=list(atoms))], n_bonds=0)
        TenSym().run_fn(fn, self=top)
        ctx.violated("C11-R5", fn, TOPF, "Topology.find_molecules", "a topology without bonds but with multi-atom residues is refused", "every atom is silently reported as a molecule of its own")
    except Raised as e:
        ctx.holds("C11-R5", fn, TOPF, "Topology.find_molecules", "a topology without bonds but with multi-atom residues is refused", "raises %s" % e.exc[:40])
    except PUnsupported as e:
        ctx.undecided("C11-R5", fn, TOPF, "Topology.find_molecules", "a topology without bonds is refused", "not evaluable: %s" % e)
    # the callers use find_molecules() for the units they move
    im = ctx.py.func(TRAJ, "Trajectory.image_molecules")
    ok = "self._topology.find_molecules()" in src(im) or "self.topology.find_molecules()" in src(im)
    ctx.decide(ok, "C11-R5", im, TRAJ, "Trajectory.image_molecules", "rigid units come from find_molecules()", "", "image_molecules no longer takes its units from Topology.find_molecules")


# ---------------------------------------------------------------------------------------------------
def r1_by_evaluation(ctx):
    """make_molecules_whole / image_molecules evaluated (sa/tensym.py) on a model trajectory whose topology lists its bonds out of order:
    the mutating kernel receives the coordinates of `result` - self when inplace, a deep copy (self[:]) otherwise - and that object is what is
    returned; the cell handed over is result's; the default bond list is the topology's bonds as index pairs sorted by the first atom."""
    from ..tensym import TenSym, Ten, Obj, Unsupported as TUnsupported, ShapeError
    from ..poly import Poly, Rat
    mod = ctx.py.mod(TRAJ)
    methods = {q.split(".", 1)[1]: f for q, f in mod.functions.items() if q.startswith("Trajectory.") and q.count(".") == 1}
    ucfuncs = {q_: f_ for q_, f_ in ctx.py.mod("mdtraj/utils/unitcell.py").functions.items() if "." not in q_}     # helpers a refactoring may call: evaluated from their source
    for q, kernel in (("Trajectory.make_molecules_whole", "_geometry.whole_molecules"), ("Trajectory.image_molecules", "_geometry.image_molecules")):
        fn = ctx.py.func(TRAJ, q)
        for inplace in (False, True):
            what = "%s(inplace=%s): kernel works on %s, which is returned; bonds sorted by first atom" % (q.split(".")[1], inplace, "self" if inplace else "a deep copy of self")
            atoms = [Obj(index=i) for i in range(5)]
            bonds = [(atoms[3], atoms[4]), (atoms[0], atoms[2]), (atoms[2], atoms[1]), (atoms[1], atoms[0])]
            mols = [[atoms[0], atoms[1], atoms[2]], [atoms[3], atoms[4]]]
            top = Obj(bonds=bonds, atoms=atoms)
            top.guess_anchor_molecules = lambda: [mols[0]]
            top.find_molecules = lambda: list(mols)
            xyz = Ten.sym("x", (2, 5, 3))

            def ctor(xyz_, topology, time=None, unitcell_lengths=None, unitcell_angles=None, **kw):
                o = Obj(_xyz=xyz_, _topology=topology, _time=time, _unitcell_lengths=unitcell_lengths, _unitcell_angles=unitcell_angles, _rmsd_traces=None, _methods=methods, _tag="new", _lenient=True)
                o._getters = getters
                o._props = vprop
                o._ctor = ctor
                return o
            getters = {"n_frames": lambda s_: s_._xyz.shape[0], "n_atoms": lambda s_: s_._xyz.shape[1],
                       "xyz": lambda s_: s_._xyz, "time": lambda s_: s_._time, "topology": lambda s_: s_._topology, "top": lambda s_: s_._topology,
                       "unitcell_lengths": lambda s_: s_._unitcell_lengths, "unitcell_angles": lambda s_: s_._unitcell_angles,
                       }
            vprop = {"unitcell_vectors": ctx.py.func(TRAJ, "Trajectory.unitcell_vectors.getter")}      # the real property, evaluated from its source
            # a cell whose edge lengths stay the same while its angles change from frame to frame (its vectors, box[f], differ per frame)
            ev0 = TenSym({})
            me = ctor(xyz, top, Ten.sym("t", (2,)), ev0.to_ten([[3, 4, 5], [3, 4, 5]]), ev0.to_ten([[90, 90, 90], [80, 70, 60]]))
            me._tag = "self"
            log = {}

            def kern(ev, call):
                log["args"] = [ev.ex(a) for a in call.args]
                return None
            ev = TenSym({}, funcs=ucfuncs, models={kernel: kern, "deepcopy": lambda e_, c_: Obj(tag="copy"), "copy.deepcopy": lambda e_, c_: Obj(tag="copy")})
            try:
                vec = TenSym({}, funcs=ucfuncs).run_fn(vprop["unitcell_vectors"], self=me)     # what the trajectory reports as its cell vectors, per frame
                got = ev.run_fn(fn, self=me, inplace=inplace)
                pr = []
                args = log.get("args")
                if not args:
                    pr.append("%s is not called" % kernel)
                else:
                    arr = args[0]
                    if inplace:
                        if got is not me:
                            pr.append("inplace=True does not return self")
                        if arr is not me._xyz:
                            pr.append("inplace=True: the kernel does not work on self's own coordinate array")
                    else:
                        if not isinstance(got, Obj) or got is me:
                            pr.append("inplace=False returns self")
                        elif arr is not got._xyz:
                            pr.append("the array the kernel moves in place is not the coordinate array of the trajectory that is returned")
                        if isinstance(arr, Ten) and (arr is me._xyz or arr.view):
                            pr.append("inplace=False: the kernel works on %s: the original trajectory is modified" % ("self's own coordinate array" if arr is me._xyz else "a view of self's coordinates (a slice that did not copy)"))
                        if isinstance(arr, Ten) and ev.first_difference(arr, xyz) is not None:
                            pr.append("the copy handed to the kernel does not hold all frames and atoms of self")
                    if not (isinstance(args[1], Ten) and ev.first_difference(args[1], vec) is None):
                        pr.append("the cell handed to the kernel is not the trajectory's unitcell_vectors")
                    sb = args[-1]
                    want = [(0, 2), (1, 0), (2, 1), (3, 4)]
                    gotb = [(ev.pyval(sb.at([k, 0])), ev.pyval(sb.at([k, 1]))) for k in range(sb.shape[0])] if isinstance(sb, Ten) and sb.ndim == 2 else None
                    ctx.decide(gotb == want, "C11-R4", fn, TRAJ, q, "%s(inplace=%s): default bond list = the topology's bonds as index pairs sorted by the first atom" % (q.split(".")[1], inplace), "",
                               "the default bond list is %s; sorted by the index of the first atom it is %s (make_whole walks the bonds in one pass and can leave molecules broken otherwise)" % (gotb, want))
                ctx.decide(not pr, "C11-R1", fn, TRAJ, q, what, "", "; ".join(pr))
                # a bond order given by the caller (a walk that starts from the last atom of each molecule) reaches the kernel as given
                given = [[4, 3], [2, 1], [1, 0], [0, 2]]
                log.clear()
                me2 = ctor(Ten.sym("x", (2, 5, 3)), top, Ten.sym("t", (2,)), ev0.to_ten([[3, 4, 5], [3, 4, 5]]), ev0.to_ten([[90, 90, 90], [80, 70, 60]]))
                ev2 = TenSym({}, funcs=ucfuncs, models={kernel: kern, "deepcopy": lambda e_, c_: Obj(tag="copy"), "copy.deepcopy": lambda e_, c_: Obj(tag="copy")})
                ev2.run_fn(fn, self=me2, inplace=inplace, sorted_bonds=ev2.to_ten(given))
                sb = (log.get("args") or [None])[-1]
                gotb = [[ev2.pyval(sb.at([k, 0])), ev2.pyval(sb.at([k, 1]))] for k in range(sb.shape[0])] if isinstance(sb, Ten) and sb.ndim == 2 else sb
                ctx.decide(gotb == given, "C11-R4", fn, TRAJ, q, "%s(inplace=%s, sorted_bonds=given): the caller's bond order reaches the kernel unchanged" % (q.split(".")[1], inplace), "",
                           "the caller hands over the bonds %s (a valid walk order), the kernel receives %s" % (given, gotb))
            except ShapeError as e:
                ctx.violated("C11-R1", fn, TRAJ, q, what, "array operations do not fit: %s" % e)
                ctx.undecided("C11-R4", fn, TRAJ, q, "default bond list", "not reached")
            except TUnsupported as e:
                ctx.undecided("C11-R1", fn, TRAJ, q, what, "not evaluable: %s" % e)
                ctx.undecided("C11-R4", fn, TRAJ, q, "default bond list", "not evaluable: %s" % e)


def r4_no_topology_memo_on_trajectory(ctx):
    """The topology is a separate object that can be edited in place (add_bond, delete_atom_by_index ...), so nothing a Trajectory computes from
    it may be parked on the Trajectory: a field filled from self._topology / self.topology is stale after the next edit of the topology and no
    setter of the Trajectory can know.  Expected count zero; a built-in positive example is run on every check."""
    ctl = ast.parse("class T:\n    def m(self):\n        if self._memo is None:\n            self._memo = sorted(self._topology.bonds)\n        return self._memo\n").body[0].body[0]

    def memo_stores(fn):
        out = []
        for n in walk_no_nested(fn):
            if isinstance(n, ast.Assign):
                for t in n.targets:
                    if isinstance(t, ast.Attribute) and isinstance(t.value, ast.Name) and t.value.id == "self" and t.attr not in ("_topology", "topology", "top"):
                        roots = set()
                        for x in ast.walk(n.value):
                            d = dotted(x) if isinstance(x, ast.Attribute) else None
                            if d and d.startswith(("self._topology", "self.topology", "self.top")):
                                roots.add(d)
                        # one level through locals
                        for x in ast.walk(n.value):
                            if isinstance(x, ast.Name):
                                for a in walk_no_nested(fn):
                                    if isinstance(a, ast.Assign) and any(isinstance(tt, ast.Name) and tt.id == x.id for tt in a.targets):
                                        for y in ast.walk(a.value):
                                            d = dotted(y) if isinstance(y, ast.Attribute) else None
                                            if d and d.startswith(("self._topology", "self.topology", "self.top")):
                                                roots.add(d)
                        if roots:
                            out.append((n, t.attr, sorted(roots)))
        return out
    if len(memo_stores(ctl)) != 1:
        raise AnalysisError("r4_no_topology_memo_on_trajectory: the built-in positive example is no longer recognised")
    mod = ctx.py.mod(TRAJ)
    bad = []
    n_fn = 0
    for q, fn in sorted(mod.functions.items()):
        if not q.startswith("Trajectory.") or q.endswith((".setter", ".__init__")):
            continue
        n_fn += 1
        for node, attr, roots in memo_stores(fn):
            bad.append((q, node, attr, roots))
    ctx.decide(not bad, "C11-R4", bad[0][1] if bad else mod.tree, TRAJ, bad[0][0] if bad else "Trajectory", "no Trajectory method stores topology-derived data on the trajectory (%d methods)" % n_fn, "",
               "`self.%s` is filled from %s and kept: the topology can be edited in place afterwards (add_bond, delete_atom_by_index), and the kept value - e.g. the bond list handed to make_whole - is then the old one"
               % (bad[0][2] if bad else "", bad[0][3] if bad else ""))
