"""C12  Every selection expression selects exactly the atoms its meaning denotes.

The language is defined by constant tables and a precedence list in core/selection.py: all of it is decided.

R1 keyword table vs documentation (docs/atom_selection.rst) and vs the attribute each keyword denotes
R2 operator table: every spelling maps to the AST node of its meaning; =~ is re.match(pattern, string) is not None
R3 precedence is a function of the operator, not of its spelling; not > comparisons > and > or
R4 range / implicit-list shapes
R5 select and select_expression evaluate the same parse, in topology.atoms order
R6 malformed input is rejected (parseAll=True, handler re-raises, semantic checks raise)
R7 no shadowing between operator spellings, keyword aliases and literals
"""
from __future__ import annotations

import ast
import os
import re

from ..core import AnalysisError
from ..cfg import CFG
from ..pyfront import dotted, call_name, kwarg, params, src, walk_no_nested, const

EXPLANATION = (
    'The AST nodes built by RangeCondition / InListCondition / RegexInfixOperand / BinaryInfixOperand are obtained by evaluating __init__ and ast() on model tokens (sa/tensym.py) and compared field by field with the meaning of the construct; the pyparsing terminals are required to be case-sensitive.  Further: '
    "Table extraction with constant folding from mdtraj/core/selection.py: the _kw(...) alias tables are expanded, "
    "compared with the keyword table parsed from docs/atom_selection.rst and with the documented meaning of each keyword "
    "(attribute chain on Atom/Residue/Chain/Element); the operator table is compared with the AST node each spelling must "
    "denote; the precedence levels handed to pyparsing's infixNotation are reconstructed from the infix() helper and the "
    "order of the alias table; the AST shapes built by RangeCondition / InListCondition / RegexInfixOperand are matched; "
    "the rejection path of parse_selection.__call__ is a CFG dominance check.")
NOT_DECIDED = ["pyparsing's own matching behaviour (packrat cache, Keyword boundaries)", "evaluation of the compiled lambda on a topology (run-time)"]
ASSUMPTIONS = ["pyparsing.infixNotation gives earlier levels higher precedence and treats a MatchFirst of literals as one operator level"]
FLOORS = {"C12-R1": 30, "C12-R2": 19, "C12-R3": 10, "C12-R4": 4, "C12-R5": 4, "C12-R6": 7, "C12-R7": 3, "C12-R8": 6}

SEL = "mdtraj/core/selection.py"
TOP = "mdtraj/core/topology.py"
DOC = "docs/atom_selection.rst"

# documented meaning of each keyword (docs/atom_selection.rst, "Description" column): attribute chain from `atom`
MEANING = {
    "all": ("const", True), "none": ("const", False),
    "backbone": ("is_backbone",), "sidechain": ("is_sidechain",),
    "protein": ("residue", "is_protein"), "water": ("residue", "is_water"),
    "name": ("name",), "index": ("index",), "n_bonds": ("n_bonds",),
    "type": ("element", "symbol"), "mass": ("element", "mass"),
    "residue": ("residue", "resSeq"), "resid": ("residue", "index"), "resname": ("residue", "name"),
    "rescode": ("residue", "code"), "chainid": ("residue", "chain", "index"),
}
OPERATORS = {
    "and": "And", "&&": "And", "or": "Or", "||": "Or", "not ": "Not", "!": "Not",
    "<": "Lt", "lt": "Lt", "<=": "LtE", "le": "LtE", "==": "Eq", "eq": "Eq", "!=": "NotEq", "ne": "NotEq",
    ">=": "GtE", "ge": "GtE", ">": "Gt", "gt": "Gt",
}
COMPARISONS = {"Lt", "LtE", "Eq", "NotEq", "GtE", "Gt"}


def _expand_kw(call):
    """_kw((keys, value), ...) -> ordered list of (key, value-descriptor, value node)"""
    out = []
    if isinstance(call, ast.Dict):
        for k, v in zip(call.keys, call.values):
            out.append((const(k), _val(v), v))
        return out
    if not (isinstance(call, ast.Call) and call_name(call) == "_kw"):
        return None
    for a in call.args:
        if not (isinstance(a, ast.Tuple) and len(a.elts) == 2):
            return None
        keys = const(a.elts[0])
        if keys is None:
            return None
        for k in keys:
            out.append((k, _val(a.elts[1]), a.elts[1]))
    return out


def _val(v):
    if isinstance(v, ast.Call):
        d = call_name(v)
        if d == "_chain":
            return tuple(const(a) for a in v.args)
        if d == "ast.Name":
            i = kwarg(v, "id", 0)
            c = const(i)
            return ("const", {"True": True, "False": False, "None": None}.get(c, c))
        if d and d.startswith("ast."):
            return d[4:]
    if isinstance(v, ast.Constant):
        return v.value
    return src(v)


def _doc_table(ctx):
    p = os.path.join(ctx.repo, DOC)
    if not os.path.exists(p):
        raise AnalysisError("documentation table vanished: %s" % DOC)
    ctx.analysed_files.add(DOC)
    rows = []
    for line in open(p, encoding="utf-8"):
        m = re.match(r"^``(\w+)``\s+((?:``\w+``(?:,\s*)?)*)\s+``(\w+)``\s+(.*)$", line.rstrip())
        if m:
            syn = re.findall(r"``(\w+)``", m.group(2))
            rows.append((m.group(1), syn, m.group(3), m.group(4)))
    if len(rows) < 12:
        raise AnalysisError("could only parse %d rows of the keyword table in %s" % (len(rows), DOC))
    return rows


def check(ctx):
    ctx.rule("C12-R1", "every documented keyword and synonym exists, all synonyms of a row map to one target, and the target is the attribute chain the documentation describes")
    ctx.rule("C12-R2", "every operator spelling maps to the AST node of its meaning; =~ builds `re.match(pattern, string) is not None`")
    ctx.rule("C12-R3", "all spellings of one operator share a precedence level; levels are ordered not > comparisons > and > or; every spelling is on exactly one level")
    ctx.rule("C12-R4", "RangeCondition builds low <= field <= high; InListCondition builds field == x for one literal and field in [..] for several")
    ctx.rule("C12-R5", "select and select_expression use the .expr / .source of the same parse_selection(s) result over topology.atoms in order")
    ctx.rule("C12-R6", "the single return of parse_selection.__call__ is dominated by parseString(selection, parseAll=True); ParseException is re-raised; semantic checks raise")
    ctx.rule("C12-R7", "operator keywords are excluded from literals; no spelling is both a keyword alias and an operator")
    ctx.rule("C12-R8", "literals become constants through Python's own parser; the literal checks and the AST cover every operand of a chain; memoised topology attributes are reset by every mutator")
    r8(ctx)
    mod = ctx.py.mod(SEL)

    # ---------------- tables -------------------------------------------------------------------
    kw_tab = _expand_kw(mod.class_assign("SelectionKeyword", "keyword_aliases"))
    un_tab = _expand_kw(mod.class_assign("UnaryInfixOperand", "keyword_aliases"))
    bin_tab = _expand_kw(mod.class_assign("BinaryInfixOperand", "keyword_aliases"))
    re_tab = _expand_kw(mod.class_assign("RegexInfixOperand", "keyword_aliases"))
    for name, t in (("SelectionKeyword", kw_tab), ("UnaryInfixOperand", un_tab), ("BinaryInfixOperand", bin_tab), ("RegexInfixOperand", re_tab)):
        if not t:
            raise AnalysisError("cannot expand %s.keyword_aliases" % name)
    kw = {k: v for k, v, _ in kw_tab}
    cnode = mod.cls("SelectionKeyword")

    # ---------------- R1 -----------------------------------------------------------------------
    rows = _doc_table(ctx)
    documented = set()
    for (key, syns, typ, desc) in rows:
        allk = [key] + syns
        documented |= set(allk)
        missing = [k for k in allk if k not in kw]
        ctx.decide(not missing, "C12-R1", cnode, SEL, "SelectionKeyword", "documented keyword %s %s exists" % (key, syns), "",
                   "documented keyword(s) %s are not in the grammar" % missing)
        targets = {kw[k] for k in allk if k in kw}
        ctx.decide(len(targets) <= 1, "C12-R1", cnode, SEL, "SelectionKeyword", "synonyms of %s agree" % key, "",
                   "synonyms %s of one documented keyword map to different attributes %s" % (allk, sorted(map(str, targets))))
        want = MEANING.get(key)
        if want is None:
            ctx.note("C12-R1", cnode, SEL, "SelectionKeyword", "keyword %s" % key, "documented keyword without an entry in the checker's meaning table")
            continue
        got = kw.get(key)
        ctx.decide(got == want, "C12-R1", cnode, SEL, "SelectionKeyword", "meaning of %s" % key, "atom.%s" % ".".join(map(str, want)),
                   "keyword `%s` (%s) is mapped to %s, documented meaning is atom.%s" % (key, desc.strip()[:50], got, ".".join(map(str, want))))
    _keywords_through_edits(ctx, kw, cnode)
    for k in sorted(set(kw) - documented):
        ctx.note("C12-R1", cnode, SEL, "SelectionKeyword", "keyword %s" % k, "exists in the grammar but not in the documentation table (-> %s)" % (kw[k],))

    # ---------------- R2 -----------------------------------------------------------------------
    ops = {k: v for k, v, _ in un_tab + bin_tab}
    for sp, want in sorted(OPERATORS.items()):
        ctx.decide(ops.get(sp) == want, "C12-R2", mod.cls("BinaryInfixOperand"), SEL, "operator table", "spelling %r" % sp, "-> ast.%s" % want,
                   "operator spelling %r maps to %s, its meaning is ast.%s" % (sp, ops.get(sp), want))
    extra = sorted(set(ops) - set(OPERATORS))
    ctx.decide(not extra, "C12-R2", mod.cls("BinaryInfixOperand"), SEL, "operator table", "no undocumented operator spellings", "", "undocumented operator spellings %s" % extra)
    # regex operator shape: evaluated on model tokens
    _regex_by_evaluation(ctx)

    # ---------------- R3 -----------------------------------------------------------------------
    init = ctx.py.func(SEL, "parse_selection._initialize")
    infix = mod.functions.get("parse_selection._initialize.infix")
    if infix is None:
        raise AnalysisError("anchor function vanished: parse_selection._initialize.infix")
    isrc = src(infix)
    # order of classes in the infixNotation call
    order = None
    for n in walk_no_nested(init):
        if isinstance(n, ast.Call) and call_name(n) == "infixNotation" and len(n.args) >= 2:
            order = re.findall(r"infix\((\w+)\)", src(n.args[1]))
    if not order:
        ctx.undecided("C12-R3", init, SEL, "parse_selection._initialize", "infixNotation levels", "operator list of infixNotation not recognised")
    else:
        tabs = {"UnaryInfixOperand": un_tab, "BinaryInfixOperand": bin_tab, "RegexInfixOperand": re_tab}
        per_key_sorted = "sorted(" in isrc and re.search(r"for\s+kw\s+in\s+kws", isrc) and "setdefault" not in isrc
        grouped = ("setdefault" in isrc or "groupby" in isrc) and ("id(op)" in isrc or "id(" in isrc or "[op]" in isrc) and ".items()" in isrc
        levels = []   # list of lists of spellings, tightest first
        if grouped:
            for cname in order:
                seen = {}
                for k, v, node in tabs[cname]:
                    seen.setdefault(id(node), []).append(k)
                levels.extend(seen.values())
            how = "one level per operator, in the order of the alias tables"
        elif per_key_sorted:
            for cname in order:
                for k in sorted(k for k, _, _ in tabs[cname]):
                    levels.append([k])
            how = "one level per spelling, in sorted() order"
        else:
            levels = None
        if levels is None:
            ctx.undecided("C12-R3", infix, SEL, "parse_selection._initialize.infix", "levels", "the way infix() builds precedence levels is not recognised")
        else:
            ctx.stats["precedence_levels"] = levels
            allops = dict(ops)
            allops["=~"] = "Regex"
            lvl_of = {}
            for i, l in enumerate(levels):
                for k in l:
                    lvl_of.setdefault(k, []).append(i)
            for k in sorted(allops):
                ctx.decide(len(lvl_of.get(k, [])) == 1, "C12-R3", infix, SEL, "parse_selection._initialize.infix", "spelling %r on exactly one level" % k, "",
                           "spelling %r appears on levels %s" % (k, lvl_of.get(k)))
            byop = {}
            for k, o in allops.items():
                byop.setdefault(o, []).append(k)
            for o, ks in sorted(byop.items()):
                ls = {tuple(lvl_of.get(k, [])) for k in ks}
                ctx.decide(len(ls) == 1, "C12-R3", infix, SEL, "parse_selection._initialize.infix", "spellings of %s share a level" % o, str(ks),
                           "the spellings %s of one operator sit on different precedence levels %s (%s): the meaning of an expression depends "
                           "on which spelling is used" % (ks, sorted(ls), how))

            def lv(op):
                return [lvl_of[k][0] for k in byop.get(op, []) if lvl_of.get(k)]
            nots, ands, ors = lv("Not"), lv("And"), lv("Or")
            cmps = [x for o in COMPARISONS for x in lv(o)]
            ctx.decide(nots and cmps and max(nots) < min(cmps), "C12-R3", infix, SEL, "parse_selection._initialize.infix", "not binds tighter than comparisons", "",
                       "a spelling of `not` binds looser than a comparison")
            ctx.decide(cmps and ands and max(cmps) < min(ands), "C12-R3", infix, SEL, "parse_selection._initialize.infix", "comparisons bind tighter than and", "",
                       "some comparison spelling binds looser than a spelling of `and` (levels %s vs %s)" % (sorted(set(cmps)), sorted(set(ands))))
            ctx.decide(ands and ors and max(ands) < min(ors), "C12-R3", infix, SEL, "parse_selection._initialize.infix", "and binds tighter than or", "",
                       "a spelling of `and` binds looser than a spelling of `or` (levels %s vs %s)" % (sorted(set(ands)), sorted(set(ors))))

    # ---------------- R4 -----------------------------------------------------------------------
    _r4_by_evaluation(ctx)

    # ---------------- R5 -----------------------------------------------------------------------
    sel = ctx.py.func(TOP, "Topology.select")
    sex = ctx.py.func(TOP, "Topology.select_expression")
    a = [n for n in walk_no_nested(sel) if isinstance(n, ast.Attribute) and n.attr in ("expr", "source", "astnode") and isinstance(n.value, ast.Call) and call_name(n.value) == "parse_selection"]
    b = [n for n in walk_no_nested(sex) if isinstance(n, ast.Attribute) and n.attr in ("expr", "source", "astnode") and isinstance(n.value, ast.Call) and call_name(n.value) == "parse_selection"]
    ctx.decide(len(a) == 1 and a[0].attr == "expr" and dotted(a[0].value.args[0]) == "selection_string", "C12-R5", sel, TOP, "Topology.select",
               "uses parse_selection(selection_string).expr", "", "select does not evaluate the compiled expression of its argument")
    ctx.decide(len(b) == 1 and b[0].attr == "source" and dotted(b[0].value.args[0]) == "selection_string", "C12-R5", sex, TOP, "Topology.select_expression",
               "uses parse_selection(selection_string).source", "", "select_expression does not return the source of the same parse")
    lc = [n for n in walk_no_nested(sel) if isinstance(n, ast.ListComp)]
    ok = bool(lc) and src(lc[0].generators[0].iter) == "self.atoms" and src(lc[0].elt).endswith(".index") and len(lc[0].generators[0].ifs) == 1 \
        and "filter_func" in src(lc[0].generators[0].ifs[0]) and not isinstance(lc[0].generators[0].ifs[0], ast.UnaryOp)
    ctx.decide(ok, "C12-R5", sel, TOP, "Topology.select", "[a.index for a in self.atoms if f(a)]", "increasing order, exactly the atoms for which the expression is true",
               "the result is not built as the indices of self.atoms, in order, for which the expression holds")
    fmt = [n for n in walk_no_nested(sex) if isinstance(n, ast.Constant) and isinstance(n.value, str) and "for atom in topology.atoms if" in n.value]
    ctx.decide(any(f.value.replace(" ", "").startswith("[atom.indexforatomintopology.atomsif{condition}") for f in fmt), "C12-R5", sex, TOP, "Topology.select_expression",
               "source template", "", "the generated source no longer enumerates topology.atoms in order with the condition as filter")
    # .expr is compiled from the node .source is unparsed from
    call = ctx.py.func(SEL, "parse_selection.__call__")
    lit_world = _call_by_evaluation(ctx, call)

    # ---------------- R6 -----------------------------------------------------------------------
    cfg = CFG(call)
    parse_nodes = [n for n in cfg.nodes() if any(isinstance(c, ast.Call) and (call_name(c) or "").endswith(".parseString") for e in cfg.own_exprs(n) for c in ast.walk(e))]
    rets = [n for n in cfg.nodes() if cfg.kind[n] == "stmt" and isinstance(cfg.stmt[n], ast.Return)]
    ok = len(parse_nodes) == 1 and bool(rets) and all(cfg.dominates(parse_nodes[0], r) for r in rets)
    ctx.decide(ok, "C12-R6", call, SEL, "parse_selection.__call__", "return dominated by parseString", "", "a result can be returned without parsing the whole string")
    pa = None
    for n in walk_no_nested(call):
        if isinstance(n, ast.Call) and (call_name(n) or "").endswith(".parseString"):
            pa = kwarg(n, "parseAll", 1)
    ctx.decide(pa is not None and const(pa) is True, "C12-R6", call, SEL, "parse_selection.__call__", "parseAll=True", "",
               "parseString is not called with parseAll=True: a malformed tail is ignored and the well-formed prefix is selected")
    handlers = [n for n in walk_no_nested(call) if isinstance(n, ast.ExceptHandler)]
    ok = bool(handlers) and all(any(isinstance(s2, ast.Raise) for s2 in h.body) and not any(isinstance(s2, ast.Return) for s2 in ast.walk(h)) for h in handlers)
    ctx.decide(ok, "C12-R6", call, SEL, "parse_selection.__call__", "ParseException handler re-raises", "", "a parse error is swallowed")
    if lit_world is None:
        ctx.undecided("C12-R6", call, SEL, "parse_selection.__call__", "single literal rejected", "not evaluable (see C12-R5)")
    else:
        ctx.decide(not lit_world, "C12-R6", call, SEL, "parse_selection.__call__", "single literal rejected", "", "; ".join(lit_world)[:400])
    for cname, needle in (("UnaryInfixOperand", "Cannot use literals as booleans"), ("BinaryInfixOperand", "Cannot compare literals"),
                          ("BinaryInfixOperand", "Cannot use literals as truth"), ("RangeCondition", "test literal in range"), ("RegexInfixOperand", "regex comparison on literal")):
        f = ctx.py.func(SEL, cname + ".__init__")
        ok = any(isinstance(n, ast.Raise) and needle in src(n) for n in walk_no_nested(f))
        ctx.decide(ok, "C12-R6", f, SEL, cname + ".__init__", "semantic check: %s" % needle, "", "the check `%s` no longer raises" % needle)
    chk = ctx.py.func(SEL, "_check_n_tokens")
    ctx.decide(any(isinstance(n, ast.Raise) for n in walk_no_nested(chk)), "C12-R6", chk, SEL, "_check_n_tokens", "token count mismatch raises", "", "token count mismatch is accepted")

    # ---------------- R7 -----------------------------------------------------------------------
    lit = None
    for n in walk_no_nested(init):
        if isinstance(n, ast.Assign) and dotted(n.targets[0]) == "literal":
            lit = n
            break
    s = src(lit.value) if lit is not None else ""
    ok = s.startswith("~(") and "keywords(BinaryInfixOperand)" in s and "keywords(UnaryInfixOperand)" in s
    ctx.decide(ok, "C12-R7", lit or init, SEL, "parse_selection._initialize", "operator keywords excluded from literals", "",
               "operator words can be parsed as bare literals: `%s`" % s[:80])
    # terminals are matched case-sensitively: the atom names NE, CL, GE ... must stay literals
    mod_tree = mod.tree
    caseless = []
    n_terms = 0
    for n in ast.walk(mod_tree):
        if isinstance(n, ast.Call):
            cn_ = (call_name(n) or "").split(".")[-1]
            if cn_ in ("Keyword", "Literal", "oneOf", "one_of", "Regex", "Word", "CaselessKeyword", "CaselessLiteral"):
                n_terms += 1
                flag = kwarg(n, "caseless") or kwarg(n, "case_insensitive")
                if cn_.startswith("Caseless") or (flag is not None and const(flag) is not False) or \
                        (cn_ in ("Keyword",) and len(n.args) >= 3 and const(n.args[2]) is not False) or \
                        (cn_ in ("oneOf", "one_of") and len(n.args) >= 2 and const(n.args[1]) is not False) or \
                        any(isinstance(x, ast.Attribute) and x.attr in ("IGNORECASE", "I") for x in ast.walk(n)):
                    caseless.append(n)
    if n_terms < 3:
        ctx.undecided("C12-R7", init, SEL, "parse_selection._initialize", "terminals are case-sensitive", "only %d pyparsing terminals found" % n_terms)
    else:
        ctx.decide(not caseless, "C12-R7", caseless[0] if caseless else init, SEL, "parse_selection._initialize", "keywords and operators are matched case-sensitively (%d terminals)" % n_terms, "",
                   "`%s` matches without regard to case: an atom / residue / element name that spells a keyword or operator in capitals (NE, GE, LT, CL ...) is no longer a literal"
                   % (src(caseless[0])[:70] if caseless else ""))
    both = sorted((set(kw) | {"to"}) & {k.strip() for k in ops})
    ctx.decide(not both, "C12-R7", cnode, SEL, "SelectionKeyword", "aliases and operators are disjoint", "", "spellings %s are both keyword and operator" % both)
    dup = [k for k in set(k for k, _, _ in kw_tab) if sum(1 for k2, _, _ in kw_tab if k2 == k) > 1]
    ctx.decide(not dup, "C12-R7", cnode, SEL, "SelectionKeyword", "no alias listed twice", "", "aliases %s are listed under two keywords (the later silently wins)" % dup)


def _module_constants(ctx, rel):
    """the module-level constants of a data module (frozenset(...) / dict / list literals, X.keys(), unions), read from its source"""
    env = {}

    def ev(e):
        if isinstance(e, ast.Name) and e.id in env:
            return env[e.id]
        if isinstance(e, ast.Call) and call_name(e) in ("frozenset", "set", "list", "tuple", "sorted") and len(e.args) <= 1:
            v = ev(e.args[0]) if e.args else ()
            return {"frozenset": frozenset, "set": set, "list": list, "tuple": tuple, "sorted": sorted}[call_name(e)](v)
        if isinstance(e, ast.Call) and isinstance(e.func, ast.Attribute) and e.func.attr in ("keys", "values") and not e.args:
            d = ev(e.func.value)
            return list(d.keys() if e.func.attr == "keys" else d.values())
        if isinstance(e, ast.BinOp) and isinstance(e.op, (ast.BitOr, ast.Add)):
            a, b = ev(e.left), ev(e.right)
            return a | b if isinstance(e.op, ast.BitOr) else a + b
        if isinstance(e, (ast.List, ast.Tuple, ast.Set)):
            vals = [ev(x) for x in e.elts]
            return vals if isinstance(e, ast.List) else (tuple(vals) if isinstance(e, ast.Tuple) else set(vals))
        if isinstance(e, ast.Dict):
            return {ev(k): ev(v) for k, v in zip(e.keys, e.values)}
        return ast.literal_eval(e)
    for n in ctx.py.mod(rel).tree.body:
        if isinstance(n, ast.Assign) and len(n.targets) == 1 and isinstance(n.targets[0], ast.Name):
            try:
                env[n.targets[0].id] = ev(n.value)
            except (ValueError, TypeError, KeyError, SyntaxError):
                pass
    return env


def _keywords_through_edits(ctx, kw, cnode):
    """Every attribute chain behind a keyword evaluated (sa/tensym.py; Topology / Chain / Residue / Atom instantiated from their source, the residue
    tables read from residue_names.py) on every atom of a model topology - built through add_chain / add_residue / add_atom / add_bond - at four
    points of a history: as built, after insert_atom at the front of a residue (every later atom is renumbered), after delete_atom_by_index, after
    add_bond.  The positional keywords are what the live lists say (index: the place in the atom list, resid / chainid likewise, n_bonds: the number
    of bonds that hold the atom); every other keyword keeps, for each atom object, the value it had - nothing is served from a table filled at an
    earlier point of the history."""
    from .c04 import _TopWorld
    from ..tensym import Raised, Obj
    from ..pysym import Unsupported as PUnsupported
    RN = "mdtraj/core/residue_names.py"
    chains = sorted({v for v in kw.values() if v and v[0] != "const"}, key=str)
    try:
        W = _TopWorld(ctx)
        consts = {k: v for k, v in _module_constants(ctx, RN).items() if k.startswith("_")}
        ts = W.evaluator(env=consts)
        ts.module_env = dict(consts)
        # the topology of C04's worlds plus a ligand whose two hydrogens carry the same name (atoms that compare equal field by field are still
        # different atoms: their bonds are their own)
        spec = list(W.SPEC) + [("L", [("LIG", 9, "", [("H", "H", None), ("H", "H", None), ("O", "O", None)])])]
        n0 = sum(len(r_[3]) for c_ in W.SPEC for r_ in c_[1])
        top = W.build(ts, spec=spec, bonds=list(W.BONDS) + [(n0, n0 + 2, None, None), (n0 + 1, n0 + 2, None, None), (n0 + 1, 0, None, None)])
    except (Raised, PUnsupported) as e:
        ctx.undecided("C12-R1", cnode, SEL, "SelectionKeyword", "keyword attributes through a history of edits", "the model topology cannot be built: %s" % e)
        return

    def get(o, chain):
        ts.env["__probe__"] = o
        e = ast.Name(id="__probe__", ctx=ast.Load())
        for c in chain:
            e = ast.Attribute(value=e, attr=c, ctx=ast.Load())
        return ts.pyval(ts.ex(e))

    def positional(chain):
        at = list(top._atoms)
        if chain == ("index",):
            return {id(a): k for k, a in enumerate(at)}
        if chain == ("n_bonds",):
            return {id(a): sum(1 for b in top._bonds if b.atom1 is a or b.atom2 is a) for a in at}
        if chain == ("residue", "index"):
            return {id(a): next(k for k, r in enumerate(top._residues) if r is a.residue) for a in at}
        if chain == ("residue", "chain", "index"):
            return {id(a): next(k for k, c in enumerate(top._chains) if c is a.residue.chain) for a in at}
        # the documented classes of atoms: backbone / side chain are notions of protein residues (a water or an ion has neither)
        prot = consts.get("_PROTEIN_RESIDUES")
        wat = consts.get("_WATER_RESIDUES")
        if chain == ("residue", "is_protein") and prot is not None:
            return {id(a): a.residue.name in prot for a in at}
        if chain == ("residue", "is_water") and wat is not None:
            return {id(a): a.residue.name in wat for a in at}
        if chain == ("is_backbone",) and prot is not None:
            return {id(a): a.residue.name in prot and a.name in ("C", "CA", "N", "O") for a in at}
        if chain == ("is_sidechain",) and prot is not None:
            return {id(a): a.residue.name in prot and a.name not in ("C", "CA", "N", "O", "HA", "H") for a in at}
        return None
    history = [("as built", lambda: None),
               ("after insert_atom(..., index=0)", lambda: W.call(ts, top, "insert_atom", "X", W.EL["H"], top._residues[0], index=0)),
               ("after delete_atom_by_index(3)", lambda: W.call(ts, top, "delete_atom_by_index", 3)),
               ("after add_bond(atom 0, atom 2)", lambda: W.call(ts, top, "add_bond", top._atoms[0], top._atoms[2]))]
    problems = {c: [] for c in chains}
    undec = {}
    first = {c: {} for c in chains}
    for when, step in history:
        try:
            step()
        except (Raised, PUnsupported) as e:
            ctx.undecided("C12-R1", cnode, SEL, "SelectionKeyword", "keyword attributes through a history of edits", "%s: %s" % (when, e))
            return
        for c in chains:
            if c in undec:
                continue
            try:
                got = {id(a): get(a, c) for a in top._atoms}
            except Raised as e:
                problems[c].append("%s: atom.%s raises %s" % (when, ".".join(c), e.exc or e))
                continue
            except PUnsupported as e:
                undec[c] = "%s: not evaluable: %s" % (when, e)
                continue
            want = positional(c)
            if want is not None:
                bad = [k for k, a in enumerate(top._atoms) if got[id(a)] != want[id(a)]]
                if bad:
                    problems[c].append("%s: atom.%s of the atoms is %s, the topology says %s" % (when, ".".join(c), [got[id(a)] for a in top._atoms], [want[id(a)] for a in top._atoms]))
            else:
                for k, a in enumerate(top._atoms):
                    if id(a) in first[c] and first[c][id(a)] != got[id(a)]:
                        problems[c].append("%s: atom.%s of the atom now at index %d is %r, it was %r before the edit (which did not touch it)" % (when, ".".join(c), k, got[id(a)], first[c][id(a)]))
                        break
                for a in top._atoms:
                    first[c].setdefault(id(a), got[id(a)])
    for c in chains:
        words = sorted(k for k, v in kw.items() if v == c)
        desc = "atom.%s (%s) as built, after insert_atom, delete_atom_by_index, add_bond: the value of the live topology" % (".".join(c), " / ".join(words[:3]))
        if c in undec:
            ctx.undecided("C12-R1", cnode, SEL, "SelectionKeyword", desc, undec[c])
        else:
            ctx.decide(not problems[c], "C12-R1", cnode, SEL, "SelectionKeyword", desc, "", "; ".join(problems[c][:2]))


# ---------------------------------------------------------------------------------------------------
# R8: literals, operand checks, memoised attributes
# ---------------------------------------------------------------------------------------------------
_STR_EDIT = {"strip", "lstrip", "rstrip", "replace", "translate", "removeprefix", "removesuffix", "split", "lower", "upper"}


def r8(ctx):
    mod = ctx.py.mod(SEL)
    # (a) literal -> Python constant through the Python parser, on every path
    fn = ctx.py.func(SEL, "Literal.ast")
    rets = [n for n in walk_no_nested(fn) if isinstance(n, ast.Return)]
    if not rets:
        raise AnalysisError("Literal.ast has no return")
    for r in rets:
        s = src(r.value).replace(" ", "").replace('"', "'") if r.value is not None else ""
        if s in ("ast.parse(self.token,mode='eval').body", "ast.parse(self.token,'<string>','eval').body"):
            ctx.holds("C12-R8", r, SEL, "Literal.ast", "literal parsed by ast.parse(token, mode='eval')", "quoting and escapes follow Python's own literal syntax")
            continue
        edits = [c for c in ast.walk(r.value) if isinstance(c, ast.Call) and isinstance(c.func, ast.Attribute) and c.func.attr in _STR_EDIT] if r.value is not None else []
        slices = [c for c in ast.walk(r.value) if isinstance(c, ast.Subscript) and isinstance(c.slice, ast.Slice)] if r.value is not None else []
        if edits or slices:
            ctx.violated("C12-R8", r, SEL, "Literal.ast", "literal parsed by ast.parse(token, mode='eval')",
                         "a literal is turned into a constant by editing the token text (%s): characters that belong to the value (a trailing prime in O5', an embedded quote) are lost or kept wrongly"
                         % ", ".join(sorted({c.func.attr for c in edits} | ({"slice"} if slices else set()))))
        else:
            ctx.undecided("C12-R8", r, SEL, "Literal.ast", "literal parsed by ast.parse(token, mode='eval')", "unrecognised literal conversion `%s`" % s[:80])
    # (b) BinaryInfixOperand evaluated on model operand chains (sa/tensym.py): which operands are kept, which chains are refused, what enters the AST
    _r8_infix_by_evaluation(ctx)
    # (b2) bare names become string constants; only the two marked AST nodes (the atom and the re module) survive, by marker, not by spelling
    vn = ctx.py.func(SEL, "_RewriteNames.visit_Name")
    keep = [n for n in walk_no_nested(vn) if isinstance(n, ast.Return) and isinstance(n.value, ast.Name) and n.value.id == "node"]
    m_ = ctx.py.mod(SEL)
    okk = bool(keep)
    for r_ in keep:
        par = m_.parents.get(r_)
        okk = okk and isinstance(par, ast.If) and re.sub(r"\s", "", src(par.test)).replace('"', "'") in ("hasattr(node,'SINGLETON')", "getattr(node,'SINGLETON',False)")
    last = [n for n in vn.body if isinstance(n, ast.Return)]
    okk = okk and bool(last) and re.sub(r"\s", "", src(last[-1].value)) in ("ast.Constant(value=node.id,kind=None)", "ast.Constant(value=node.id)", "ast.Constant(node.id)")
    ctx.decide(okk, "C12-R8", vn, SEL, "_RewriteNames.visit_Name", "a bare name is kept only when it carries the SINGLETON marker; every other name becomes a string constant", "",
               "visit_Name keeps names by another criterion (%s): a literal spelled like an internal name (`atom`, `re`) is evaluated as that object instead of being compared as a string" % [src(m_.parents.get(r_).test) if isinstance(m_.parents.get(r_), ast.If) else "unconditional" for r_ in keep])
    marks = {}
    for nm in ("THIS_ATOM", "RE_MODULE"):
        v = m_.module_assign(nm)
        marks[nm] = isinstance(v, ast.Call) and call_name(v) == "ast.Name" and any(k.arg == "SINGLETON" and const(k.value) is True for k in v.keywords)
    ctx.decide(all(marks.values()), "C12-R8", vn, SEL, "THIS_ATOM / RE_MODULE", "the two internal names carry the marker", "", "marker missing on %s" % [k for k, v in marks.items() if not v])
    # (c) attributes behind keywords are computed from the live topology: any memo field must be reset by every mutator
    memo_coherence(ctx, "C12-R8")


_MUTATORS = {"append", "insert", "remove", "pop", "extend", "sort", "clear", "reverse"}
_SOURCES = ("_bonds", "_atoms", "_residues", "_chains")


def memo_coherence(ctx, rule):
    """Topology memo fields (None in __init__, filled lazily from _bonds/_atoms/...) must be reset by every method that changes their sources."""
    mod = ctx.py.mod(TOP)
    cls = mod.cls("Topology")
    methods = {n.name: n for n in cls.body if isinstance(n, ast.FunctionDef)}
    init = methods.get("__init__")
    none_fields = {dotted(t)[5:] for n in ast.walk(init) if isinstance(n, ast.Assign) for t in n.targets
                   if (dotted(t) or "").startswith("self._") and isinstance(n.value, ast.Constant) and n.value.value is None}
    memo = {}
    for name, m in methods.items():
        if name == "__init__":
            continue
        for n in ast.walk(m):
            if isinstance(n, ast.Assign):
                for t in n.targets:
                    f = (dotted(t) or "")
                    if f.startswith("self._") and f[5:] in none_fields and not (isinstance(n.value, ast.Constant) and n.value.value is None):
                        reads = {a.attr for a in ast.walk(m) if isinstance(a, ast.Attribute) and dotted(a.value) == "self" and a.attr in _SOURCES}
                        uses_index = any(isinstance(a, ast.Attribute) and a.attr == "index" for a in ast.walk(m))
                        memo.setdefault(f[5:], {"filled_in": name, "sources": set(), "index": False})
                        memo[f[5:]]["sources"] |= reads
                        memo[f[5:]]["index"] |= uses_index
    ctx.stats["topology_memo_fields"] = {k: {"filled_in": v["filled_in"], "sources": sorted(v["sources"]), "keyed_by_index": v["index"]} for k, v in memo.items()}
    ctx.holds(rule, cls, TOP, "Topology", "memo fields enumerated (%d None-initialised fields, %d lazily filled)" % (len(none_fields), len(memo)),
              "fields: %s" % sorted(memo))
    for f, info in sorted(memo.items()):
        for name, m in sorted(methods.items()):
            if name in ("__init__", info["filled_in"]):
                continue
            touches = set()
            for n in ast.walk(m):
                if isinstance(n, ast.Call) and isinstance(n.func, ast.Attribute) and n.func.attr in _MUTATORS and (dotted(n.func.value) or "").startswith("self.") \
                        and (dotted(n.func.value) or "")[5:] in info["sources"]:
                    touches.add(dotted(n.func.value)[5:])
                if isinstance(n, (ast.Assign, ast.AugAssign, ast.Delete)):
                    tg = n.targets if isinstance(n, (ast.Assign, ast.Delete)) else [n.target]
                    for t in tg:
                        base = t
                        while isinstance(base, ast.Subscript):
                            base = base.value
                        d = dotted(base) or ""
                        if d.startswith("self.") and d[5:] in info["sources"]:
                            touches.add(d[5:])
                        if info["index"] and isinstance(t, ast.Attribute) and t.attr == "index":
                            touches.add("atom/residue .index")
            if not touches:
                continue
            resets = any(isinstance(n, ast.Assign) and any(dotted(t) == "self." + f for t in n.targets) and isinstance(n.value, ast.Constant) and n.value.value is None for n in ast.walk(m))
            ctx.decide(resets, rule, m, TOP, "Topology." + name, "memo %s reset when %s change" % (f, sorted(touches)), "",
                       "Topology.%s changes %s but does not reset the memo `%s` filled by %s: an attribute served from it (e.g. through a selection keyword) describes the topology before the change"
                       % (name, sorted(touches), f, info["filled_in"]))


def _call_by_evaluation(ctx, call):
    """parse_selection.__call__ evaluated on a model parser (parseString hands back one token whose .ast() is a marker node; the transformer,
    deepcopy, unparse, ast.Lambda / Expression / fix_missing_locations, compile and eval are recorded): the callable that is returned is compiled
    from a lambda whose body is the very node the source text is unparsed from and that is handed on as .astnode; a node that is a bare constant
    other than True / False / None is refused, the three singletons are not.  Returns the problems of the literal worlds (None: not evaluable)."""
    from ..tensym import TenSym, Obj, Unsupported as TUnsupported

    def world(kind, value):
        mk = lambda stage: Obj(_isa=(kind,), tag="node " + stage, value=value, _lenient=True)
        raw, copied, node = mk("as parsed"), mk("copied"), mk("transformed")        # three distinct objects: only the transformed one may reach the result
        me = Obj(is_initialized=True, _lenient=True)
        me.expression = Obj(parseString=lambda s_, parseAll=False: [Obj(ast=lambda: raw)] if parseAll is True else [Obj(ast=lambda: Obj(tag="prefix only"))])
        me.transformer = Obj(visit=lambda n_: node if (n_ is copied or n_ is raw) else Obj(tag="the transformer was handed something else"))       # a copy is not demanded: .ast() builds fresh nodes
        me._initialize = lambda: None
        got = []

        def arg(ev, c, k, name=None):
            for kw_ in c.keywords:
                if kw_.arg == name:
                    return ev.ex(kw_.value)
            return ev.ex(c.args[k])
        dc = lambda ev, c: copied if ev.ex(c.args[0]) is raw else Obj(tag="copy of something else")
        models = {"deepcopy": dc, "copy.deepcopy": dc,
                  "unparse": lambda ev, c: Obj(tag="source", of=ev.ex(c.args[0])), "ast.unparse": lambda ev, c: Obj(tag="source", of=ev.ex(c.args[0])),
                  "ast.arg": lambda ev, c: Obj(tag="arg"), "ast.arguments": lambda ev, c: Obj(tag="arguments"),
                  "ast.Lambda": lambda ev, c: Obj(tag="lambda", body=arg(ev, c, 1, "body")), "ast.Expression": lambda ev, c: Obj(tag="expression", body=arg(ev, c, 0, "body")),
                  "ast.fix_missing_locations": lambda ev, c: ev.ex(c.args[0]), "compile": lambda ev, c: Obj(tag="code", of=ev.ex(c.args[0])),
                  "eval": lambda ev, c: Obj(tag="callable", of=ev.ex(c.args[0])),
                  "_ParsedSelection": lambda ev, c: got.append([ev.ex(a_) for a_ in c.args]) or Obj(tag="parsed")}
        ev = TenSym({"__g_x": 0, "SELECTION_GLOBALS": Obj(tag="globals")}, models=models)
        try:
            ev.run_fn(call, self=me, selection="S")
        except TUnsupported as e:
            if "path raises" in str(e):
                return "refused", node, got
            raise
        return "accepted", node, got
    try:
        res, node, got = world("Compare", None)
        pr = []
        if res != "accepted" or len(got) != 1 or len(got[0]) != 3:
            pr.append("a comparison node is %s (%d results)" % (res, len(got)))
        else:
            expr, source, third = got[0]
            body = expr
            for attr in ("of", "of", "body", "body"):       # callable <- code <- expression <- lambda <- node
                body = getattr(body, attr, None)
            if body is not node:
                pr.append(".expr is not compiled from `lambda atom: <the transformed node>`")
            if getattr(source, "of", None) is not node:
                pr.append(".source is not unparsed from the node .expr is compiled from")
            if third is not node:
                pr.append(".astnode is not that node")
        ctx.decide(not pr, "C12-R5", call, SEL, "parse_selection.__call__", "expr and source derive from one astnode (evaluated on a model parser)", "", "; ".join(pr)[:400])
        lit = []
        for kind, value, want in (("Constant", "CA", "refused"), ("Constant", 5, "refused"), ("Constant", True, "accepted"), ("Constant", False, "accepted"), ("Constant", None, "accepted"), ("Compare", None, "accepted")):
            res, _, _ = world(kind, value)
            if res != want:
                lit.append("a selection that is the single node %s(%r) is %s (documented: %s)" % (kind, value, res, want))
        return lit
    except TUnsupported as e:
        ctx.undecided("C12-R5", call, SEL, "parse_selection.__call__", "expr and source derive from one astnode", "not evaluable: %s" % e)
        return None


def _r8_infix_by_evaluation(ctx):
    """BinaryInfixOperand on chains of three operands: every operand of `a op b op c` is kept, a boolean chain with any bare literal and a
    comparison chain of literals only are refused, and the generated node holds all operands in order (BoolOp.values, or Compare.left +
    comparators)."""
    from ..tensym import TenSym, Obj, Unsupported as TUnsupported
    init = ctx.py.func(SEL, "BinaryInfixOperand.__init__")
    astf = ctx.py.func(SEL, "BinaryInfixOperand.ast")
    BOOL, CMP = Obj(_isa=("boolop",), tag="and"), Obj(_isa=("cmpop",), tag="<")

    def operand(k, literal):
        o = Obj(_isa=("Literal",) if literal else ("SelectionKeyword",), tag="t%d" % k)
        o.ast = (lambda t: (lambda: t))("ast(t%d)" % k)
        return o

    def run_init(optok, lits):
        ops = [operand(k, l) for k, l in enumerate(lits)]
        toks = []
        for k, o in enumerate(ops):
            if k:
                toks.append(optok)
            toks.append(o)
        me = Obj(keyword_aliases={"and": BOOL, "<": CMP}, _lenient=True)
        ev = TenSym({"__g_x": 0})
        try:
            ev.run_fn(init, self=me, tokens=[toks])
        except TUnsupported as e:
            if "path raises" in str(e):
                return "refused", me, ops
            raise
        return "accepted", me, ops
    cases = [("and", (False, False, False), "accepted"), ("and", (False, False, True), "refused"), ("and", (True, False, False), "refused"),
             ("<", (True, True, True), "refused"), ("<", (False, True, True), "accepted"), ("<", (True, True, False), "accepted")]
    try:
        pr = []
        for optok, lits, want in cases:
            res, me, ops = run_init(optok, lits)
            if res != want:
                pr.append("`%s` chain with literals at %s is %s (documented: %s)" % (optok, [k for k, l in enumerate(lits) if l], res, want))
            elif res == "accepted":
                if getattr(me, "comparators", None) is None or list(me.comparators) != ops or getattr(me, "op_token", None) != optok:
                    pr.append("operands kept for a three-term `%s` chain are %s" % (optok, [getattr(o, "tag", o) for o in (getattr(me, "comparators", None) or [])]))
        ctx.decide(not pr, "C12-R8", init, SEL, "BinaryInfixOperand.__init__", "three-term chains: all operands kept; boolean chains with any literal and comparison chains of literals only are refused (6 cases)", "", "; ".join(pr)[:400])
    except TUnsupported as e:
        ctx.undecided("C12-R8", init, SEL, "BinaryInfixOperand.__init__", "operand chains", "not evaluable: %s" % e)
    try:
        pr = []
        for optok, opobj in (("and", BOOL), ("<", CMP)):
            ops = [operand(k, False) for k in range(3)]
            me = Obj(keyword_aliases={"and": BOOL, "<": CMP}, op_token=optok, comparators=ops)
            made = []

            def node(kind):
                def f(ev_, call):
                    kw = {k.arg: ev_.ex(k.value) for k in call.keywords}
                    made.append((kind, kw))
                    return Obj(tag=kind, **kw)
                return f
            ev = TenSym({}, models={"ast.BoolOp": node("BoolOp"), "ast.Compare": node("Compare")})
            got = ev.run_fn(astf, self=me)
            if len(made) != 1 or not isinstance(got, Obj):
                pr.append("`%s`: %d nodes built" % (optok, len(made)))
                continue
            kind, kw = made[0]
            allops = ["ast(t0)", "ast(t1)", "ast(t2)"]
            if optok == "and":
                if kind != "BoolOp" or list(kw.get("values") or []) != allops or kw.get("op") is not BOOL:
                    pr.append("boolean chain becomes %s(%s)" % (kind, {k: v for k, v in kw.items() if k != "op"}))
            else:
                seq = [kw.get("left")] + list(kw.get("comparators") or [])
                if kind != "Compare" or seq != allops or list(kw.get("ops") or []) != [CMP]:
                    pr.append("comparison chain becomes %s(left=%s, comparators=%s, %d ops)" % (kind, kw.get("left"), kw.get("comparators"), len(kw.get("ops") or [])))
        ctx.decide(not pr, "C12-R8", astf, SEL, "BinaryInfixOperand.ast", "every operand of a chain enters the AST, in order (BoolOp.values / Compare.left + comparators)", "", "; ".join(pr)[:400])
    except TUnsupported as e:
        ctx.undecided("C12-R8", astf, SEL, "BinaryInfixOperand.ast", "generated node", "not evaluable: %s" % e)


def _r4_by_evaluation(ctx):
    """RangeCondition / InListCondition: __init__ and ast() evaluated (sa/tensym.py) on model tokens; the Python AST node that comes out is
    compared, field by field, with the meaning of the construct: `field low to high` -> low <= field <= high; `field v` -> field == v;
    `field v1 v2 ..` -> field in [v1, v2, ..]; a keyword without a value is refused."""
    from ..tensym import TenSym, Obj, Raised
    from ..pysym import Unsupported as PUnsupported

    def tok(name, kind="Keyword"):
        node = Obj(tag="ast of " + name)
        return Obj(tag=name, _isa=(kind,), ast=lambda: node, node=node)

    def node_models():
        def mk(kind, fields):
            def f(ev, call):
                vals = {}
                for k_, a_ in zip(fields, call.args):
                    vals[k_] = ev.ex(a_)
                for k in call.keywords:
                    vals[k.arg] = ev.ex(k.value)
                return Obj(tag=kind, kind=kind, **vals)
            return f
        m = {"ast.Compare": mk("Compare", ("left", "ops", "comparators")), "ast.List": mk("List", ("elts", "ctx")), "ast.Tuple": mk("Tuple", ("elts", "ctx")),
             "_check_n_tokens": lambda ev, call: None}
        for op in ("Eq", "NotEq", "In", "NotIn", "LtE", "Lt", "GtE", "Gt", "Load"):
            m["ast." + op] = mk(op, ())
        return m

    def build(cls, tokens):
        init = ctx.py.func(SEL, cls + ".__init__")
        astf = ctx.py.func(SEL, cls + ".ast")
        me = Obj(tag=cls)
        ts = TenSym(models=node_models())
        ts.run_fn(init, self=me, tokens=[list(tokens)])
        ts2 = TenSym(models=node_models())
        return ts2.run_fn(astf, self=me)

    def kinds(xs):
        return [getattr(x, "kind", None) for x in xs] if isinstance(xs, (list, tuple)) else None

    def show(n):
        if isinstance(n, Obj) and hasattr(n, "kind"):
            if n.kind == "Compare":
                return "Compare(left=%s, ops=%s, comparators=%s)" % (show(getattr(n, "left", None)), kinds(getattr(n, "ops", None)), [show(x) for x in (getattr(n, "comparators", None) or [])])
            if n.kind in ("List", "Tuple"):
                return "%s(%s)" % (n.kind, [show(x) for x in (getattr(n, "elts", None) or [])])
            return n.kind
        return getattr(n, "tag", repr(n))
    # ---- range
    f_, lo, hi = tok("field"), tok("low", "Literal"), tok("high", "Literal")
    fn = ctx.py.func(SEL, "RangeCondition.ast")
    try:
        n = build("RangeCondition", [f_, lo, "to", hi])
        ok = getattr(n, "kind", None) == "Compare" and getattr(n, "left", None) is lo.node and kinds(getattr(n, "ops", None)) == ["LtE", "LtE"] and \
            isinstance(getattr(n, "comparators", None), list) and len(n.comparators) == 2 and n.comparators[0] is f_.node and n.comparators[1] is hi.node
        ctx.decide(ok, "C12-R4", fn, SEL, "RangeCondition.ast", "`field low to high` -> low <= field <= high", "", "the node built is %s" % show(n))
    except PUnsupported as e:
        ctx.undecided("C12-R4", fn, SEL, "RangeCondition.ast", "`field low to high` -> low <= field <= high", "not evaluable: %s" % e)
    try:
        build("RangeCondition", [tok("lit", "Literal"), lo, "to", hi])
        ctx.violated("C12-R4", fn, SEL, "RangeCondition.__init__", "a literal cannot be range-tested", "`'x' 1 to 5` is accepted")
    except Raised as e:
        ctx.holds("C12-R4", fn, SEL, "RangeCondition.__init__", "a literal cannot be range-tested", "raises %s" % e.exc[:40])
    except PUnsupported as e:
        ctx.undecided("C12-R4", fn, SEL, "RangeCondition.__init__", "a literal cannot be range-tested", "not evaluable: %s" % e)
    # ---- implicit equality / list
    fn = ctx.py.func(SEL, "InListCondition.ast")
    fn0 = ctx.py.func(SEL, "InListCondition.__init__")
    v = [tok("v%d" % k, "Literal") for k in range(3)]
    try:
        n = build("InListCondition", [f_, v[0]])
        ok = getattr(n, "kind", None) == "Compare" and getattr(n, "left", None) is f_.node and kinds(getattr(n, "ops", None)) == ["Eq"] and \
            isinstance(getattr(n, "comparators", None), list) and len(n.comparators) == 1 and n.comparators[0] is v[0].node
        ctx.decide(ok, "C12-R4", fn, SEL, "InListCondition.ast", "`field v` -> field == v", "", "the node built is %s" % show(n))
    except PUnsupported as e:
        ctx.undecided("C12-R4", fn, SEL, "InListCondition.ast", "`field v` -> field == v", "not evaluable: %s" % e)
    for k in (2, 3):
        try:
            n = build("InListCondition", [f_] + v[:k])
            cmp_ = getattr(n, "comparators", None)
            ok = getattr(n, "kind", None) == "Compare" and getattr(n, "left", None) is f_.node and kinds(getattr(n, "ops", None)) == ["In"] and isinstance(cmp_, list) and len(cmp_) == 1 and \
                getattr(cmp_[0], "kind", None) in ("List", "Tuple") and isinstance(getattr(cmp_[0], "elts", None), list) and len(cmp_[0].elts) == k and all(x is y.node for x, y in zip(cmp_[0].elts, v)) and \
                getattr(getattr(cmp_[0], "ctx", None), "kind", None) == "Load"
            ctx.decide(ok, "C12-R4", fn, SEL, "InListCondition.ast", "`field v1 .. v%d` -> field in [v1, .., v%d]" % (k, k), "", "the node built is %s" % show(n))
        except PUnsupported as e:
            ctx.undecided("C12-R4", fn, SEL, "InListCondition.ast", "`field v1 .. v%d` -> field in [..]" % k, "not evaluable: %s" % e)
    try:
        build("InListCondition", [f_])
        ctx.violated("C12-R4", fn0, SEL, "InListCondition.__init__", "a keyword without a value is refused", "`field` alone is accepted as an `in` condition")
    except Raised as e:
        ctx.holds("C12-R4", fn0, SEL, "InListCondition.__init__", "a keyword without a value is refused", "raises %s" % e.exc[:40])
    except PUnsupported as e:
        ctx.undecided("C12-R4", fn0, SEL, "InListCondition.__init__", "a keyword without a value is refused", "not evaluable: %s" % e)


def _regex_by_evaluation(ctx):
    """RegexInfixOperand: `field =~ pattern` must become  re.match(pattern, field) is not None  - __init__ and ast() evaluated on model tokens."""
    from ..tensym import TenSym, Obj, Raised
    from ..pysym import Unsupported as PUnsupported
    fn = ctx.py.func(SEL, "RegexInfixOperand.ast")
    init = ctx.py.func(SEL, "RegexInfixOperand.__init__")

    def tok(name, kind):
        node = Obj(tag="ast of " + name)
        return Obj(tag=name, _isa=(kind,), ast=lambda: node, node=node)

    def mk(kind, fields):
        def f(ev, call):
            vals = {}
            for k_, a_ in zip(fields, call.args):
                vals[k_] = ev.ex(a_)
            for k in call.keywords:
                vals[k.arg] = ev.ex(k.value)
            return Obj(tag=kind, kind=kind, **vals)
        return f
    models = {"ast.Compare": mk("Compare", ("left", "ops", "comparators")), "ast.Call": mk("Call", ("func", "args", "keywords")), "ast.Attribute": mk("Attribute", ("value", "attr", "ctx")),
              "ast.Name": mk("Name", ("id", "ctx")), "ast.Constant": mk("Constant", ("value",)), "ast.NameConstant": mk("Constant", ("value",)), "_check_n_tokens": lambda ev, call: None}
    for op in ("Eq", "NotEq", "Is", "IsNot", "In", "NotIn", "Load"):
        models["ast." + op] = mk(op, ())
    remod = Obj(tag="RE_MODULE")
    field, pat = tok("field", "Keyword"), tok("pattern", "Literal")
    desc = "`field =~ pattern` -> re.match(pattern, field) is not None"
    try:
        me = Obj(tag="RegexInfixOperand")
        TenSym({"RE_MODULE": remod}, models=dict(models)).run_fn(init, self=me, tokens=[[field, "=~", pat]])
        n = TenSym({"RE_MODULE": remod}, models=dict(models)).run_fn(fn, self=me)
    except PUnsupported as e:
        ctx.undecided("C12-R2", fn, SEL, "RegexInfixOperand.ast", desc, "not evaluable: %s" % e)
        return
    g = lambda o, a_: getattr(o, a_, None)      # noqa: E731
    left = g(n, "left")
    func = g(left, "func")
    args = g(left, "args")
    ops = g(n, "ops")
    comps = g(n, "comparators")
    none_ = comps[0] if isinstance(comps, list) and len(comps) == 1 else None
    is_none = (g(none_, "kind") == "Name" and g(none_, "id") == "None") or (g(none_, "kind") == "Constant" and hasattr(none_, "value") and none_.value is None)
    checks = [("a comparison node", g(n, "kind") == "Compare"), ("left side is a call", g(left, "kind") == "Call"),
              ("the function is the attribute `match` of the re module", g(func, "kind") == "Attribute" and g(func, "value") is remod and g(func, "attr") == "match"),
              ("arguments (pattern, field) in that order", isinstance(args, list) and len(args) == 2 and args[0] is pat.node and args[1] is field.node),
              ("operator `is not`", isinstance(ops, list) and [g(o, "kind") for o in ops] == ["IsNot"]), ("compared with None", bool(is_none))]
    bad = [t for t, ok in checks if not ok]
    ctx.decide(not bad, "C12-R2", fn, SEL, "RegexInfixOperand.ast", desc, "", "the node built fails: %s" % "; ".join(bad))
    try:
        TenSym({"RE_MODULE": remod}, models=dict(models)).run_fn(init, self=Obj(tag="x"), tokens=[[tok("lit", "Literal"), "=~", pat]])
        ctx.violated("C12-R2", init, SEL, "RegexInfixOperand.__init__", "a literal on the left of =~ is refused", "`'abc' =~ 'a.*'` is accepted")
    except Raised as e:
        ctx.holds("C12-R2", init, SEL, "RegexInfixOperand.__init__", "a literal on the left of =~ is refused", "raises %s" % e.exc[:40])
    except PUnsupported as e:
        ctx.undecided("C12-R2", init, SEL, "RegexInfixOperand.__init__", "a literal on the left of =~ is refused", "not evaluable: %s" % e)
