"""C13  Solvent-accessible areas are correct, additive and selection-independent (structural part).

R1 the per-frame accumulator starts from zero (shared engine with C08-R2)
R2 mask semantics: -1 for unselected groups, 0 for groups with a selected atom (Python); unselected atoms are skipped as *targets* only (C++)
R3 blockers are selection-independent: the neighbour search of asa_frame ranges over all atoms and never reads the mask
R4 residue mode sums over a contiguous mapping; change_radii works on a copy; radii = table + probe; area = count * 4*pi/n * r^2;
   argument order through the three layers (sasa.py -> _geometry._sasa -> sasa())
"""
from __future__ import annotations

import ast
import re

from ..core import AnalysisError
from .. import cfront as C
from ..pyfront import dotted, call_name, kwarg, params, src, walk_no_nested, const, param_default
from . import c08

EXPLANATION = (
    'shrake_rupley is evaluated as a whole (sa/tensym.py) on a model trajectory of 5 atoms in 3 residues for atom / residue mode x (no selection, a selection, the empty selection) x changed radii, with probe 0 and radius 0 as extra cases: what the kernel receives in each role (roles read off the C call in the Cython wrapper) and what is returned, the kernel summarised as out[f, map[i]] += area(f, i) for selected i.  asa_frame is decided by value numbering of one generic iteration of each loop with path conditions decoded by value: target skipped iff mask[i] == 0; j a blocker iff j != i and |x_i - x_j|^2 < (R_i + R_j)^2 whatever the mask says about j; a point x_i + R_i s counted iff outside the blocker examined; area = count * 4 pi / n * R_i^2.  No kernel keeps a function-local static.  Further: '
    "Mask and accumulator discipline of shrake_rupley decided on the source of the three layers (sasa.py, the Cython wrapper, "
    "sasa.cpp through clang): first-access classification of the per-thread output buffer, a taint check that the selection "
    "mask reaches only the target loop's skip test, the -1 / 0 initialisation of the output, the residue mapping and its "
    "contiguity check, non-mutation of the module-level radii table, the area formula's literals, and positional agreement "
    "of the arguments across the Python / Cython / C boundary against the real C prototype.")
NOT_DECIDED = ["quadrature accuracy of the golden-spiral point set (numerical)", "analytic cap areas of overlapping spheres (numerical)"]
ASSUMPTIONS = ["radii are positive (a bound M >= R_j then gives (R_i + R_j)^2 <= (R_i + M)^2)", "documented: area of an isolated atom = 4*pi*(r+probe)^2; unselected atoms / residues without selected atoms are reported as -1"]
FLOORS = {"C13-R1": 1, "C13-R2": 20, "C13-R3": 2, "C13-R4": 50, "C13-R5": 3}

SP = "mdtraj/geometry/sasa.py"
SC = "mdtraj/geometry/src/sasa.cpp"
GP = "mdtraj/geometry/src/_geometry.pyx"


def check(ctx):
    ctx.rule("C13-R1", "the buffer asa_frame accumulates into is re-initialised for every frame")
    ctx.rule("C13-R2", "output is -1 where nothing is selected and 0 for groups with a selected atom; in asa_frame an unselected atom is skipped only as target")
    ctx.rule("C13-R3", "the neighbour (blocker) loops of asa_frame range over all atoms and do not depend on the selection mask")
    ctx.rule("C13-R4", "residue mode maps atoms to contiguous residue indices and sums; change_radii edits a copy; radii = table + probe; area = n_accessible * 4*pi/n_points * r^2; "
                       "arguments keep their meaning across sasa.py -> _sasa -> sasa()")
    cf = C.get(ctx.repo)
    ctx.analysed_files.add(SC)

    # ---- R1: reuse the C08 engine on sasa only
    before = len(ctx.obs)
    sub = type(ctx)(ctx.prop, ctx.repo, ctx.tier)
    c08._r2(sub, cf)
    got = [o for o in sub.obs if o.func == "sasa"]
    if not got:
        raise AnalysisError("C13-R1: no scratch buffer crossing the frame loop of sasa() found")
    for o in got:
        ctx.ob("C13-R1", o.line, o.file, o.func, o.construct, o.verdict, o.why)

    c08.no_state_between_calls(ctx, cf, "C13-R1")       # a table or buffer kept between calls makes an area depend on the calls before it
    # ---- R2 / R4 python side: shrake_rupley evaluated as a whole
    fn = ctx.py.func(SP, "shrake_rupley")
    _shrake_rupley_by_evaluation(ctx, cf)
    ctx.rule("C13-R5", "quadrature points are the golden-section spiral (y_i = (2i+1)/n - 1, r = sqrt(1-y^2), phi = i*pi*(3-sqrt5)); the blocker pre-filter keeps exactly the atoms with r2 < (R_i+R_j)^2")
    from .c05 import no_foreign_attribute_stores
    no_foreign_attribute_stores(ctx, "C13-R2", [SP], floor=1)
    r5(ctx, cf)
    # ---- R2 / R3 / R4 / R5 C++ side: one generic iteration of every loop of asa_frame, by value
    af = cf.function(SC, "asa_frame")
    asa_frame_by_value(ctx, cf)

    # ---- R4
    d = param_default(fn, "probe_radius")
    d2 = param_default(fn, "n_sphere_points")
    ctx.decide(const(d) == 0.14 and const(d2) == 960, "C13-R4", fn, SP, "shrake_rupley", "defaults probe 0.14 nm, 960 points", "", "defaults are %s / %s" % (const(d), const(d2)))
    # accumulation into groups
    sf = cf.function(SC, "sasa")
    # by role, not by name: the per-atom buffer is what asa_frame fills (its last argument); the row of the output is out + n_groups * frame;
    # the accumulation is row[atom_mapping[j]] += buffer[j] with one j
    sp = C.fparams(sf)
    if len(sp) != 9:
        raise AnalysisError("sasa(): %d parameters (9 expected)" % len(sp))
    p_map, p_ngroups, p_out = sp[5].get("id"), sp[7].get("id"), sp[8].get("id")
    calls_af = list({(C.line(n), C.text(n)): n for n in C.walk(sf) if n["kind"] == "CallExpr" and C.callee_name(n) == "asa_frame"}.values())   # (an OpenMP region lists its body twice)
    buf_id = C.ref_id(C.call_args(calls_af[0])[-1]) if len(calls_af) == 1 and C.call_args(calls_af[0]) else None
    frame_loops = [n for n in C.walk(sf) if n["kind"] == "ForStmt" and any(x is calls_af[0] for x in C.walk(n))] if len(calls_af) == 1 else []
    frame_var = None
    if frame_loops:
        init = [x for x in frame_loops[-1].get("inner", []) if isinstance(x, dict) and "kind" in x][0]
        frame_var = C.ref_id(C.kids(init)[0]) if init.get("kind") == "BinaryOperator" else next((v.get("id") for v in C.kids(init) if v["kind"] == "VarDecl"), None)

    def factors(n):
        n = C.strip(n)
        if n.get("kind") == "BinaryOperator" and n.get("opcode") == "*":
            return factors(C.kids(n)[0]) + factors(C.kids(n)[1])
        return [C.ref_id(n)]
    rows = {}       # variable id -> True when it is assigned out + n_groups * frame
    for n in C.walk(sf):
        tgt = val = None
        if n["kind"] == "BinaryOperator" and n.get("opcode") == "=":
            tgt, val = C.ref_id(C.kids(n)[0]), C.strip(C.kids(n)[1])
        elif n["kind"] == "VarDecl" and C.kids(n):
            tgt, val = n.get("id"), C.strip(C.kids(n)[-1])
        if tgt is None or val is None or val.get("kind") != "BinaryOperator" or val.get("opcode") != "+":
            continue
        a_, b_ = C.kids(val)
        for base, off in ((a_, b_), (b_, a_)):
            if C.ref_id(base) == p_out and sorted(map(str, factors(off))) == sorted(map(str, [p_ngroups, frame_var])):
                rows[tgt] = True
    acc = []
    for n in C.walk(sf):
        if n["kind"] == "CompoundAssignOperator" and n.get("opcode") == "+=":
            lhs, rhs = C.strip(C.kids(n)[0]), C.strip(C.kids(n)[1])
            if lhs.get("kind") == "ArraySubscriptExpr" and rhs.get("kind") == "ArraySubscriptExpr":
                lb, li = C.kids(lhs)
                rb, ri = C.kids(rhs)
                li = C.strip(li)
                if li.get("kind") == "DeclRefExpr":
                    # the group index held in a local that is initialised once (`const int group = atom_mapping[atom]`) and never assigned again
                    vd = next((v for v in C.walk(sf) if v["kind"] == "VarDecl" and v.get("id") == C.ref_id(li) and C.kids(v)), None)
                    reassigned = any(x_["kind"] in ("BinaryOperator", "CompoundAssignOperator") and x_.get("opcode", "").endswith("=") and x_.get("opcode") not in ("==", "!=", "<=", ">=")
                                     and C.ref_id(C.kids(x_)[0]) == C.ref_id(li) for x_ in C.walk(sf))
                    if vd is not None and not reassigned:
                        li = C.strip(C.kids(vd)[-1])
                if C.ref_id(rb) == buf_id and li.get("kind") == "ArraySubscriptExpr" and C.ref_id(C.kids(li)[0]) == p_map:
                    acc.append((n, rows.get(C.ref_id(lb), False), C.ref_id(C.kids(li)[1]) is not None and C.ref_id(C.kids(li)[1]) == C.ref_id(ri)))
    # an OpenMP region lists its body twice in the AST (captured statement and original): one statement, seen twice
    uniq = {}
    for a_ in acc:
        uniq.setdefault((C.line(a_[0]), C.text(a_[0])), a_)
    acc = list(uniq.values())
    ok = len(acc) == 1 and acc[0][1] and acc[0][2] and buf_id is not None
    ctx.decide(ok, "C13-R4", C.line(acc[0][0]) if acc else C.line(sf), SC, "sasa", "out[frame, atom_mapping[j]] += area of atom j (the buffer asa_frame filled)", "",
               "the group accumulation is %s" % ("not found" if not acc else "`%s` (row of the output = out + n_groups * frame: %s; same atom index on both sides: %s)" % (C.text(acc[0][0]), acc[0][1], acc[0][2])))
    # argument order across the layers
    pw = ctx.py.func(GP, "_sasa")
    pp = params(pw)
    ccall = [n for n in walk_no_nested(pw) if isinstance(n, ast.Call) and call_name(n) == "sasa"]
    cargs = [re.sub(r"\[.*\]$", "", src(a)) for a in ccall[0].args] if ccall else []
    cps = [p.get("name") for p in C.fparams(sf)]
    alias = {"xyzlist": "xyz", "atom_mapping": "atom_outmapping", "n_groups": "out.shape"}
    ok = len(cargs) == len(cps) and all(a == alias.get(p, p) for a, p in zip(cargs, cps))
    ctx.decide(ok, "C13-R4", ccall[0] if ccall else pw, GP, "_sasa", "arguments of sasa() match the C prototype positionally", "%s" % cps,
               "the wrapper passes %s to sasa(%s)" % (cargs, ", ".join(cps)))


# ---------------------------------------------------------------------------------------------------
# R5: value numbering of the quadrature points and of the neighbour pre-filter
# ---------------------------------------------------------------------------------------------------
def r5(ctx, cf):
    from ..symval import SymExec, State, Unsupported
    from ..poly import Poly, Rat
    fn = cf.function(SC, "generate_sphere_points")
    ctx.analysed_functions.add(SC + ":generate_sphere_points")
    body = C.kids(C.body_of(fn))
    loops = [i for i, s in enumerate(body) if s["kind"] == "ForStmt"]
    if len(loops) != 1:
        raise AnalysisError("generate_sphere_points: expected one loop")
    lp = body[loops[0]]
    init = [x for x in lp.get("inner", []) if isinstance(x, dict) and "kind" in x][0]
    lv = C.ref_name(C.kids(init)[0]) if init.get("kind") == "BinaryOperator" else ([v.get("name") for v in C.kids(init) if v["kind"] == "VarDecl"] or [None])[0]
    if lv is None:
        raise AnalysisError("generate_sphere_points: loop variable not recognised")
    ex = SymExec(cf, SC, symbolic_loops={lv})
    try:
        st = ex.run(body, State())[0]
    except Unsupported as e:
        raise AnalysisError("generate_sphere_points: %s" % e)
    npar = [p_.get("name") for p_ in C.fparams(fn)]
    i, n = Rat(Poly.var(lv)), Rat(Poly.var(npar[1] if len(npar) > 1 else "n_points"))
    # the loop variable is identified by the loop header, the stored coordinates by the output array: no local name is consulted

    def opq(v):
        """(function, args) when v is a single opaque call symbol"""
        p = v.poly() if v is not None else None
        if p is not None and len(p.t) == 1:
            (m, c), = p.t.items()
            if c == 1 and len(m) == 1 and m[0][1] == 1:
                return ex.opaque.get(m[0][0])
        return None
    x0, y0, z0 = (st.env.get((npar[0], k)) for k in (repr(3 * i), repr(3 * i + 1), repr(3 * i + 2)))
    want_y = (2 * i + 1) / n - 1
    ctx.decide(y0 is not None and y0 == want_y, "C13-R5", C.line(fn), SC, "generate_sphere_points", "y_i = (2i+1)/n - 1", "levels symmetric about the equator for every n",
               "the level of point i is %r; the golden-section spiral the documentation cites uses (2i+1)/n - 1 (levels symmetric about the equator for every n, odd or even)" % (y0,))
    okx = False
    why = "stored x, z are %r, %r" % (x0, z0)
    if x0 is not None and z0 is not None and y0 is not None:
        # x0 = cos(phi) * r, z0 = sin(phi) * r with r = sqrt(1 - y^2), phi = i * pi (3 - sqrt 5)
        vx, vz = sorted(x0.vars()), sorted(z0.vars())
        fx = [ex.opaque.get(v) for v in vx]
        fz = [ex.opaque.get(v) for v in vz]
        cosf = [f for f in fx if f and f[0] == "cos"]
        sinf = [f for f in fz if f and f[0] == "sin"]
        rx = [f for f in fx if f and f[0] == "sqrt"]
        rz = [f for f in fz if f and f[0] == "sqrt"]
        if len(cosf) == 1 and len(sinf) == 1 and len(rx) == 1 and len(rz) == 1 and len(vx) == 2 and len(vz) == 2:
            phi = cosf[0][1][0]
            r_ok = rx[0][1][0] == 1 - y0 * y0 and rz[0][1][0] == 1 - y0 * y0
            same_phi = sinf[0][1][0] == phi
            prod_ok = x0 == ex.opaque_call("cos", [phi]) * ex.opaque_call("sqrt", [1 - y0 * y0]) and z0 == ex.opaque_call("sin", [phi]) * ex.opaque_call("sqrt", [1 - y0 * y0])
            inc_ok = False
            pv = sorted(phi.vars() - {lv})
            if phi.poly() is not None and len(pv) == 1 and phi.poly().degree() == 2:
                sv = pv[0]
                g = ex.opaque.get(sv)
                c1 = phi.poly().coeff_of(lv, 1)
                if g and g[0] == "sqrt" and g[1][0] == 5 and phi.poly().coeff_of(lv, 0).is_zero():
                    a1 = c1.coeff_of(sv, 1).const_value()
                    a0 = c1.coeff_of(sv, 0).const_value()
                    inc_ok = a1 is not None and a0 is not None and abs(float(a1) + 3.141592653589793) < 1e-6 and abs(float(a0) - 3 * 3.141592653589793) < 1e-6
            okx = r_ok and same_phi and prod_ok and inc_ok
            why = "r ok %s, same angle in x and z %s, product form %s, angle = i*pi*(3-sqrt 5) %s" % (r_ok, same_phi, prod_ok, inc_ok)
    ctx.decide(okx, "C13-R5", C.line(fn), SC, "generate_sphere_points", "point i = (r cos phi, y, r sin phi), r = sqrt(1 - y^2), phi = i pi (3 - sqrt 5)", "", "the stored point is not on the golden-section spiral: %s" % why)


def _sasa_roles(ctx, cf):
    """position, in the signature of the pyx wrapper _sasa, of the argument that reaches each parameter of the C function sasa()"""
    pw = ctx.py.func(GP, "_sasa")
    pp = params(pw)
    sf = cf.function(SC, "sasa")
    cps = [p.get("name") for p in C.fparams(sf)]
    ccall = [n for n in walk_no_nested(pw) if isinstance(n, ast.Call) and call_name(n) == "sasa"]
    if len(ccall) != 1 or len(ccall[0].args) != len(cps):
        raise AnalysisError("_sasa does not call sasa() once with %d arguments" % len(cps))
    roles = {}
    for cp, a_ in zip(cps, ccall[0].args):
        names = [x.id for x in ast.walk(a_) if isinstance(x, ast.Name) and x.id in pp]
        if len(set(names)) == 1 and not (isinstance(a_, ast.Attribute) or ".shape" in src(a_)):
            roles[cp] = pp.index(names[0])
    need = ("xyzlist", "atom_radii", "n_sphere_points", "atom_mapping", "atom_selection_mask", "out")
    if any(r_ not in roles for r_ in need) or len({roles[r_] for r_ in need}) != 6:
        raise AnalysisError("the parameters of _sasa that reach %s of sasa() were not found (%s)" % (need, roles))
    return {r_: roles[r_] for r_ in need}, pp


def _shrake_rupley_by_evaluation(ctx, cf):
    """shrake_rupley evaluated (sa/tensym.py) on a model trajectory of 5 atoms in 3 residues, 2 frames, for atom / residue mode, with and
    without a selection, with and without change_radii.  The kernel is summarised by what the C side is shown to do (C13-R2..R4 on sasa.cpp):
    out[f, mapping[i]] += area(f, i) for every atom i whose mask entry is 1.  Decided on the values: what the kernel receives in each role
    (coordinates, table radius + probe per atom, identity / residue-index mapping, indicator mask of the selection, an output pre-set to 0 for
    groups with a selected atom and -1 elsewhere) and what is returned."""
    from ..tensym import TenSym, Ten, Obj, Raised, ShapeError
    from ..pysym import Unsupported as PUnsupported
    from ..poly import Poly, Rat
    fn = ctx.py.func(SP, "shrake_rupley")
    q = "shrake_rupley"
    try:
        roles, pp = _sasa_roles(ctx, cf)
    except AnalysisError as e:
        ctx.undecided("C13-R4", fn, SP, q, "roles of the parameters of _geometry._sasa", str(e))
        return
    elems = ["C", "N", "C", "O", "H"]
    resid = [0, 0, 1, 1, 2]
    F_, N_, G_ = 2, 5, 3
    var = lambda n_: Rat(Poly.var(n_))      # noqa: E731

    def run(mode, ai, cr, gm=False, resid_=resid, probe=None):
        residues = [Obj(index=k) for k in sorted(set(resid_))]
        by = {r_.index: r_ for r_ in residues}
        atoms = [Obj(index=i, element=Obj(symbol=e, radius=var("vdw_radius_attribute_of_" + e)), residue=by[resid_[i]]) for i, e in enumerate(elems)]
        top = Obj(atoms=atoms, residues=residues)
        traj = Obj(xyz=Ten.sym("x", (F_, N_, 3)), n_atoms=N_, n_residues=len(residues), top=top, topology=top)
        table = {e: var("R_" + e) for e in ("C", "N", "O", "H", "S")}
        rec = {"table": table, "table0": dict(table)}

        def kernel(ev, call):
            args = [ev.ex(a_) for a_ in call.args]
            for k in call.keywords:
                if k.arg in pp:
                    while len(args) <= pp.index(k.arg):
                        args.append(None)
                    args[pp.index(k.arg)] = ev.ex(k.value)
            got = {r_: (args[p_] if p_ < len(args) else None) for r_, p_ in roles.items()}
            rec["n_calls"] = rec.get("n_calls", 0) + 1
            rec["at_call"] = {r_: (Ten(v.shape, list(v.data)) if isinstance(v, Ten) else v) for r_, v in got.items()}
            out, mp, mk = got["out"], got["atom_mapping"], got["atom_selection_mask"]
            if not (isinstance(out, Ten) and out.ndim == 2 and isinstance(mp, Ten) and isinstance(mk, Ten) and mp.shape == (N_,) and mk.shape == (N_,)):
                raise PUnsupported("the kernel does not receive arrays of the expected ranks")
            for f in range(out.shape[0]):
                for i in range(N_):
                    g, sel = mp.data[i].const_value(), mk.data[i].const_value()
                    if g is None or sel is None or not (0 <= int(g) < out.shape[1]):
                        raise PUnsupported("mapping / mask entries are not concrete group indices")
                    if sel != 0:
                        out.data[f * out.shape[1] + int(g)] = out.data[f * out.shape[1] + int(g)] + var("area[%d,%d]" % (f, i))
            rec["out_obj"] = out
        ts = TenSym({"_ATOMIC_RADII": table}, models={"_geometry._sasa": kernel, "ensure_type": lambda ev, c: ev.ex(c.args[0]),
                                                     "deepcopy": lambda ev, c: dict(ev.ex(c.args[0])), "copy.deepcopy": lambda ev, c: dict(ev.ex(c.args[0]))})
        r = ts.run_fn(fn, traj=traj, probe_radius=var("probe") if probe is None else probe, n_sphere_points=960, mode=mode, change_radii=cr, get_mapping=gm, atom_indices=ai)
        return ts, r, rec, traj
    n_cfg = 0
    for mode in ("atom", "residue"):
        for ai in ((None, [1, 3], []) if ctx.tier != "thorough" else (None, [1, 3], [], [0], [4], [2, 3], [0, 1, 2, 3, 4], [3, 1])):
            for cr in (None, {"C": var("newC")}):
                if ai == [] and cr:
                    continue
                cfg_ = "mode=%s, atom_indices=%s, change_radii=%s" % (mode, ai, "{'C': newC}" if cr else None)
                try:
                    ts, r, rec, traj = run(mode, ai, dict(cr) if cr else None)
                except PUnsupported as e:
                    ctx.undecided("C13-R4", fn, SP, q, cfg_, "not evaluable: %s" % e)
                    ctx.undecided("C13-R2", fn, SP, q, cfg_, "not evaluable: %s" % e)
                    continue
                n_cfg += 1
                if rec.get("n_calls") != 1:
                    ctx.violated("C13-R4", fn, SP, q, cfg_ + ": one kernel call", "_geometry._sasa is called %s times" % rec.get("n_calls", 0))
                    continue
                at = rec["at_call"]
                mapping = list(range(N_)) if mode == "atom" else list(resid)
                ngrp = N_ if mode == "atom" else G_
                sel = [1] * N_ if ai is None else [int(i in ai) for i in range(N_)]

                def ints(t):
                    v = [x.const_value() for x in t.data] if isinstance(t, Ten) else None
                    return None if v is None or any(c is None for c in v) else [int(c) for c in v]
                ctx.decide(isinstance(at["xyzlist"], Ten) and ts.first_difference(at["xyzlist"], traj.xyz) is None, "C13-R4", fn, SP, q, cfg_ + ": the kernel works on traj.xyz", "", "the coordinates handed to the kernel are not traj.xyz")
                wr = [(cr["C"] if (cr and elems[i] == "C") else var("R_" + elems[i])) + var("probe") for i in range(N_)]
                ok = isinstance(at["atom_radii"], Ten) and at["atom_radii"].shape == (N_,) and all(ts.equal(x, y) for x, y in zip(at["atom_radii"].data, wr))
                ctx.decide(ok, "C13-R4", fn, SP, q, cfg_ + ": radius of atom i = table[element of i] (changed entries replaced) + probe", "",
                           "the radii handed to the kernel are %s" % (at["atom_radii"].data if isinstance(at["atom_radii"], Ten) else at["atom_radii"],))
                npts = at["n_sphere_points"]
                ctx.decide((npts.const_value() if hasattr(npts, "const_value") else npts) == 960, "C13-R4", fn, SP, q, cfg_ + ": n_sphere_points passed on", "", "the kernel receives n_sphere_points=%r" % (npts,))
                ctx.decide(ints(at["atom_mapping"]) == mapping, "C13-R4", fn, SP, q, cfg_ + ": mapping = %s" % ("identity" if mode == "atom" else "atom -> index of its residue"), "",
                           "the mapping handed to the kernel is %s, expected %s" % (ints(at["atom_mapping"]), mapping))
                ctx.decide(ints(at["atom_selection_mask"]) == sel, "C13-R2", fn, SP, q, cfg_ + ": mask[i] = 1 iff atom i is selected", "",
                           "the selection mask is %s, the indicator of the selection is %s" % (ints(at["atom_selection_mask"]), sel))
                init = [0 if any(sel[i] and mapping[i] == g for i in range(N_)) else -1 for g in range(ngrp)]
                o0 = at["out"]
                ok = isinstance(o0, Ten) and o0.shape == (F_, ngrp) and ints(o0) == init * F_
                ctx.decide(ok, "C13-R2", fn, SP, q, cfg_ + ": output starts at 0 for groups with a selected atom, -1 elsewhere", "",
                           "the output handed to the kernel is %s of shape %s; expected rows %s (a group that starts at -1 and receives areas is off by one, a group that starts at 0 and "
                           "receives nothing is reported as buried instead of not selected)" % (ints(o0), getattr(o0, "shape", None), init))
                want = Ten((F_, ngrp), [sum((var("area[%d,%d]" % (f, i)) for i in range(N_) if sel[i] and mapping[i] == g), Rat(Poly.const(init[g]))) for f in range(F_) for g in range(ngrp)])
                res = r
                ok = isinstance(res, Ten) and res.shape == want.shape and ts.first_difference(res, want) is None
                ctx.decide(ok, "C13-R4", fn, SP, q, cfg_ + ": returns the array the kernel filled (group sums of the selected atoms, -1 for groups without one)", "",
                           "the value returned %s" % ("is not the (n_frames, n_groups) output" if not (isinstance(res, Ten) and res.shape == want.shape) else ts.first_difference(res, want)))
                ctx.decide(rec["table"] == rec["table0"], "C13-R4", fn, SP, q, cfg_ + ": the module-level radii table is left as it was", "",
                           "_ATOMIC_RADII is modified in place (%s): change_radii leaks into later calls" % sorted(k for k in rec["table"] if rec["table"].get(k) != rec["table0"].get(k)))
    # the values a caller may pass that are falsy in Python: probe_radius = 0 (van der Waals surface) and a changed radius of 0
    for what, kw_, wantf in (("probe_radius = 0: radii are the table radii", dict(probe=Rat(Poly.const(0)), cr=None), lambda e: var("R_" + e)),
                             ("change_radii={'C': 0}: carbon gets radius 0 + probe", dict(probe=None, cr={"C": Rat(Poly.const(0))}), lambda e: (Rat(Poly.const(0)) if e == "C" else var("R_" + e)) + var("probe"))):
        try:
            ts, r, rec, traj = run("atom", None, kw_["cr"], probe=kw_["probe"])
            got = rec.get("at_call", {}).get("atom_radii")
            ok = isinstance(got, Ten) and got.shape == (N_,) and all(ts.equal(x, wantf(elems[i])) for i, x in enumerate(got.data))
            ctx.decide(ok, "C13-R4", fn, SP, q, what, "", "the radii handed to the kernel are %s: a zero was taken for 'not given'" % ([repr(x) for x in got.data] if isinstance(got, Ten) else got,))
        except PUnsupported as e:
            ctx.undecided("C13-R4", fn, SP, q, what, "not evaluable: %s" % e)
    # get_mapping=True returns (areas, mapping)
    try:
        ts, r, rec, traj = run("residue", None, None, gm=True)
        ok = isinstance(r, (tuple, list)) and len(r) == 2 and r[0] is rec.get("out_obj") and isinstance(r[1], Ten) and [x.const_value() for x in r[1].data] == resid
        ctx.decide(ok, "C13-R4", fn, SP, q, "get_mapping=True returns (areas, atom -> group mapping)", "", "with get_mapping=True the return value is not (areas, mapping)")
    except PUnsupported as e:
        ctx.undecided("C13-R4", fn, SP, q, "get_mapping=True", "not evaluable: %s" % e)
    # residue indices that are not 0..n-1 are refused; an unknown mode is refused
    for what, kw_ in (("residue indices with a gap are refused", dict(mode="residue", resid_=[0, 0, 2, 2, 3])), ("an unknown mode is refused", dict(mode="group"))):
        try:
            run(kw_["mode"], None, None, resid_=kw_.get("resid_", resid))
            ctx.violated("C13-R4", fn, SP, q, what, "no error is raised")
        except Raised as e:
            ctx.holds("C13-R4", fn, SP, q, what, "raises %s" % e.exc[:40])
        except ShapeError as e:
            ctx.holds("C13-R4", fn, SP, q, what, "numpy raises: %s" % e)      # unique(mapping) == arange(max + 1) with arrays of different lengths
        except PUnsupported as e:
            ctx.undecided("C13-R4", fn, SP, q, what, "not evaluable: %s" % e)
    if n_cfg < (10 if ctx.tier != "thorough" else 30):
        ctx.undecided("C13-R4", fn, SP, q, "configurations", "only %d of 10 configurations evaluated" % n_cfg)


def asa_frame_by_value(ctx, cf):
    """asa_frame evaluated by value numbering (sa/symval.py) for one generic iteration of each of its loops.  The parameters are taken by
    position (frame, n_atoms, radii, sphere points, n_sphere_points, neighbour buffer, centred-points buffer, selection mask, areas); the
    conditions met on each path are decoded from their values, so neither the names of the locals nor the way a test is spelt matter.
      R2  a target atom is skipped iff its mask entry is 0
      R3/R5  atom j is recorded as a blocker iff j != i and |x_i - x_j|^2 < (R_i + R_j)^2 - whatever the mask says about j
      R4  a quadrature point p = x_i + R_i * s counts iff it is outside the sphere of the blocker examined (|p - x_b|^2 >= R_b^2), and
          the area is count * (4 pi / n_sphere_points) * R_i^2"""
    from ..symval import SymExec, State, Unsupported, elementary_facts, has_fact
    from ..poly import Poly, Rat
    af = cf.function(SC, "asa_frame")
    ctx.analysed_functions.add(SC + ":asa_frame")
    q = "asa_frame"
    P = [p_.get("name") for p_ in C.fparams(af)]
    if len(P) != 9:
        raise AnalysisError("asa_frame: %d parameters (9 expected)" % len(P))
    frame, n_atoms, radii, sphere, n_sphere, nbr, centred, mask, areas = P
    lvs = set()
    for n in C.walk(af):
        if n["kind"] == "ForStmt":
            init = [x for x in n.get("inner", []) if isinstance(x, dict) and "kind" in x]
            if init and init[0].get("kind") == "DeclStmt":
                lvs |= {v.get("name") for v in C.kids(init[0]) if v["kind"] == "VarDecl"}
            elif init and init[0].get("kind") == "BinaryOperator":
                lvs.add(C.ref_name(C.kids(init[0])[0]))
    body = C.kids(C.body_of(af))
    tops = [n for n in body if n["kind"] == "ForStmt"]
    # the loop over the target atoms is the one that has loops inside; a loop of its own before it may accumulate a bound used as a quick
    # rejection (a running maximum of the radii): it is summarised as "M >= radii[k] for every k it ran over", shown for one generic iteration
    outer = [n for n in tops if any(x_["kind"] == "ForStmt" and x_ is not n for x_ in C.walk(n))]
    if len(outer) != 1:
        raise AnalysisError("asa_frame: one loop nest over the atoms expected, %d found" % len(outer))
    prep = [n for n in tops if n is not outer[0]]
    ex = SymExec(cf, SC, symbolic_loops=lvs)
    summaries = {}      # accumulator -> (symbol after the loop, first index, bound text)
    try:
        st0 = State()
        for stmt in body:
            if stmt is outer[0]:
                break
            if stmt in prep:
                parts_ = [x for x in stmt.get("inner", []) if isinstance(x, dict) and "kind" in x]
                init_, cond_, lbody_ = parts_[0], parts_[-3] if len(parts_) >= 4 else None, parts_[-1]
                kv = next((v for v in C.kids(init_) if v["kind"] == "VarDecl"), None) if init_.get("kind") == "DeclStmt" else None
                if kv is None or not C.kids(kv) or cond_ is None:
                    raise AnalysisError("asa_frame: a loop before the atom loop has a header the rule does not read")
                lo = ex.expr(C.kids(kv)[-1], State())
                k_ = Rat(Poly.var(kv.get("name")))
                bound = re.sub(r"\s", "", C.text(cond_))
                written = {C.ref_name(C.kids(x_)[0]) for x_ in C.walk(lbody_) if x_["kind"] in ("BinaryOperator", "CompoundAssignOperator") and x_.get("opcode", "").endswith("=") and x_.get("opcode") not in ("==", "!=", "<=", ">=")
                           and C.strip(C.kids(x_)[0]).get("kind") == "DeclRefExpr"}
                written = {w_ for w_ in written if w_ in st0.env}
                if len(written) != 1:
                    raise AnalysisError("asa_frame: the loop before the atom loop carries %s (one accumulator expected)" % sorted(written))
                acc = next(iter(written))
                sin = State()
                sin.env.update(st0.env)
                sin.env[kv.get("name")] = k_
                m_in = Rat(Poly.var(acc + "@in"))
                sin.env[acc] = m_in
                elem = Rat(Poly.var("%s[%s]" % (radii, kv.get("name"))))
                dominated = True
                for o_ in ex.run(C.kids(lbody_) if lbody_.get("kind") == "CompoundStmt" else [lbody_], sin):
                    fs_ = []
                    for (v_, pol_), (txt_, _p) in zip(o_.cexprs, o_.cvals):
                        fs_ += elementary_facts(ex, v_ if v_ is not None else txt_, pol_)
                    m_out = o_.env.get(acc)
                    ge_elem = m_out == elem or has_fact(fs_, "<=", elem - m_out) or has_fact(fs_, "<", elem - m_out)
                    ge_in = m_out == m_in or has_fact(fs_, "<=", m_in - m_out) or has_fact(fs_, "<", m_in - m_out)
                    dominated = dominated and ge_elem and ge_in
                if not dominated:
                    raise AnalysisError("asa_frame: the loop before the atom loop is not a running maximum of %s (no summary)" % radii)
                after = Rat(Poly.var(acc + "@max"))
                summaries[acc] = (after, lo, bound, kv.get("name"))
                st0.env[acc] = after
                continue
            r_ = ex.run([stmt], st0)
            if len(r_) != 1:
                raise AnalysisError("asa_frame: the statements before the atom loop branch")
            st0 = r_[0]
        states = ex.run(body[body.index(outer[0]):], st0)
    except Unsupported as e:
        for r_ in ("C13-R2", "C13-R3", "C13-R4", "C13-R5"):
            ctx.undecided(r_, C.line(af), SC, q, "value numbering of asa_frame", str(e))
        return
    if not ex.loops_seen:
        raise AnalysisError("asa_frame: no loop met")
    iv = ex.loops_seen[0][0]
    heads = {(lv, cond) for lv, _i, cond in ex.loops_seen}
    var = lambda n_: Rat(Poly.var(n_))     # noqa: E731
    i = var(iv)
    line = C.line(outer[0])

    def facts(st):
        out = []
        for (v, pol), (txt, _p) in zip(st.cexprs, st.cvals):
            out += elementary_facts(ex, v if v is not None else txt, pol)
        return out

    def mem(base, off):
        return var("%s[%s]" % (base, off if isinstance(off, str) else repr(off)))
    m_i = mem(mask, i)
    skipped = [st for st in states if has_fact(facts(st), "==", m_i)]
    kept = [st for st in states if st not in skipped]
    a_i = mem(areas, i)
    ok = bool(skipped) and bool(kept) and all(not any(isinstance(k, tuple) and k[0] in (areas, nbr, centred) for k in st.env) for st in skipped) and all(has_fact(facts(st), "!=", m_i) for st in kept)
    ctx.decide(ok, "C13-R2", line, SC, q, "atom i is skipped as a target iff %s[i] == 0 (nothing is written for it)" % mask, "%d paths skip, %d compute" % (len(skipped), len(kept)),
               "the paths of one iteration of the target loop are not split by `%s[i] == 0` into 'nothing written' and 'area computed' (%d / %d paths)" % (mask, len(skipped), len(kept)))
    # ---- blockers: the loop over all atoms
    want_heads = {c for (lv, c) in heads}
    all_atoms = [c for (lv, c) in heads if re.sub(r"\s", "", c) in ("(%s<%s)" % (lv, n_atoms),)]
    ctx.decide(len(all_atoms) >= 2, "C13-R3", line, SC, q, "target loop and neighbour loop range over all %s atoms" % n_atoms, "", "loop bounds met: %s" % sorted(want_heads))
    # the generic neighbour j: the value stored into the neighbour buffer
    stored = {}
    for st in kept:
        for k, v in st.env.items():
            if isinstance(k, tuple) and k[0] == nbr and isinstance(v, Rat) and k[1] in (0, "0"):
                stored[id(st)] = v
    js = {repr(v) for v in stored.values()}
    if len(js) != 1:
        ctx.undecided("C13-R5", line, SC, q, "blocker pre-filter", "the value stored into %s[0] on the paths of a generic iteration is %s" % (nbr, sorted(js)))
    else:
        j = next(iter(stored.values()))
        R = lambda x: mem(radii, x)        # noqa: E731
        X = lambda a_, c: mem(frame, 3 * a_ + c)    # noqa: E731
        D = sum(((X(i, c) - X(j, c)) * (X(i, c) - X(j, c)) for c in range(3)), Rat(Poly.const(0)))
        cut = (R(i) + R(j)) * (R(i) + R(j))
        bad = None
        mask_dep = False
        for st in kept:
            f = facts(st)
            near = has_fact(f, "<", D - cut)
            far = has_fact(f, "<=", cut - D)
            same = has_fact(f, "==", i - j)
            diff = has_fact(f, "!=", i - j)
            is_stored = id(st) in stored
            if is_stored and not (near and diff):
                bad = bad or "a path records j as a blocker without having established j != i and |x_i - x_j|^2 < (R_i + R_j)^2 (conditions on the path: %s)" % [t for t, _p in st.cvals][:4]
            if not is_stored and not (same or far):
                # a quick rejection by a bound accumulated before the loop: |x_i - x_j|^2 >= (R_i + M)^2 with M >= R_k for every k the
                # accumulation ran over implies the far case for every such j (radii are positive)
                lemma = None
                for acc_, (M_, lo_, bound_, kn_) in summaries.items():
                    cutM = (R(i) + M_) * (R(i) + M_)
                    if has_fact(f, "<=", cutM - D):
                        covers = lo_.const_value() == 0 and bound_ == "(%s<%s)" % (kn_, n_atoms)
                        lemma = True if covers else "the bound `%s` used to reject j early is the largest radius among the atoms %s .. only (loop %s from %s): an atom outside that range can be a blocker that is skipped" % (acc_, lo_, bound_, lo_)
                if lemma is True:
                    continue
                if isinstance(lemma, str):
                    bad = bad or lemma
                    continue
                bad = bad or "a path leaves j out although neither j == i nor |x_i - x_j|^2 >= (R_i + R_j)^2 holds on it (conditions: %s)" % [(t[:60], p_) for t, p_ in st.cvals][:4]

            def flat(fs):
                for ff_ in fs:
                    if ff_[0] == "or":
                        for alt in ff_[1]:
                            yield from flat(alt)
                    else:
                        yield ff_
            mname = "%s[" % mask
            if any(str(x).startswith(mname) and str(x) != str(m_i) for ff_ in flat(f) for x in ff_[1].vars()):
                mask_dep = True
        ctx.decide(not mask_dep, "C13-R3", line, SC, q, "the blocker test does not depend on the selection", "",
                   "whether j is recorded as a blocker depends on the selection mask of j: unselected atoms no longer shield selected ones")
        ctx.decide(bad is None and bool(stored), "C13-R5", line, SC, q, "j is a blocker iff j != i and |x_i - x_j|^2 < (R_i + R_j)^2", "%d paths" % len(kept), bad or "no path stores into the neighbour buffer")
    # ---- accessibility and area
    c4pi = None
    bad = None
    n_acc = n_blk = 0
    for st in kept:
        v = st.env.get((areas, repr(i)))
        if v is None:
            bad = bad or "a path of a selected atom does not write %s[i]" % areas
            continue
        Ri2 = mem(radii, i) * mem(radii, i)
        # v = c * (areas[i] + delta) * R_i^2
        pv = None
        if len(v.d.t) == 1:
            (mono, cq), = v.d.t.items()
            if tuple(mono) == ((n_sphere, 1),):
                pv = (Rat(v.n) * (Rat(Poly.const(1)) / cq)).poly()
        if pv is None:
            bad = bad or "area is %r" % v
            continue
        c1 = pv.coeff_of("%s[%s]" % (areas, repr(i)), 1)
        c0 = pv.coeff_of("%s[%s]" % (areas, repr(i)), 0)
        scale = Rat(c1)         # = constant * n_sphere_points * R_i^2
        delta = None
        for d_ in (0, 1):
            if Rat(c0) == scale * d_:
                delta = d_
        if delta is None:
            bad = bad or "area of atom i is %r, not count * constant * R_i^2" % v
            continue
        k_ = None
        ps_ = scale.poly()
        if ps_ is not None:
            kk = ps_.coeff_of("%s[%s]" % (radii, repr(i)), 2).const_value()
            if kk is not None and scale == Ri2 * kk:
                k_ = kk
        if k_ is None or abs(float(k_) - 4 * 3.141592653589793) > 1e-6:
            bad = bad or "area = count * %r: the constant is not 4*pi / %s times R_i^2" % (scale, n_sphere)
            continue
        c4pi = k_
        f = facts(st)
        # the blocker examined: any atom index read from the neighbour buffer
        def nbr_reads(ff):
            """the symbols `<neighbour buffer>[...]` that occur (possibly nested in other subscripts) in the fact"""
            out_ = set()
            for x in ff[1].vars():
                t_ = str(x)
                p0 = t_.find(nbr + "[")
                while p0 >= 0:
                    depth_, p1 = 0, p0 + len(nbr)
                    while p1 < len(t_):
                        depth_ += t_[p1] == "["
                        depth_ -= t_[p1] == "]"
                        p1 += 1
                        if depth_ == 0:
                            break
                    out_.add(t_[p0:p1])
                    p0 = t_.find(nbr + "[", p1)
            return sorted(out_)
        inside = [ff for ff in f if ff[0] == "<" and nbr_reads(ff)]
        outside = [ff for ff in f if ff[0] == "<=" and nbr_reads(ff)]
        okp = False
        for ff in (outside if delta == 1 else inside):
            bvars = nbr_reads(ff)
            for bn in bvars:
                b = var(bn)
                jj = [x for x in lvs if any(("%s[3*%s]" % (sphere, x)) == str(y) or str(y).startswith("%s[" % sphere) and x in str(y) for y in ff[1].vars())]
                for jn in (jj or list(lvs)):
                    pj = [mem(frame, 3 * i + c) + mem(radii, i) * mem(sphere, 3 * var(jn) + c) for c in range(3)]
                    Dp = sum(((pj[c] - mem(frame, 3 * b + c)) * (pj[c] - mem(frame, 3 * b + c)) for c in range(3)), Rat(Poly.const(0)))
                    rb2 = mem(radii, b) * mem(radii, b)
                    if (delta == 1 and ff[1] == rb2 - Dp) or (delta == 0 and ff[1] == Dp - rb2):
                        okp = True
        if delta == 1:
            n_acc += 1
        else:
            n_blk += 1
        if not okp:
            bad = bad or "a point is %s on a path where |x_i + R_i s_j - x_b|^2 %s R_b^2 was not established for the blocker b examined (conditions: %s)" % (
                "counted" if delta == 1 else "not counted", ">=" if delta == 1 else "<", [t[:50] for t, _p in st.cvals][-2:])
    ctx.decide(bad is None and n_acc > 0 and n_blk > 0, "C13-R4", line, SC, q, "area_i = (number of points of the sphere of i, x_i + R_i s, outside the blocker examined) * 4 pi / %s * R_i^2" % n_sphere,
               "%d counting / %d blocked paths" % (n_acc, n_blk), bad or "counting paths %d, blocked paths %d" % (n_acc, n_blk))
