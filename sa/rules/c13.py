"""C13  Solvent-accessible areas are correct, additive and selection-independent (structural part).

R1 the per-frame accumulator starts from zero (shared engine with C08-R2)
R2 mask semantics: -1 for unselected groups, 0 for groups with a selected atom (Python); unselected atoms are skipped as *targets* only (C++)
R3 blockers are selection-independent: the neighbour search of asa_frame ranges over all atoms and never reads the mask
R4 residue mode sums over a contiguous mapping; change_radii works on a copy; radii = table + probe; area = count * 4*pi/n * r^2;
   argument order through the three layers (sasa.py -> _geometry._sasa -> sasa())
"""
from __future__ import annotations

import ast
import re

from ..core import AnalysisError
from .. import cfront as C
from ..pyfront import dotted, call_name, kwarg, params, src, walk_no_nested, const, param_default
from . import c08

EXPLANATION = (
    "Mask and accumulator discipline of shrake_rupley decided on the source of the three layers (sasa.py, the Cython wrapper, "
    "sasa.cpp through clang): first-access classification of the per-thread output buffer, a taint check that the selection "
    "mask reaches only the target loop's skip test, the -1 / 0 initialisation of the output, the residue mapping and its "
    "contiguity check, non-mutation of the module-level radii table, the area formula's literals, and positional agreement "
    "of the arguments across the Python / Cython / C boundary against the real C prototype.")
NOT_DECIDED = ["quadrature accuracy of the golden-spiral point set (numerical)", "analytic cap areas of overlapping spheres (numerical)"]
ASSUMPTIONS = ["documented: area of an isolated atom = 4*pi*(r+probe)^2; unselected atoms / residues without selected atoms are reported as -1"]
FLOORS = {"C13-R1": 1, "C13-R2": 20, "C13-R3": 2, "C13-R4": 50, "C13-R5": 4}

SP = "mdtraj/geometry/sasa.py"
SC = "mdtraj/geometry/src/sasa.cpp"
GP = "mdtraj/geometry/src/_geometry.pyx"


def check(ctx):
    ctx.rule("C13-R1", "the buffer asa_frame accumulates into is re-initialised for every frame")
    ctx.rule("C13-R2", "output is -1 where nothing is selected and 0 for groups with a selected atom; in asa_frame an unselected atom is skipped only as target")
    ctx.rule("C13-R3", "the neighbour (blocker) loops of asa_frame range over all atoms and do not depend on the selection mask")
    ctx.rule("C13-R4", "residue mode maps atoms to contiguous residue indices and sums; change_radii edits a copy; radii = table + probe; area = n_accessible * 4*pi/n_points * r^2; "
                       "arguments keep their meaning across sasa.py -> _sasa -> sasa()")
    cf = C.get(ctx.repo)
    ctx.analysed_files.add(SC)

    # ---- R1: reuse the C08 engine on sasa only
    before = len(ctx.obs)
    sub = type(ctx)(ctx.prop, ctx.repo, ctx.tier)
    c08._r2(sub, cf)
    got = [o for o in sub.obs if o.func == "sasa"]
    if not got:
        raise AnalysisError("C13-R1: no scratch buffer crossing the frame loop of sasa() found")
    for o in got:
        ctx.ob("C13-R1", o.line, o.file, o.func, o.construct, o.verdict, o.why)

    # ---- R2 / R4 python side: shrake_rupley evaluated as a whole
    fn = ctx.py.func(SP, "shrake_rupley")
    _shrake_rupley_by_evaluation(ctx, cf)
    ctx.rule("C13-R5", "quadrature points are the golden-section spiral (y_i = (2i+1)/n - 1, r = sqrt(1-y^2), phi = i*pi*(3-sqrt5)); the blocker pre-filter keeps exactly the atoms with r2 < (R_i+R_j)^2")
    from .c05 import no_foreign_attribute_stores
    no_foreign_attribute_stores(ctx, "C13-R2", [SP], floor=1)
    r5(ctx, cf)
    # ---- R2/R3 C++ side
    af = cf.function(SC, "asa_frame")
    g = C.guards(af)
    body = C.body_of(af)
    outer = [n for n in C.kids(body) if n["kind"] == "ForStmt"]
    if not outer:
        raise AnalysisError("asa_frame: outer atom loop not found")
    outer = outer[0]
    mask_refs = [n for n in C.walk(af) if n["kind"] == "DeclRefExpr" and n["referencedDecl"].get("name") == "atom_selection_mask"]
    ctx.decide(len(mask_refs) == 1, "C13-R3", C.line(af), SC, "asa_frame", "the mask is read exactly once", "%d reference(s)" % len(mask_refs),
               "atom_selection_mask is read %d times in asa_frame" % len(mask_refs))
    # the single use: in_selection = mask[i]; if (in_selection == 0) continue;  at the top of the outer loop
    top = C.kids(C.kids(outer)[-1])[:3]
    ttxt = re.sub(r"\s", "", " ".join(C.text(x) if x["kind"] != "DeclStmt" else " ".join(v.get("name", "") + "=" + (C.text(C.kids(v)[-1]) if C.kids(v) else "") for v in C.kids(x)) for x in top))
    ok = "in_selection=atom_selection_mask[i]" in ttxt
    ifs_c = [n for n in C.kids(C.kids(outer)[-1]) if n["kind"] == "IfStmt" and "in_selection" in C.text(C.kids(n)[0])]
    ok = ok and bool(ifs_c) and re.sub(r"\s", "", C.text(C.kids(ifs_c[0])[0])) == "(in_selection==0)" and C._always_leaves(C.kids(ifs_c[0])[1])
    ctx.decide(ok, "C13-R2", C.line(outer), SC, "asa_frame", "unselected atom i is skipped as target (continue)", "", "the selection test at the top of the target loop changed: %s" % ttxt[:80])
    # blocker loops: inner loops over j in [0, n_atoms) with no mask dependence
    inner = [n for n in C.walk(C.kids(outer)[-1]) if n["kind"] == "ForStmt"]
    nb = None
    for lp in inner:
        cond = re.sub(r"\s", "", C.text(C.kids(lp)[1]))
        init = re.sub(r"\s", "", " ".join(v.get("name", "") + "=" + C.text(C.kids(v)[-1]) for v in C.kids(C.kids(lp)[0]) if v["kind"] == "VarDecl")) if C.kids(lp)[0]["kind"] == "DeclStmt" else ""
        if cond == "(j<n_atoms)" and init == "j=0":
            nb = lp
            break
    ctx.decide(nb is not None, "C13-R3", C.line(outer), SC, "asa_frame", "neighbour search over j = 0 .. n_atoms-1", "", "the neighbour loop no longer ranges over all atoms")
    if nb is not None:
        dep = [n for n in C.walk(nb) if n["kind"] == "DeclRefExpr" and n["referencedDecl"].get("name") in ("atom_selection_mask", "in_selection")]
        ctx.decide(not dep, "C13-R3", C.line(nb), SC, "asa_frame", "neighbour loop independent of the selection", "", "the neighbour (blocker) loop depends on the selection mask: unselected atoms no longer shield selected ones")
        skips = [re.sub(r"\s", "", C.text(C.kids(n)[0])) for n in C.walk(nb) if n["kind"] == "IfStmt" and C._always_leaves(C.kids(n)[1])]
        ctx.decide(skips == ["(i==j)"], "C13-R3", C.line(nb), SC, "asa_frame", "only j == i is skipped as neighbour", "", "neighbour loop skips on %s" % skips)

    # ---- R4
    d = param_default(fn, "probe_radius")
    d2 = param_default(fn, "n_sphere_points")
    ctx.decide(const(d) == 0.14 and const(d2) == 960, "C13-R4", fn, SP, "shrake_rupley", "defaults probe 0.14 nm, 960 points", "", "defaults are %s / %s" % (const(d), const(d2)))
    # area formula literals
    cons = [n for n in C.walk(af) if n["kind"] == "VarDecl" and n.get("name") == "constant"]
    ctext = re.sub(r"\s", "", C.text(C.kids(cons[0])[-1])) if cons else ""
    mm = re.match(r"^\(\((4(?:\.0)?)\*(3\.14159\d*)\)/n_sphere_points\)$", ctext)
    ok = bool(mm) and abs(float(mm.group(2)) - 3.141592653589793) < 1e-9
    ctx.decide(ok, "C13-R4", C.line(cons[0]) if cons else C.line(af), SC, "asa_frame", "constant = 4*pi / n_sphere_points", "", "constant is %s" % (C.text(C.kids(cons[0])[-1]) if cons else None))
    mul = [n for n in C.walk(af) if n["kind"] == "CompoundAssignOperator" and n.get("opcode") == "*=" and C.root_var(C.kids(n)[0])[0] == "areas"]
    ok = bool(mul) and re.sub(r"\s", "", C.text(C.kids(mul[0])[1])) == "((constant*atom_radii[i])*atom_radii[i])"
    ctx.decide(ok, "C13-R4", C.line(mul[0]) if mul else C.line(af), SC, "asa_frame", "area = count * constant * r_i^2", "", "final scaling is %s" % (C.text(C.kids(mul[0])[1]) if mul else None))
    inc = [n for n in C.walk(af) if n["kind"] == "UnaryOperator" and n.get("opcode") == "++" and C.root_var(C.kids(n)[0])[0] == "areas"]
    gi = C.guards(af).get(inc[0]["id"], []) if inc else []
    ctx.decide(bool(inc) and ("is_accessible", True) in gi, "C13-R4", C.line(inc[0]) if inc else C.line(af), SC, "asa_frame", "a point counts iff it is accessible", "", "the accessible-point counter is not guarded by is_accessible")
    # accumulation into groups
    sf = cf.function(SC, "sasa")
    acc = [n for n in C.walk(sf) if n["kind"] == "CompoundAssignOperator" and n.get("opcode") == "+=" and C.root_var(C.kids(n)[0])[0] == "outframe"]
    ok = bool(acc) and re.sub(r"\s", "", C.text(acc[0])) == "(outframe[atom_mapping[j]]+=outframebuffer[j])"
    ctx.decide(ok, "C13-R4", C.line(acc[0]) if acc else C.line(sf), SC, "sasa", "group area += atom area", "", "group accumulation is %s" % (C.text(acc[0]) if acc else None))
    # argument order across the layers
    pw = ctx.py.func(GP, "_sasa")
    pp = params(pw)
    ccall = [n for n in walk_no_nested(pw) if isinstance(n, ast.Call) and call_name(n) == "sasa"]
    cargs = [re.sub(r"\[.*\]$", "", src(a)) for a in ccall[0].args] if ccall else []
    cps = [p.get("name") for p in C.fparams(sf)]
    alias = {"xyzlist": "xyz", "atom_mapping": "atom_outmapping", "n_groups": "out.shape"}
    ok = len(cargs) == len(cps) and all(a == alias.get(p, p) for a, p in zip(cargs, cps))
    ctx.decide(ok, "C13-R4", ccall[0] if ccall else pw, GP, "_sasa", "arguments of sasa() match the C prototype positionally", "%s" % cps,
               "the wrapper passes %s to sasa(%s)" % (cargs, ", ".join(cps)))


# ---------------------------------------------------------------------------------------------------
# R5: value numbering of the quadrature points and of the neighbour pre-filter
# ---------------------------------------------------------------------------------------------------
def r5(ctx, cf):
    from ..symval import SymExec, State, Unsupported
    from ..poly import Poly, Rat
    fn = cf.function(SC, "generate_sphere_points")
    ctx.analysed_functions.add(SC + ":generate_sphere_points")
    body = C.kids(C.body_of(fn))
    loops = [i for i, s in enumerate(body) if s["kind"] == "ForStmt"]
    if len(loops) != 1:
        raise AnalysisError("generate_sphere_points: expected one loop")
    lp = body[loops[0]]
    init = [x for x in lp.get("inner", []) if isinstance(x, dict) and "kind" in x][0]
    lv = C.ref_name(C.kids(init)[0]) if init.get("kind") == "BinaryOperator" else ([v.get("name") for v in C.kids(init) if v["kind"] == "VarDecl"] or [None])[0]
    if lv is None:
        raise AnalysisError("generate_sphere_points: loop variable not recognised")
    ex = SymExec(cf, SC, symbolic_loops={lv})
    try:
        st = ex.run(body, State())[0]
    except Unsupported as e:
        raise AnalysisError("generate_sphere_points: %s" % e)
    npar = [p_.get("name") for p_ in C.fparams(fn)]
    i, n = Rat(Poly.var(lv)), Rat(Poly.var(npar[1] if len(npar) > 1 else "n_points"))
    # the loop variable is identified by the loop header, the stored coordinates by the output array: no local name is consulted

    def opq(v):
        """(function, args) when v is a single opaque call symbol"""
        p = v.poly() if v is not None else None
        if p is not None and len(p.t) == 1:
            (m, c), = p.t.items()
            if c == 1 and len(m) == 1 and m[0][1] == 1:
                return ex.opaque.get(m[0][0])
        return None
    x0, y0, z0 = (st.env.get((npar[0], k)) for k in (repr(3 * i), repr(3 * i + 1), repr(3 * i + 2)))
    want_y = (2 * i + 1) / n - 1
    ctx.decide(y0 is not None and y0 == want_y, "C13-R5", C.line(fn), SC, "generate_sphere_points", "y_i = (2i+1)/n - 1", "levels symmetric about the equator for every n",
               "the level of point i is %r; the golden-section spiral the documentation cites uses (2i+1)/n - 1 (levels symmetric about the equator for every n, odd or even)" % (y0,))
    okx = False
    why = "stored x, z are %r, %r" % (x0, z0)
    if x0 is not None and z0 is not None and y0 is not None:
        # x0 = cos(phi) * r, z0 = sin(phi) * r with r = sqrt(1 - y^2), phi = i * pi (3 - sqrt 5)
        vx, vz = sorted(x0.vars()), sorted(z0.vars())
        fx = [ex.opaque.get(v) for v in vx]
        fz = [ex.opaque.get(v) for v in vz]
        cosf = [f for f in fx if f and f[0] == "cos"]
        sinf = [f for f in fz if f and f[0] == "sin"]
        rx = [f for f in fx if f and f[0] == "sqrt"]
        rz = [f for f in fz if f and f[0] == "sqrt"]
        if len(cosf) == 1 and len(sinf) == 1 and len(rx) == 1 and len(rz) == 1 and len(vx) == 2 and len(vz) == 2:
            phi = cosf[0][1][0]
            r_ok = rx[0][1][0] == 1 - y0 * y0 and rz[0][1][0] == 1 - y0 * y0
            same_phi = sinf[0][1][0] == phi
            prod_ok = x0 == ex.opaque_call("cos", [phi]) * ex.opaque_call("sqrt", [1 - y0 * y0]) and z0 == ex.opaque_call("sin", [phi]) * ex.opaque_call("sqrt", [1 - y0 * y0])
            inc_ok = False
            pv = sorted(phi.vars() - {lv})
            if phi.poly() is not None and len(pv) == 1 and phi.poly().degree() == 2:
                sv = pv[0]
                g = ex.opaque.get(sv)
                c1 = phi.poly().coeff_of(lv, 1)
                if g and g[0] == "sqrt" and g[1][0] == 5 and phi.poly().coeff_of(lv, 0).is_zero():
                    a1 = c1.coeff_of(sv, 1).const_value()
                    a0 = c1.coeff_of(sv, 0).const_value()
                    inc_ok = a1 is not None and a0 is not None and abs(float(a1) + 3.141592653589793) < 1e-6 and abs(float(a0) - 3 * 3.141592653589793) < 1e-6
            okx = r_ok and same_phi and prod_ok and inc_ok
            why = "r ok %s, same angle in x and z %s, product form %s, angle = i*pi*(3-sqrt 5) %s" % (r_ok, same_phi, prod_ok, inc_ok)
    ctx.decide(okx, "C13-R5", C.line(fn), SC, "generate_sphere_points", "point i = (r cos phi, y, r sin phi), r = sqrt(1 - y^2), phi = i pi (3 - sqrt 5)", "", "the stored point is not on the golden-section spiral: %s" % why)
    # neighbour pre-filter: exactly the atoms whose expanded spheres overlap
    af = cf.function(SC, "asa_frame")
    g = C.guards(af)
    stores = [x for x in C.walk(af) if x["kind"] == "BinaryOperator" and x.get("opcode") == "=" and C.root_var(C.kids(x)[0])[0] == "neighbor_indices"]
    if len(stores) != 1:
        raise AnalysisError("asa_frame: store into neighbor_indices not found")
    facts = sorted(set(g.get(stores[0]["id"], [])))
    want = sorted({("(i==j)", False), ("in_selection", True), ("(r2<radius_cutoff2)", True)})
    ctx.decide(facts == want, "C13-R5", C.line(stores[0]), SC, "asa_frame", "j is a blocker iff j != i and r2 < (R_i + R_j)^2", str(facts),
               "atom j is recorded as a blocker under %s; every atom whose expanded sphere reaches into that of i must be kept (an enclosing sphere blocks all points)" % facts)
    # the quantities in the test
    pair = [x for x in C.walk(af) if x["kind"] == "ForStmt"]
    inner = [x for x in C.walk(af) if x["kind"] == "ForStmt" and any(v.get("name") == "radius_cutoff2" for v in C.walk(x) if v["kind"] == "VarDecl")]
    inner = inner[-1]
    ib = [x for x in inner["inner"] if isinstance(x, dict) and x.get("kind") == "CompoundStmt"][0]
    decls = {}
    for v in C.walk(ib):
        if v["kind"] == "VarDecl" and C.kids(v):
            decls[v.get("name")] = re.sub(r"\s", "", C.text(C.kids(v)[-1]))
    ok = decls.get("radius_cutoff") == "(atom_radius_i+atom_radius_j)" and decls.get("radius_cutoff2") == "(radius_cutoff*radius_cutoff)" and \
        decls.get("r2") == "dot3(r_ij,r_ij)" and decls.get("r_ij") == "(r_i-r_j)" and decls.get("atom_radius_j") == "atom_radii[j]"
    ctx.decide(ok, "C13-R5", C.line(inner), SC, "asa_frame", "r2 = |r_i - r_j|^2, cutoff = (R_i + R_j)^2", "", "pre-filter quantities are %s" % {k: decls.get(k) for k in ("radius_cutoff", "radius_cutoff2", "r2", "r_ij", "atom_radius_j")})


def _sasa_roles(ctx, cf):
    """position, in the signature of the pyx wrapper _sasa, of the argument that reaches each parameter of the C function sasa()"""
    pw = ctx.py.func(GP, "_sasa")
    pp = params(pw)
    sf = cf.function(SC, "sasa")
    cps = [p.get("name") for p in C.fparams(sf)]
    ccall = [n for n in walk_no_nested(pw) if isinstance(n, ast.Call) and call_name(n) == "sasa"]
    if len(ccall) != 1 or len(ccall[0].args) != len(cps):
        raise AnalysisError("_sasa does not call sasa() once with %d arguments" % len(cps))
    roles = {}
    for cp, a_ in zip(cps, ccall[0].args):
        names = [x.id for x in ast.walk(a_) if isinstance(x, ast.Name) and x.id in pp]
        if len(set(names)) == 1 and not (isinstance(a_, ast.Attribute) or ".shape" in src(a_)):
            roles[cp] = pp.index(names[0])
    need = ("xyzlist", "atom_radii", "n_sphere_points", "atom_mapping", "atom_selection_mask", "out")
    if any(r_ not in roles for r_ in need) or len({roles[r_] for r_ in need}) != 6:
        raise AnalysisError("the parameters of _sasa that reach %s of sasa() were not found (%s)" % (need, roles))
    return {r_: roles[r_] for r_ in need}, pp


def _shrake_rupley_by_evaluation(ctx, cf):
    """shrake_rupley evaluated (sa/tensym.py) on a model trajectory of 5 atoms in 3 residues, 2 frames, for atom / residue mode, with and
    without a selection, with and without change_radii.  The kernel is summarised by what the C side is shown to do (C13-R2..R4 on sasa.cpp):
    out[f, mapping[i]] += area(f, i) for every atom i whose mask entry is 1.  Decided on the values: what the kernel receives in each role
    (coordinates, table radius + probe per atom, identity / residue-index mapping, indicator mask of the selection, an output pre-set to 0 for
    groups with a selected atom and -1 elsewhere) and what is returned."""
    from ..tensym import TenSym, Ten, Obj, Raised, ShapeError
    from ..pysym import Unsupported as PUnsupported
    from ..poly import Poly, Rat
    fn = ctx.py.func(SP, "shrake_rupley")
    q = "shrake_rupley"
    try:
        roles, pp = _sasa_roles(ctx, cf)
    except AnalysisError as e:
        ctx.undecided("C13-R4", fn, SP, q, "roles of the parameters of _geometry._sasa", str(e))
        return
    elems = ["C", "N", "C", "O", "H"]
    resid = [0, 0, 1, 1, 2]
    F_, N_, G_ = 2, 5, 3
    var = lambda n_: Rat(Poly.var(n_))      # noqa: E731

    def run(mode, ai, cr, gm=False, resid_=resid):
        residues = [Obj(index=k) for k in sorted(set(resid_))]
        by = {r_.index: r_ for r_ in residues}
        atoms = [Obj(index=i, element=Obj(symbol=e, radius=var("vdw_radius_attribute_of_" + e)), residue=by[resid_[i]]) for i, e in enumerate(elems)]
        top = Obj(atoms=atoms, residues=residues)
        traj = Obj(xyz=Ten.sym("x", (F_, N_, 3)), n_atoms=N_, n_residues=len(residues), top=top, topology=top)
        table = {e: var("R_" + e) for e in ("C", "N", "O", "H", "S")}
        rec = {"table": table, "table0": dict(table)}

        def kernel(ev, call):
            args = [ev.ex(a_) for a_ in call.args]
            for k in call.keywords:
                if k.arg in pp:
                    while len(args) <= pp.index(k.arg):
                        args.append(None)
                    args[pp.index(k.arg)] = ev.ex(k.value)
            got = {r_: (args[p_] if p_ < len(args) else None) for r_, p_ in roles.items()}
            rec["n_calls"] = rec.get("n_calls", 0) + 1
            rec["at_call"] = {r_: (Ten(v.shape, list(v.data)) if isinstance(v, Ten) else v) for r_, v in got.items()}
            out, mp, mk = got["out"], got["atom_mapping"], got["atom_selection_mask"]
            if not (isinstance(out, Ten) and out.ndim == 2 and isinstance(mp, Ten) and isinstance(mk, Ten) and mp.shape == (N_,) and mk.shape == (N_,)):
                raise PUnsupported("the kernel does not receive arrays of the expected ranks")
            for f in range(out.shape[0]):
                for i in range(N_):
                    g, sel = mp.data[i].const_value(), mk.data[i].const_value()
                    if g is None or sel is None or not (0 <= int(g) < out.shape[1]):
                        raise PUnsupported("mapping / mask entries are not concrete group indices")
                    if sel != 0:
                        out.data[f * out.shape[1] + int(g)] = out.data[f * out.shape[1] + int(g)] + var("area[%d,%d]" % (f, i))
            rec["out_obj"] = out
        ts = TenSym({"_ATOMIC_RADII": table}, models={"_geometry._sasa": kernel, "ensure_type": lambda ev, c: ev.ex(c.args[0]),
                                                     "deepcopy": lambda ev, c: dict(ev.ex(c.args[0])), "copy.deepcopy": lambda ev, c: dict(ev.ex(c.args[0]))})
        r = ts.run_fn(fn, traj=traj, probe_radius=var("probe"), n_sphere_points=960, mode=mode, change_radii=cr, get_mapping=gm, atom_indices=ai)
        return ts, r, rec, traj
    n_cfg = 0
    for mode in ("atom", "residue"):
        for ai in (None, [1, 3], []):
            for cr in (None, {"C": var("newC")}):
                if ai == [] and cr:
                    continue
                cfg_ = "mode=%s, atom_indices=%s, change_radii=%s" % (mode, ai, "{'C': newC}" if cr else None)
                try:
                    ts, r, rec, traj = run(mode, ai, dict(cr) if cr else None)
                except PUnsupported as e:
                    ctx.undecided("C13-R4", fn, SP, q, cfg_, "not evaluable: %s" % e)
                    ctx.undecided("C13-R2", fn, SP, q, cfg_, "not evaluable: %s" % e)
                    continue
                n_cfg += 1
                if rec.get("n_calls") != 1:
                    ctx.violated("C13-R4", fn, SP, q, cfg_ + ": one kernel call", "_geometry._sasa is called %s times" % rec.get("n_calls", 0))
                    continue
                at = rec["at_call"]
                mapping = list(range(N_)) if mode == "atom" else list(resid)
                ngrp = N_ if mode == "atom" else G_
                sel = [1] * N_ if ai is None else [int(i in ai) for i in range(N_)]

                def ints(t):
                    v = [x.const_value() for x in t.data] if isinstance(t, Ten) else None
                    return None if v is None or any(c is None for c in v) else [int(c) for c in v]
                ctx.decide(isinstance(at["xyzlist"], Ten) and ts.first_difference(at["xyzlist"], traj.xyz) is None, "C13-R4", fn, SP, q, cfg_ + ": the kernel works on traj.xyz", "", "the coordinates handed to the kernel are not traj.xyz")
                wr = [(cr["C"] if (cr and elems[i] == "C") else var("R_" + elems[i])) + var("probe") for i in range(N_)]
                ok = isinstance(at["atom_radii"], Ten) and at["atom_radii"].shape == (N_,) and all(ts.equal(x, y) for x, y in zip(at["atom_radii"].data, wr))
                ctx.decide(ok, "C13-R4", fn, SP, q, cfg_ + ": radius of atom i = table[element of i] (changed entries replaced) + probe", "",
                           "the radii handed to the kernel are %s" % (at["atom_radii"].data if isinstance(at["atom_radii"], Ten) else at["atom_radii"],))
                npts = at["n_sphere_points"]
                ctx.decide((npts.const_value() if hasattr(npts, "const_value") else npts) == 960, "C13-R4", fn, SP, q, cfg_ + ": n_sphere_points passed on", "", "the kernel receives n_sphere_points=%r" % (npts,))
                ctx.decide(ints(at["atom_mapping"]) == mapping, "C13-R4", fn, SP, q, cfg_ + ": mapping = %s" % ("identity" if mode == "atom" else "atom -> index of its residue"), "",
                           "the mapping handed to the kernel is %s, expected %s" % (ints(at["atom_mapping"]), mapping))
                ctx.decide(ints(at["atom_selection_mask"]) == sel, "C13-R2", fn, SP, q, cfg_ + ": mask[i] = 1 iff atom i is selected", "",
                           "the selection mask is %s, the indicator of the selection is %s" % (ints(at["atom_selection_mask"]), sel))
                init = [0 if any(sel[i] and mapping[i] == g for i in range(N_)) else -1 for g in range(ngrp)]
                o0 = at["out"]
                ok = isinstance(o0, Ten) and o0.shape == (F_, ngrp) and ints(o0) == init * F_
                ctx.decide(ok, "C13-R2", fn, SP, q, cfg_ + ": output starts at 0 for groups with a selected atom, -1 elsewhere", "",
                           "the output handed to the kernel is %s of shape %s; expected rows %s (a group that starts at -1 and receives areas is off by one, a group that starts at 0 and "
                           "receives nothing is reported as buried instead of not selected)" % (ints(o0), getattr(o0, "shape", None), init))
                want = Ten((F_, ngrp), [sum((var("area[%d,%d]" % (f, i)) for i in range(N_) if sel[i] and mapping[i] == g), Rat(Poly.const(init[g]))) for f in range(F_) for g in range(ngrp)])
                res = r
                ok = isinstance(res, Ten) and res.shape == want.shape and ts.first_difference(res, want) is None
                ctx.decide(ok, "C13-R4", fn, SP, q, cfg_ + ": returns the array the kernel filled (group sums of the selected atoms, -1 for groups without one)", "",
                           "the value returned %s" % ("is not the (n_frames, n_groups) output" if not (isinstance(res, Ten) and res.shape == want.shape) else ts.first_difference(res, want)))
                ctx.decide(rec["table"] == rec["table0"], "C13-R4", fn, SP, q, cfg_ + ": the module-level radii table is left as it was", "",
                           "_ATOMIC_RADII is modified in place (%s): change_radii leaks into later calls" % sorted(k for k in rec["table"] if rec["table"].get(k) != rec["table0"].get(k)))
    # get_mapping=True returns (areas, mapping)
    try:
        ts, r, rec, traj = run("residue", None, None, gm=True)
        ok = isinstance(r, (tuple, list)) and len(r) == 2 and r[0] is rec.get("out_obj") and isinstance(r[1], Ten) and [x.const_value() for x in r[1].data] == resid
        ctx.decide(ok, "C13-R4", fn, SP, q, "get_mapping=True returns (areas, atom -> group mapping)", "", "with get_mapping=True the return value is not (areas, mapping)")
    except PUnsupported as e:
        ctx.undecided("C13-R4", fn, SP, q, "get_mapping=True", "not evaluable: %s" % e)
    # residue indices that are not 0..n-1 are refused; an unknown mode is refused
    for what, kw_ in (("residue indices with a gap are refused", dict(mode="residue", resid_=[0, 0, 2, 2, 3])), ("an unknown mode is refused", dict(mode="group"))):
        try:
            run(kw_["mode"], None, None, resid_=kw_.get("resid_", resid))
            ctx.violated("C13-R4", fn, SP, q, what, "no error is raised")
        except Raised as e:
            ctx.holds("C13-R4", fn, SP, q, what, "raises %s" % e.exc[:40])
        except ShapeError as e:
            ctx.holds("C13-R4", fn, SP, q, what, "numpy raises: %s" % e)      # unique(mapping) == arange(max + 1) with arrays of different lengths
        except PUnsupported as e:
            ctx.undecided("C13-R4", fn, SP, q, what, "not evaluable: %s" % e)
    if n_cfg < 10:
        ctx.undecided("C13-R4", fn, SP, q, "configurations", "only %d of 10 configurations evaluated" % n_cfg)
