"""C14  Reported hydrogen bonds are exactly those meeting the stated criteria (structural part).

R1 threshold units, strictness and index tables of baker_hubbard / wernet_nilsson / _compute_bounded_geometry
R2 element tables: donors from bonds by element pair {N-H, O-H}, acceptors {O, N}, same participation filter, self-bond removal
R3 Kabsch-Sander constants vs the documented formula; proline guard on the donor in both mirrored store_energies calls; best-two bookkeeping
R4 sentinel discipline: indices that may be -1 are dereferenced only under the skip[] guard of the same residue or an explicit sign test
"""
from __future__ import annotations

import ast
import re

from ..core import AnalysisError
from .. import cfront as C
from ..cfg import CFG
from ..flow import Defs
from ..pyfront import dotted, call_name, kwarg, params, src, walk_no_nested, const, param_default
from .c17 import _unit, DEG, RAD, NONE

EXPLANATION = (
    "Python side: degree/radian unit inference over every comparison of the three criteria functions, the operator and "
    "cutoff tables (documented defaults), the index tables that select which distance / angle of the D-H...A triplet is "
    "used (the angle vertex is computed from the law-of-cosines pairing), and the element / filter tables of the triplet "
    "generator. C++ side (clang AST): the literals of the Kabsch-Sander energy, the proline guard of both mirrored "
    "store_energies calls, the best-two bookkeeping branches, and a guard analysis showing that every coordinate access "
    "through nco_indices / ca_indices is protected against the -1 sentinel.")
NOT_DECIDED = ["set equality with an independent evaluation near the thresholds (numerical)", "accuracy of the law-of-cosines angle (numerical)",
               "periodic minimum-image distances used by the criteria (C05)"]
ASSUMPTIONS = ["documented criteria: Baker-Hubbard theta > 120 deg and r(H...A) < 0.25 nm in more than freq of the frames; Wernet-Nilsson r(OO) < 0.33 nm - 0.000044 nm/deg^2 * delta^2; "
               "Kabsch-Sander E = 0.42*0.20*332 kcal A/mol * (1/rON + 1/rCH - 1/rOH - 1/rCN) < -0.5 kcal/mol, H at 1.0 A (0.1 nm) from N along the previous C=O"]
FLOORS = {"C14-R1": 14, "C14-R2": 7, "C14-R3": 10, "C14-R4": 10}

HB = "mdtraj/geometry/hbond.py"
GEO = "mdtraj/geometry/src/geometry.cpp"
DSSP = "mdtraj/geometry/src/dssp.cpp"


def effective_freq(m, caller):
    """(call node, constant value or None) of the `freq` that `caller` effectively hands to _compute_bounded_geometry: keyword, positional or the callee's default."""
    cg = m.functions["_compute_bounded_geometry"]
    fn = m.functions[caller]
    calls = [n for n in walk_no_nested(fn) if isinstance(n, ast.Call) and call_name(n) == "_compute_bounded_geometry"]
    if not calls:
        return None, None
    c = calls[0]
    names = [a.arg for a in cg.args.args]
    e = kwarg(c, "freq")
    if e is None and "freq" in names and len(c.args) > names.index("freq"):
        e = c.args[names.index("freq")]
    if e is None:
        e = param_default(cg, "freq")
    return c, (const(e) if e is not None else None)


def check(ctx):
    ctx.rule("C14-R1", "every comparison has equal units on both sides and the documented operator; the distance pre-filter uses the final cutoff and operator; "
                       "the index tables select r(H...A) / angle at H (Baker-Hubbard) and r(D...A) / angle at D (Wernet-Nilsson)")
    ctx.rule("C14-R2", "donor pairs are {N-H, O-H} taken from the bond list, acceptors are {O, N}, the participation filter is applied to both, self bonds are removed")
    ctx.rule("C14-R3", "Kabsch-Sander literals equal the documented formula (2.7888, -0.5, 0.81, 0.1, -9.9); the proline guard tests the donor in both store_energies calls; "
                       "store_energies keeps the two lowest energies")
    ctx.rule("C14-R4", "coordinates are indexed through nco_indices / ca_indices only under !skip[<same residue>] or an explicit test of the loaded index")
    _r1(ctx)
    _r2(ctx)
    _r3_python_kabsch_sander(ctx)
    _r3(ctx)
    r3_energy_value(ctx)
    from .c05 import periodic_plumbing
    periodic_plumbing(ctx, "C14-R1", only={"mdtraj/geometry/hbond.py"}, floor=4)
    from .c05 import no_foreign_attribute_stores
    no_foreign_attribute_stores(ctx, "C14-R2", [HB], floor=5)
    r4_sentinels(ctx, "C14-R4")


# ---------------------------------------------------------------------------------------------------
def _vertex(angle_indices):
    """Vertex of the angle computed by _compute_bounded_geometry from the pairing (i0,i1),(i1,i2),(i2,i0): angle between sides a and b."""
    pairs = list(zip(angle_indices, angle_indices[1:] + angle_indices[:1]))
    a, b = set(pairs[0]), set(pairs[1])
    v = a & b
    return v.pop() if len(v) == 1 else None


def _r1(ctx):
    bh = ctx.py.func(HB, "baker_hubbard")
    wn = ctx.py.func(HB, "wernet_nilsson")
    cg = ctx.py.func(HB, "_compute_bounded_geometry")
    # documented defaults
    for name, want in (("freq", 0.1), ("distance_cutoff", 0.25), ("angle_cutoff", 120), ("exclude_water", True), ("periodic", True), ("sidechain_only", False)):
        d = param_default(bh, name)
        ctx.decide(d is not None and const(d) == want, "C14-R1", bh, HB, "baker_hubbard", "default %s = %s" % (name, want), "",
                   "default of %s is %s (documented: %s)" % (name, src(d) if d is not None else None, want))
    _r1_by_evaluation(ctx)


def _r1_by_evaluation(ctx):
    """baker_hubbard and wernet_nilsson (with _compute_bounded_geometry in scope) evaluated (sa/tensym.py) on a designed world of triplets over
    two frames whose three pair distances are exact rationals forming angles of 0 / 60 / 90 / 120 / 180 degrees, so that arccos is exact
    (a multiple of pi).  The world sits *on* the thresholds: a distance equal to the cutoff, an angle equal to the cutoff, a bond present in
    exactly freq of the frames, a cone cutoff met with equality.  The triplets returned are compared with the documented criteria applied to
    the world by the rule itself."""
    from fractions import Fraction as Fr
    from ..tensym import TenSym, Ten, Obj
    from ..pysym import Unsupported as PUnsupported, PI
    from ..poly import Poly, Rat
    mod = ctx.py.mod(HB)
    bh, wn, cg = ctx.py.func(HB, "baker_hubbard"), ctx.py.func(HB, "wernet_nilsson"), ctx.py.func(HB, "_compute_bounded_geometry")
    funcs = {q: f for q, f in mod.functions.items() if "." not in q and q not in ("baker_hubbard", "wernet_nilsson", "_get_bond_triplets", "kabsch_sander")}
    F_ = 2
    rat = lambda x: Rat(Poly.const(Fr(x)))        # noqa: E731
    ACOS = {Fr(-1): Fr(1), Fr(-1, 2): Fr(2, 3), Fr(0): Fr(1, 2), Fr(1, 2): Fr(1, 3), Fr(1): Fr(0)}
    DEG = {Fr(1): 180, Fr(2, 3): 120, Fr(1, 2): 90, Fr(1, 3): 60, Fr(0): 0}

    def run(fn, world, shapes, vertex, F_=2, **kw):
        """world[k][f] = (angle code, the distance the criterion is about); shapes[code] = integer sides (a, b, c) of a triangle with that angle
        at `vertex` of the (D, H, A) triplet; the side the criterion is about is scaled to the requested distance"""
        K = len(world)
        trip = [(10 * k, 10 * k + 1, 10 * k + 2) for k in range(K)]
        rec = {"distance_calls": []}

        def sides(code, dist_):
            tri = shapes[code]      # {(0,1): .., (1,2): .., (0,2): ..}
            ref = tri["ref"]
            s_ = Fr(dist_) / tri[ref]
            return {p_: v * s_ for p_, v in tri.items() if p_ != "ref"}

        def compute_distances(ev, call):
            pairs = ev.to_ten(ev.ex(call.args[1]))
            rec["distance_calls"].append({k.arg: ev.ex(k.value) for k in call.keywords})
            rec.setdefault("traj_arg", []).append(ev.ex(call.args[0]))
            if pairs.ndim != 2 or pairs.shape[1] != 2:
                raise PUnsupported("compute_distances is called with pairs of shape %s" % (pairs.shape,))
            out = []
            for f in range(F_):
                for r in range(pairs.shape[0]):
                    i, j = int(pairs.data[2 * r].const_value()), int(pairs.data[2 * r + 1].const_value())
                    if i // 10 != j // 10:
                        raise PUnsupported("distance between atoms of different triplets")
                    out.append(rat(sides(*world[i // 10][f])[tuple(sorted((i % 10, j % 10)))]))
            return Ten((F_, pairs.shape[0]), out)

        def arccos(ev, call):
            x = ev.to_ten(ev.ex(call.args[0]))
            vals = []
            for e in x.data:
                c = e.const_value()
                if c is None:
                    raise PUnsupported("arccos of a symbolic value")
                if c in ACOS:
                    vals.append(PI * ACOS[c])
                else:
                    # not one of the designed angles (the law of cosines was applied to other sides): its numerical value, as a multiple of pi
                    import math
                    vals.append(PI * Fr(math.acos(max(-1.0, min(1.0, float(c)))) / math.pi).limit_denominator(10 ** 9))
            return Ten(x.shape, vals)

        def triplets(ev, call):
            rec["triplet_kw"] = {k.arg: ev.ex(k.value) for k in call.keywords}
            rec["triplet_args"] = [ev.ex(a_) for a_ in call.args]
            return Ten((K, 3), [rat(x) for tr in trip for x in tr])
        top = Obj(tag="top")
        traj = Obj(topology=top, top=top, n_frames=F_, tag="traj")
        ts = TenSym(models={"compute_distances": compute_distances, "np.arccos": arccos, "_get_bond_triplets": triplets}, funcs=funcs)
        r = ts.run_fn(fn, traj=traj, **kw)
        return ts, r, rec, trip, traj, top

    def rows(t):
        if not (hasattr(t, "shape") and len(t.shape) == 2 and t.shape[1] == 3):
            return None
        v = [x.const_value() for x in t.data]
        return None if any(c is None for c in v) else sorted(tuple(int(c) for c in v[3 * k:3 * k + 3]) for k in range(t.shape[0]))
    # ---- baker_hubbard: D-H...A angle (at H) > 120 degrees and r(H...A) < 0.25 nm in more than freq of the frames
    at_H = {"180": {(0, 1): 3, (1, 2): 5, (0, 2): 8, "ref": (1, 2)}, "120": {(0, 1): 3, (1, 2): 5, (0, 2): 7, "ref": (1, 2)},
            "90": {(0, 1): 3, (1, 2): 4, (0, 2): 5, "ref": (1, 2)}, "60": {(0, 1): 3, (1, 2): 8, (0, 2): 7, "ref": (1, 2)}}
    w_bh = [[("180", "0.2"), ("180", "0.2")],        # a bond in both frames
            [("120", "0.2"), ("120", "0.2")],        # angle equal to the cutoff: not a bond
            [("180", "0.25"), ("180", "0.25")],      # distance equal to the cutoff: not a bond
            [("180", "0.2"), ("180", "0.3")],        # a bond in one frame of two
            [("90", "0.2"), ("90", "0.2")],          # bent
            [("180", "0.2"), ("120", "0.2")],        # close in both frames, straight in one only
            [("60", "0.1"), ("180", "0.24")]]        # one frame of two, the other sharply bent
    for freq_txt, kw, freq in (("freq=1/2", {"freq": rat("1/2")}, Fr(1, 2)), ("default freq", {}, Fr(1, 10)), ("freq=0", {"freq": rat(0)}, Fr(0)),
                               ("freq=3/10", {"freq": rat("3/10")}, Fr(3, 10)), ("freq=7/10", {"freq": rat("7/10")}, Fr(7, 10))) + (() if ctx.tier != "thorough" else tuple(
                                   ("freq=%d/20" % k, {"freq": rat("%d/20" % k)}, Fr(k, 20)) for k in (1, 3, 5, 9, 11, 13, 15, 17, 19, 20))):
        desc = "baker_hubbard on the threshold world, %s" % freq_txt
        try:
            ts, r, rec, trip, traj, top = run(bh, w_bh, at_H, 1, **kw)
        except PUnsupported as e:
            ctx.undecided("C14-R1", bh, HB, "baker_hubbard", desc, "not evaluable: %s" % e)
            continue
        want = sorted(trip[k] for k in range(len(w_bh)) if Fr(sum(1 for f in range(2) if int(w_bh[k][f][0]) > 120 and Fr(w_bh[k][f][1]) < Fr("0.25")), 2) > freq)
        got = rows(r)
        why = ""
        if got != want:
            names = {trip[k]: "triplet %d %s" % (k, w_bh[k]) for k in range(len(w_bh))}
            why = "returned %s; by the documented criteria (angle at H > 120 deg, r(H...A) < 0.25 nm, in more than freq of the frames): %s" % (
                [names.get(t_, t_) for t_ in (got or [])] if got is not None else "not an (n, 3) array", [names[t_] for t_ in want])
        ctx.decide(got == want, "C14-R1", bh, HB, "baker_hubbard", desc, "%d of %d triplets" % (len(want), len(w_bh)), why)
    try:
        ts, r, rec, trip, traj, top = run(bh, w_bh, at_H, 1, exclude_water="EW", periodic="PER", sidechain_only="SC")
        tk = dict(rec.get("triplet_kw") or {})
        ta = rec.get("triplet_args") or []
        ok = (ta[:1] == [top]) and (tk.get("exclude_water", ta[1] if len(ta) > 1 else None) == "EW") and (tk.get("sidechain_only", ta[2] if len(ta) > 2 else None) == "SC")
        ctx.decide(ok, "C14-R1", bh, HB, "baker_hubbard", "exclude_water / sidechain_only reach _get_bond_triplets with the trajectory's topology", "", "_get_bond_triplets receives %s %s" % (ta, tk))
        okp = bool(rec["distance_calls"]) and all(c.get("periodic") == "PER" for c in rec["distance_calls"]) and all(t_ is traj for t_ in rec.get("traj_arg", []))
        ctx.decide(okp, "C14-R1", bh, HB, "baker_hubbard", "every distance is computed on the trajectory with the caller's `periodic`", "%d calls" % len(rec["distance_calls"]),
                   "compute_distances receives periodic=%s" % [c.get("periodic") for c in rec["distance_calls"]])
    except PUnsupported as e:
        ctx.undecided("C14-R1", bh, HB, "baker_hubbard", "arguments passed on", "not evaluable: %s" % e)
    # ---- wernet_nilsson: per frame, r(D...A) < 0.33 - 0.000044 * delta^2 with delta the angle at D between A and H, in degrees
    at_D = {"0": {(0, 2): 3, (0, 1): 1, (1, 2): 2, "ref": (0, 2)}, "60": {(0, 2): 8, (0, 1): 3, (1, 2): 7, "ref": (0, 2)}, "90": {(0, 2): 4, (0, 1): 3, (1, 2): 5, "ref": (0, 2)}}
    FW = 11      # eleven frames: a contact seen in one frame only has prevalence 1/11 < 0.1, the frequency Baker-Hubbard defaults to
    w_wn = [[("0", "0.32")] + [("0", "0.33")] * (FW - 1),           # inside the cone in one frame, then on its rim (not a bond)
            [("60", "0.16"), ("60", "0.1716")] + [("0", "0.4")] * (FW - 2),      # 0.33 - 0.000044 * 60^2 = 0.1716: inside, then on the rim
            [("90", "0.1"), ("0", "0.34")] * 5 + [("90", "0.1")],     # cone closed at 90 degrees; beyond 0.33
            [("0", "0.4"), ("0", "0.5")] * 5 + [("0", "0.4")],        # never within 0.33
            [("60", "0.17"), ("0", "0.1")] * 5 + [("60", "0.17")]]
    F_ = FW
    try:
        ts, r, rec, trip, traj, top = run(wn, w_wn, at_D, 0, F_=FW)
        ok = isinstance(r, list) and len(r) == F_
        why = "the result is not a list with one array per frame"
        if ok:
            why = ""
            for f in range(F_):
                want = sorted(trip[k] for k in range(len(w_wn)) if Fr(w_wn[k][f][1]) < Fr("0.33") - Fr("0.000044") * int(w_wn[k][f][0]) ** 2)
                got = rows(r[f])
                if got != want:
                    ok = False
                    why = why or "frame %d: returned %s; r(D...A) < 0.33 - 0.000044 delta^2 holds for %s (world: %s)" % (f, got, want, [w[f] for w in w_wn])
        ctx.decide(ok, "C14-R1", wn, HB, "wernet_nilsson", "wernet_nilsson on the threshold world: per frame, the triplets inside the cone", "", why)
    except PUnsupported as e:
        ctx.undecided("C14-R1", wn, HB, "wernet_nilsson", "wernet_nilsson on the threshold world", "not evaluable: %s" % e)
    try:
        ts, r, rec, trip, traj, top = run(wn, w_wn, at_D, 0, F_=FW, exclude_water="EW", periodic="PER", sidechain_only="SC")
        tk = dict(rec.get("triplet_kw") or {})
        ta = rec.get("triplet_args") or []
        ok = (ta[:1] == [top]) and (tk.get("exclude_water", ta[1] if len(ta) > 1 else None) == "EW") and (tk.get("sidechain_only", ta[2] if len(ta) > 2 else None) == "SC")
        ctx.decide(ok, "C14-R1", wn, HB, "wernet_nilsson", "exclude_water / sidechain_only reach _get_bond_triplets with the trajectory's topology", "", "_get_bond_triplets receives %s %s" % (ta, tk))
        okp = bool(rec["distance_calls"]) and all(c.get("periodic") == "PER" for c in rec["distance_calls"])
        ctx.decide(okp, "C14-R1", wn, HB, "wernet_nilsson", "every distance is computed with the caller's `periodic`", "", "compute_distances receives periodic=%s" % [c.get("periodic") for c in rec["distance_calls"]])
    except PUnsupported as e:
        ctx.undecided("C14-R1", wn, HB, "wernet_nilsson", "arguments passed on", "not evaluable: %s" % e)
    c_, eff = effective_freq(ctx.py.mod(HB), "wernet_nilsson")
    ctx.decide(eff == 0.0, "C14-R1", c_ or wn, HB, "wernet_nilsson", "no frequency criterion: pre-filter threshold 0", "",
               "wernet_nilsson's pre-filter runs with freq=%r: the documented criterion is purely geometric, per frame" % (eff,))
    # the cosine is clipped before arccos (rounding can push it past +-1: NaN angles would silently fail every comparison)
    clipped = False
    for n in ast.walk(cg):
        if isinstance(n, ast.Call) and (call_name(n) or "").split(".")[-1] == "arccos" and n.args:
            arg = n.args[0]
            if isinstance(arg, ast.Call) and (call_name(arg) or "").split(".")[-1] == "clip":
                clipped = True
            elif isinstance(arg, ast.Name):
                for m_ in ast.walk(cg):
                    if isinstance(m_, ast.Call) and (call_name(m_) or "").split(".")[-1] == "clip" and m_.args and isinstance(m_.args[0], ast.Name) and m_.args[0].id == arg.id and \
                            [const(x) for x in m_.args[1:3]] == [-1, 1] and (any(k.arg == "out" and isinstance(k.value, ast.Name) and k.value.id == arg.id for k in m_.keywords) or True):
                        clipped = True
    ctx.decide(clipped, "C14-R1", cg, HB, "_compute_bounded_geometry", "cosine clipped to [-1, 1] before arccos", "", "the cosine is not clipped before arccos")
    pres = [n for n in walk_no_nested(wn) if isinstance(n, ast.Compare) and "angle_cutoff" in src(n)]
    if pres:
        ctx.note("C14-R1", pres[0], HB, "wernet_nilsson", "`angles < angle_cutoff`", "compares radians with the literal 45 (degrees): always true, no effect on the documented cone criterion")


def _r3_python_kabsch_sander(ctx):
    """The Python side of kabsch_sander evaluated (sa/tensym.py) with the kernel summarised as "fills hbonds[f, r, k] / henergies[f, r, k]" for two frames
    whose bond patterns differ, and scipy.sparse.csr_matrix as a recorder that keeps the arrays it is handed (scipy does not copy them): after the
    call, the matrix of every frame holds - data, column indices and row pointer - the bonds and energies of that frame (one buffer shared by the
    frames would leave every matrix with the row pointer of the last)."""
    from ..tensym import TenSym, Ten, Obj, Raised, Rat, Poly
    from ..pysym import Unsupported as PUnsupported
    fn = ctx.py.func(HB, "kabsch_sander")
    F_, R_ = 2, 3
    ev0 = TenSym({})
    HBV = [[[2, -1], [-1, -1], [-1, -1]], [[-1, -1], [0, 2], [1, -1]]]
    made = []

    def prep(ev, c):
        return (Ten.sym("x", (F_, 4, 3)), ev0.to_ten([[0, 1, 2]] * R_), ev0.to_ten([0, 1, 2]), ev0.to_ten([0, 0, 0]), ev0.to_ten([1, 1, 1]))

    def kernel(ev, c):
        a = [ev.ex(x) for x in c.args]
        hb, he = a[4], a[5]
        for f in range(F_):
            for r in range(R_):
                for k in range(2):
                    hb.data[(f * R_ + r) * 2 + k] = Rat(Poly.const(HBV[f][r][k]))
                    he.data[(f * R_ + r) * 2 + k] = Rat(Poly.var("E[%d,%d,%d]" % (f, r, k)))
        return None

    def csr(ev, c):
        o = Obj(tag="csr", parts=ev.ex(c.args[0]), _lenient=True)
        o._getters = {"T": lambda s_: s_}
        made.append(o)
        return o
    desc = "the matrix of frame f holds the bonds, energies and row pointer of frame f (two frames with different bond patterns)"
    try:
        ts = TenSym({}, models={"_prep_kabsch_sander_arrays": prep, "_geometry._kabsch_sander": kernel, "scipy.sparse.csr_matrix": csr, "csr_matrix": csr})
        ts.module_env = {"scipy": Obj(sparse=Obj(csr_matrix=None))}
        ts.run_fn(fn, traj=Obj(tag="traj", topology=Obj(tag="top"), _lenient=True))
    except Raised as e:
        ctx.violated("C14-R3", fn, HB, "kabsch_sander", desc, "raises %s" % (e.exc or e))
        return
    except PUnsupported as e:
        ctx.undecided("C14-R3", fn, HB, "kabsch_sander", desc, "not evaluable: %s" % e)
        return
    why = []
    if len(made) != F_:
        why.append("%d matrices for %d frames" % (len(made), F_))
    else:
        for f, o in enumerate(made):
            parts = o.parts if isinstance(o.parts, (tuple, list)) and len(o.parts) == 3 else None
            if parts is None or not all(isinstance(p_, Ten) for p_ in parts):
                why.append("frame %d: csr_matrix is not given (data, indices, indptr)" % f)
                continue
            d, i, p = parts
            wd = [Rat(Poly.var("E[%d,%d,%d]" % (f, r, k))) for r in range(R_) for k in range(2) if HBV[f][r][k] != -1]
            wi = [HBV[f][r][k] for r in range(R_) for k in range(2) if HBV[f][r][k] != -1]
            wp, acc = [0], 0
            for r in range(R_):
                acc += sum(1 for k in range(2) if HBV[f][r][k] != -1)
                wp.append(acc)
            gi = [int(x_.const_value()) if x_.const_value() is not None else str(x_) for x_ in i.data]
            gp = [int(x_.const_value()) if x_.const_value() is not None else str(x_) for x_ in p.data]
            if len(d.data) != len(wd) or any(not (a_ == b_) for a_, b_ in zip(d.data, wd)):
                why.append("frame %d: energies %s, expected %s" % (f, [str(x_) for x_ in d.data], [str(x_) for x_ in wd]))
            if gi != wi:
                why.append("frame %d: acceptor columns %s, expected %s" % (f, gi, wi))
            if gp != wp:
                why.append("frame %d: row pointer %s, expected %s (as the matrices are left when the function returns)" % (f, gp, wp))
    ctx.decide(not why, "C14-R3", fn, HB, "kabsch_sander", desc, "", "; ".join(why[:2]))


def _r2(ctx):
    """_get_bond_triplets evaluated (sa/tensym.py) on a model topology that has every case in it: N-H and O-H bonds listed in either
    orientation, backbone / side-chain / water atoms, an S-H bond and a carbon that must stay out.  The rows returned are compared, as a
    multiset, with the definition: donors = bonds between {N,H} or {O,H} with both atoms participating, written (heavy atom, hydrogen);
    acceptors = participating N / O atoms; every donor with every acceptor except the donor's own heavy atom."""
    from ..tensym import TenSym, Ten, Obj, Raised
    from ..pysym import Unsupported as PUnsupported
    fn = ctx.py.func(HB, "_get_bond_triplets")
    q = "_get_bond_triplets"
    spec = [("N", False, False), ("H", False, False), ("C", False, False), ("O", False, False),      # backbone N-H, C=O
            ("O", False, True), ("H", False, True), ("N", False, True), ("H", False, True),          # side-chain O-H (listed H first), N-H
            ("O", True, False), ("H", True, False), ("H", True, False),                              # water, one bond listed H first
            ("S", False, True), ("H", False, True),                                                  # thiol: not a donor
            ("N", False, False), ("H", False, True),                                                 # backbone N of a protonated terminus: its H1 / H2 / H3 count as side chain
            ("O", False, True), ("H", False, False)]                                                 # the other way round: the heavy atom takes part, the hydrogen does not
    bond_ids = [(0, 1), (2, 3), (5, 4), (6, 7), (8, 9), (10, 8), (11, 12), (0, 2), (13, 14), (16, 15)]

    def world(bonds=bond_ids, only=None):
        atoms = [Obj(tag="%s%d" % (e, i), index=i, element=Obj(symbol=e), residue=Obj(is_water=w), is_sidechain=sc) for i, (e, w, sc) in enumerate(spec)]
        if only is not None:
            atoms = [a for a in atoms if a.index in only]
        return Obj(tag="top", atoms=atoms, bonds=[(atoms[i], atoms[j]) for i, j in bonds]), atoms

    def name(i):
        return "%s%d" % (spec[i][0], i)

    def definition(exclude_water, sidechain_only):
        def part(i):
            e, w, sc = spec[i]
            return not (exclude_water and w) and not (sidechain_only and not sc)
        donors = []
        for heavy in ("N", "O"):
            for i, j in bond_ids:
                if {spec[i][0], spec[j][0]} == {heavy, "H"} and part(i) and part(j):
                    donors.append((i, j) if spec[i][0] == heavy else (j, i))
        acc = [i for i in range(len(spec)) if spec[i][0] in ("N", "O") and part(i)]
        return sorted((d, h, a) for (d, h) in donors for a in acc if a != d)
    for ew in (True, False):
        for sc in (False, True):
            desc = "triplets on the model topology, exclude_water=%s, sidechain_only=%s" % (ew, sc)
            top, _atoms = world()
            try:
                r = TenSym().run_fn(fn, topology=top, exclude_water=ew, sidechain_only=sc)
            except PUnsupported as e:
                ctx.undecided("C14-R2", fn, HB, q, desc, "not evaluable: %s" % e)
                continue
            want = definition(ew, sc)
            got = None
            if isinstance(r, Ten) and r.ndim == 2 and r.shape[1] == 3 and all(x.const_value() is not None for x in r.data):
                v = [int(x.const_value()) for x in r.data]
                got = sorted(tuple(v[3 * k:3 * k + 3]) for k in range(r.shape[0]))
            why = ""
            if got is None:
                why = "the result is not an (n, 3) array of atom indices"
            elif got != want:
                miss = [t for t in want if t not in got]
                extra = [t for t in got if t not in want]
                dup = sorted({t for t in got if got.count(t) > 1})
                fm = lambda ts_: ", ".join("(%s)" % "-".join(name(i) for i in t) for t in ts_[:4])   # noqa: E731
                why = "; ".join(x for x in ("missing %s" % fm(miss) if miss else "", "not hydrogen-bond candidates: %s" % fm(extra) if extra else "",
                                            "listed twice: %s" % fm(dup) if dup and not extra else "") if x)
            ctx.decide(got == want, "C14-R2", fn, HB, q, desc, "%d triplets (donor, hydrogen, acceptor)" % len(want), why)
    # a topology without donors gives an empty (0, 3) result; a topology without bonds is refused
    top, _a = world(bonds=[(2, 3), (11, 12)])
    try:
        r = TenSym().run_fn(fn, topology=top, exclude_water=True, sidechain_only=False)
        ctx.decide(isinstance(r, Ten) and r.shape == (0, 3), "C14-R2", fn, HB, q, "no N-H / O-H bond: empty (0, 3) result", "", "the result has shape %s" % (getattr(r, "shape", None),))
    except PUnsupported as e:
        ctx.undecided("C14-R2", fn, HB, q, "no N-H / O-H bond: empty (0, 3) result", "not evaluable: %s" % e)
    top, _a = world(bonds=[])
    try:
        r = TenSym().run_fn(fn, topology=top, exclude_water=True, sidechain_only=False)
        ctx.violated("C14-R2", fn, HB, q, "a topology without bonds is refused", "no error is raised for a topology without bonds: every search silently finds nothing")
    except Raised as e:
        ctx.holds("C14-R2", fn, HB, q, "a topology without bonds is refused", "raises %s" % e.exc[:40])
    except PUnsupported as e:
        ctx.undecided("C14-R2", fn, HB, q, "a topology without bonds is refused", "not evaluable: %s" % e)


def _unwrap(t):
    t = re.sub(r"\s", "", t)
    m = re.match(r"^fvec4\((.*)\)$", t)
    return m.group(1) if m else t


def _literals(node):
    return [n.get("value") for n in C.walk(node) if n["kind"] == "FloatingLiteral"]


def _r3(ctx):
    cf = C.get(ctx.repo)
    ctx.analysed_files.add(GEO)
    da = cf.function(GEO, "ks_donor_acceptor")
    lits = [abs(float(v)) for v in _literals(da)]
    ctx.decide(sum(1 for v in lits if abs(v - 2.7888) < 1e-6) == 4, "C14-R3", C.line(da), GEO, "ks_donor_acceptor", "coupling 0.42*0.20*332/10 = 2.7888 (x4)", "",
               "coupling literals are %s (documented: 332 * 0.42 * 0.20 kcal A/mol = 2.7888 kcal nm/mol)" % sorted(set(lits)))
    # pairing of signs, distances and atoms: decided by value numbering in r3_energy_value (the text comparison that stood here fired on a consistent permutation of the four terms)
    ctx.decide(any(abs(v - 9.9) < 1e-6 for v in lits), "C14-R3", C.line(da), GEO, "ks_donor_acceptor", "energy floor -9.9", "", "energy floor literal missing")
    ks = cf.function(GEO, "kabsch_sander")
    kl = {n.get("name"): [float(v) for v in _literals(n)] for n in C.walk(ks) if n["kind"] == "VarDecl" and n.get("name") in ("HBOND_ENERGY_CUTOFF", "MINIMAL_CA_DISTANCE2")}
    ctx.decide(kl.get("HBOND_ENERGY_CUTOFF") == [0.5] or kl.get("HBOND_ENERGY_CUTOFF") == [-0.5], "C14-R3", C.line(ks), GEO, "kabsch_sander", "energy cutoff -0.5 kcal/mol", "", "energy cutoff is %s" % kl.get("HBOND_ENERGY_CUTOFF"))
    ctx.decide(kl.get("MINIMAL_CA_DISTANCE2") and abs(kl["MINIMAL_CA_DISTANCE2"][0] - 0.81) < 1e-6, "C14-R3", C.line(ks), GEO, "kabsch_sander", "CA pre-filter (0.9 nm)^2 = 0.81", "", "CA pre-filter is %s" % kl.get("MINIMAL_CA_DISTANCE2"))
    # the two store_energies calls: guard `e < cutoff && !is_proline[<donor>]`, donor = first residue argument
    g = C.guards(ks)
    calls = [n for n in C.walk(ks) if n["kind"] == "CallExpr" and C.callee_name(n) == "store_energies"]
    ctx.decide(len(calls) == 2, "C14-R3", C.line(ks), GEO, "kabsch_sander", "two mirrored store_energies calls", "", "%d store_energies calls" % len(calls))
    for c in calls:
        a = C.call_args(c)
        donor, acceptor = C.text(a[2]), C.text(a[3])
        facts = g.get(c["id"], [])
        pro = ("is_proline[%s]" % donor, False) in facts
        ecut = any(t == "(e<HBOND_ENERGY_CUTOFF)" and p for t, p in facts)
        # the energy passed was computed for (donor, acceptor)
        ctx.decide(pro and ecut, "C14-R3", C.line(c), GEO, "kabsch_sander", "store_energies(donor=%s) guarded by e < cutoff && !is_proline[%s]" % (donor, donor), "",
                   "the hydrogen bond donated by residue %s is stored under the guards %s: the proline / energy test does not refer to the donor" % (donor, [t for t, p in facts][-3:]))
    dcalls = [n for n in C.walk(ks) if n["kind"] == "CallExpr" and C.callee_name(n) == "ks_donor_acceptor"]
    pairs = sorted((C.text(C.call_args(n)[3]), C.text(C.call_args(n)[4])) for n in dcalls)
    ctx.decide(pairs == [("ri", "rj"), ("rj", "ri")], "C14-R3", C.line(ks), GEO, "kabsch_sander", "energies computed for (ri,rj) and (rj,ri)", "", "donor/acceptor pairs evaluated: %s" % pairs)
    r3_hydrogen_value(ctx)
    r3_store_energies(ctx, cf)


def r3_store_energies(ctx, cf):
    """store_energies keeps, per donor, the two lowest energies with their acceptors: by value numbering of the slots on each of its paths."""
    from ..symval import SymExec, State, Ptr, Unsupported
    from ..poly import Poly, Rat
    se = cf.function(GEO, "store_energies")
    ctx.analysed_functions.add(GEO + ":store_energies")
    ex = SymExec(cf, GEO)
    st = State()
    ps = [p.get("name") for p in C.fparams(se)]
    if len(ps) != 5:
        raise AnalysisError("store_energies: expected (hbonds, henergies, donor, acceptor, e), found %s" % ps)
    hb, he, donor, acc, e = ps
    st.env[hb], st.env[he] = Ptr("HB", 0), Ptr("HE", 0)
    for p_, nm in ((donor, "d"), (acc, "acc"), (e, "e")):
        st.env[p_] = Rat(Poly.var(nm))
    try:
        outs = ex.run(C.kids(C.body_of(se)), st)
    except Unsupported as x:
        ctx.undecided("C14-R3", C.line(se), GEO, "store_energies", "best-two bookkeeping", "not evaluable: %s" % x)
        return
    E0, E1, A0, A1 = "HE[2*d]", "HE[1 + 2*d]", "HB[2*d]", "HB[1 + 2*d]"

    def slot(o, base, idx, default):
        v = o.env.get((base, idx))
        return repr(v) if v is not None else default

    def lower_than(c, x):
        c = c.replace("__builtin_", "")
        return c in ("(isnan(%s)||(e<%s))" % (x, x), "((e<%s)||isnan(%s))" % (x, x), "(isnan(%s)||(%s>e))" % (x, x))
    want = {"first": ("e", "acc", E0, A0), "second": (E0, A0, "e", "acc"), "none": (E0, A0, E1, A1)}
    seen = {}
    bad = None
    for o in outs:
        cv = [(str(c), p_) for c, p_ in o.cvals]
        if len(cv) == 1 and cv[0][1] and lower_than(cv[0][0], E0):
            kind = "first"
        elif len(cv) == 2 and not cv[0][1] and lower_than(cv[0][0], E0) and cv[1][1] and lower_than(cv[1][0], E1):
            kind = "second"
        elif len(cv) == 2 and not cv[0][1] and not cv[1][1] and lower_than(cv[0][0], E0) and lower_than(cv[1][0], E1):
            kind = "none"
        else:
            bad = bad or "a path with the conditions %s: expected `isnan(e0) || e < e0`, then `isnan(e1) || e < e1`" % cv
            continue
        got = (slot(o, "HE", "2*d", E0), slot(o, "HB", "2*d", A0), slot(o, "HE", "1 + 2*d", E1), slot(o, "HB", "1 + 2*d", A1))
        seen[kind] = got
        if got != want[kind]:
            bad = bad or "when the new energy %s, the slots (e0, acceptor0, e1, acceptor1) become %s, expected %s" % (
                {"first": "is lower than the best", "second": "lies between the best and the second best", "none": "is not lower than either"}[kind], got, want[kind])
    if bad is None and set(seen) != {"first", "second", "none"}:
        bad = "paths found: %s" % sorted(seen)
    ctx.decide(bad is None, "C14-R3", C.line(se), GEO, "store_energies", "per donor the two lowest energies are kept: new best shifts the old best to slot 1, a new second best replaces slot 1, otherwise nothing changes", "", bad or "")


# ---------------------------------------------------------------------------------------------------
def r4_sentinels(ctx, rule):
    """Shared by C14-R4 and C15-R2.  Every function that reads coordinates through the backbone index tables is evaluated by value numbering
    (sa/symval.py) for one generic iteration of each of its loops, ks_donor_acceptor expanded inside kabsch_sander.  Each read xyz[.. T[k] ..]
    through an index table T (nco_indices: three entries per residue, ca_indices: one) is taken with the conditions in force where it is made:
    the residue r that entry k belongs to must have been established as not skipped (`skip[r] == 0`), or the loaded index itself must have
    been tested (>= 0 / != -1).  Neither the names of locals nor the way the position is addressed (xyz[3*i+c], a pointer xyz + 3*i) matter."""
    from ..symval import SymExec, State, Ptr, Unsupported, elementary_facts, has_fact
    from ..poly import Poly, Rat
    cf = C.get(ctx.repo)
    # function: (position of xyz, {position of an index table: entries per residue}, position of skip or None, callees expanded)
    sites = [(GEO, "ks_assign_hydrogens", 0, {1: 3}, 4), (GEO, "kabsch_sander", 0, {1: 3, 2: 1}, None), (DSSP, "calculate_bends", 0, {1: 1}, 4)]
    var = lambda n_: Rat(Poly.var(n_))     # noqa: E731
    total = 0
    for rel, fname, xpos, tables, skippos in sites:
        ctx.analysed_files.add(rel)
        fn = cf.function(rel, fname)
        ctx.analysed_functions.add(rel + ":" + fname)
        ps = C.fparams(fn)
        pn = [p_.get("name") for p_ in ps]
        xyz = pn[xpos]
        tabs = {pn[k]: stride for k, stride in tables.items()}
        lvs = set()
        for n in C.walk(fn):
            if n["kind"] == "ForStmt":
                init = [x for x in n.get("inner", []) if isinstance(x, dict) and "kind" in x]
                if init and init[0].get("kind") == "DeclStmt":
                    lvs |= {v.get("name") for v in C.kids(init[0]) if v["kind"] == "VarDecl"}
        skipname = {"v": pn[skippos] if skippos is not None else None}

        def model(name, args, n, st, ex):
            if name == "ks_assign_hydrogens":
                # analysed on its own; here it only tells which local is the skip array (its last argument)
                a_ = args[-1]
                if isinstance(a_, Ptr):
                    skipname["v"] = a_.base
                return Rat(Poly.const(0))
            if name == "store_energies":
                return Rat(Poly.const(0))
            return None
        ex = SymExec(cf, rel, call_model=model, symbolic_loops=lvs)
        st = State()
        for p_ in ps:
            st.env[p_.get("name")] = Ptr(p_.get("name"), 0) if ("*" in C.qtype(p_) or "&" in C.qtype(p_)) else st.sym(p_.get("name"))
        try:
            outs = ex.run(C.kids(C.body_of(fn)), st)
        except Unsupported as e:
            ctx.undecided(rule, C.line(fn), rel, fname, "reads through the index tables", "not evaluable: %s" % e)
            continue
        offvals = ex.__dict__.get("offvals", {})
        seen = {}
        for o in outs:
            for (key, ncond) in o.reads:
                if key[0] != xyz or isinstance(key[1], int):
                    continue
                off = offvals.get(key[1])
                if off is None:
                    continue
                for v in sorted(off.vars()):
                    tname = next((t for t in tabs if str(v).startswith(t + "[")), None)
                    if tname is None:
                        continue
                    inner = offvals.get(str(v)[len(tname) + 1:-1])
                    if inner is None:
                        c_ = str(v)[len(tname) + 1:-1]
                        inner = Rat(Poly.const(int(c_))) if c_.lstrip("-").isdigit() else None
                    if inner is None:
                        continue
                    stride = tabs[tname]
                    res = None
                    for c_ in range(stride):
                        cand = (inner - c_) / stride
                        pc = cand.poly()
                        if pc is not None and all(cf_.denominator == 1 for cf_ in pc.t.values()):
                            res = cand
                            break
                    if res is None:
                        continue
                    facts = []
                    for (cv, pol), (txt, _p) in list(zip(o.cexprs, o.cvals))[:ncond]:
                        facts += elementary_facts(ex, cv if cv is not None else txt, pol)
                    idx = var(str(v))
                    sk = var("%s[%s]" % (skipname["v"], repr(res))) if skipname["v"] else None
                    by_skip = sk is not None and has_fact(facts, "==", sk)
                    by_test = has_fact(facts, "<=", Rat(Poly.const(0)) - idx) or has_fact(facts, "<", Rat(Poly.const(-1)) - idx) or has_fact(facts, "!=", idx + 1)
                    k2 = (tname, repr(res))
                    ent = seen.setdefault(k2, {"ok": True, "why": None, "how": set()})
                    if by_skip or by_test:
                        ent["how"].add("under !%s[%s]" % (skipname["v"], repr(res)) if by_skip else "index tested")
                    else:
                        ent["ok"] = False
                        ent["why"] = ent["why"] or [t for t, _p in o.cvals[:ncond]][-3:]
        for (tname, res), ent in sorted(seen.items()):
            total += 1
            ctx.decide(ent["ok"], rule, C.line(fn), rel, fname, "xyz[... %s[residue %s] ...]" % (tname, res), ", ".join(sorted(ent["how"])),
                       "coordinates are read through %s of residue %s on a path where neither !skip[%s] nor a test of the loaded index is in force (conditions: %s): "
                       "xyz[-3..-1] is read for a residue that follows / neighbours an incomplete one" % (tname, res, res, ent["why"]))
    if total < 8:
        raise AnalysisError("%s: only %d sentinel-indexed coordinate accesses found" % (rule, total))


def _callers_guard(ctx, cf, rel, fname, pidx, rule):
    """Every call of fname in its TU passes, at position pidx, a residue expression E with !skip[E] in effect."""
    ok = True
    found = False
    for caller in ("kabsch_sander",):
        fn = cf.function(rel, caller)
        g = C.guards(fn)
        for c in C.walk(fn):
            if c["kind"] == "CallExpr" and C.callee_name(c) == fname:
                found = True
                e = re.sub(r"\s", "", C.text(C.call_args(c)[pidx]))
                if ("skip[%s]" % e, False) not in g.get(c["id"], []):
                    ok = False
    return ok and found


def r3_hydrogen_placement(ctx):
    """The amide hydrogen is put 0.1 nm from N along the previous C=O whenever that C and O exist, and on N only when one of them is missing."""
    cf = C.get(ctx.repo)
    fn = cf.function(GEO, "ks_assign_hydrogens")
    g = C.guards(fn)
    loops = [n for n in C.walk(fn) if n["kind"] == "ForStmt"]
    if not loops:
        raise AnalysisError("ks_assign_hydrogens: residue loop not found")
    loaded = {n.get("name"): re.sub(r"\s", "", C.text(C.kids(n)[-1])) for n in C.walk(loops[0]) if n["kind"] == "VarDecl" and n.get("name") in ("pc_index", "po_index") and C.kids(n)}
    ok = loaded.get("pc_index") == "nco_indices[((3*(ri-1))+1)]" and loaded.get("po_index") == "nco_indices[((3*(ri-1))+2)]"
    ctx.decide(ok, "C14-R3", C.line(loops[0]), GEO, "ks_assign_hydrogens", "pc/po = C and O of residue ri-1", str(loaded), "previous carbonyl indices are loaded as %s" % loaded)
    stores = [n for n in C.walk(loops[0]) if n["kind"] == "CXXMemberCallExpr" and (C.callee_name(n) or "") == "store"]
    seen = {"r_n": 0, "r_h": 0}
    for s in stores:
        obj = re.sub(r"\s", "", C.text(C.kids(C.kids(s)[0])[0])) if C.kids(C.kids(s)[0]) else "?"
        facts = sorted(set(g.get(s["id"], [])))
        if obj == "r_n":
            want = sorted({("skip[ri]", False), ("((pc_index<0)||(po_index<0))", True)})
            alt = sorted({("skip[ri]", False), ("((po_index<0)||(pc_index<0))", True)})
            seen["r_n"] += 1
            ctx.decide(facts in (want, alt), "C14-R3", C.line(s), GEO, "ks_assign_hydrogens", "H on N exactly when the previous C or O is missing", str(facts),
                       "the hydrogen is left on the nitrogen under %s: a residue whose predecessor still has its C=O (but lacks another atom) loses the N-H direction and with it its hydrogen bonds" % facts)
        elif obj == "r_h":
            want = sorted({("skip[ri]", False), ("(pc_index<0)", False), ("(po_index<0)", False)})
            seen["r_h"] += 1
            ctx.decide(facts == want, "C14-R3", C.line(s), GEO, "ks_assign_hydrogens", "H along the previous C=O when both atoms exist", str(facts),
                       "the carbonyl-oriented hydrogen is stored under %s" % facts)
    if seen["r_n"] != 1 or seen["r_h"] != 1:
        raise AnalysisError("ks_assign_hydrogens: expected one r_n and one r_h store in the residue loop, found %s" % seen)


def r3_energy_value(ctx):
    """Kabsch-Sander energy as a normal form: E = 2.7888 (1/r_ON + 1/r_CH - 1/r_OH - 1/r_CN) with N,H of the donor and C,O of the acceptor, floored at -9.9."""
    from ..symval import SymExec, State, Vec, Unsupported
    from ..poly import Poly, Rat
    cf = C.get(ctx.repo)
    fn = cf.function(GEO, "ks_donor_acceptor")
    ex = SymExec(cf, GEO)
    try:
        outs = ex.run(C.kids(C.body_of(fn)), State())
    except Unsupported as e:
        ctx.undecided("C14-R3", C.line(fn), GEO, "ks_donor_acceptor", "energy normal form", "not evaluable: %s" % e)
        return
    if len(outs) != 1 or outs[0].ret is None:
        ctx.undecided("C14-R3", C.line(fn), GEO, "ks_donor_acceptor", "energy normal form", "%d paths" % len(outs))
        return
    o = outs[0]
    roles = {}
    for k, v in o.env.items():
        if isinstance(v, Vec) and len(v) == 4 and all(hasattr(x, "vars") for x in v):
            names = sorted(v[0].vars())
            if len(names) != 1 or v[0].poly() is None or v[0].poly().degree() != 1:
                continue
            t = names[0].replace(" ", "")
            if t.startswith("hcoords[") and "donor" in t:
                roles["H"] = v
            elif "nco_indices[3*donor]" in t:
                roles["N"] = v
            elif "nco_indices[1+3*acceptor]" in t:
                roles["C"] = v
            elif "nco_indices[2+3*acceptor]" in t:
                roles["O"] = v
    if sorted(roles) != ["C", "H", "N", "O"]:
        ctx.violated("C14-R3", C.line(fn), GEO, "ks_donor_acceptor", "N, H of the donor and C, O of the acceptor are loaded", "atoms loaded: %s" % sorted(roles))
        return

    def inv_dist(a, b):
        d = [roles[a][i] - roles[b][i] for i in range(3)]
        return Rat(Poly.const(1)) / ex.opaque_call("sqrt", [d[0] * d[0] + d[1] * d[1] + d[2] * d[2]])
    from fractions import Fraction
    q = Rat(Poly.const(Fraction("2.7888")))
    want = q * (inv_dist("N", "O") + inv_dist("H", "C") - inv_dist("H", "O") - inv_dist("N", "C"))
    ret = o.ret
    conds = [v for v in ret.vars() if v.startswith("(") and "<" in v]
    ok = False
    why = "returned value has %d comparison symbols" % len(conds)
    if len(conds) == 1:
        zero, one = {conds[0]: Poly.const(0)}, {conds[0]: Poly.const(1)}
        e0 = Rat(ret.n.subs(zero), ret.d.subs(zero))
        floor = Rat(ret.n.subs(one), ret.d.subs(one))
        fv = None
        if not floor.d.is_zero():
            # floor = const * d / d : compare numerator with constant multiple of the denominator
            ratios = {float(c) / float(floor.d.t[m]) for m, c in floor.n.t.items() if m in floor.d.t}
            if set(floor.n.t) == set(floor.d.t) and len({round(r, 9) for r in ratios}) == 1:
                fv = ratios.pop()
        # float literals: compare E with a tolerance on the coupling constant by checking the normal forms with the literal as written
        ok_e = _close_forms(e0, want)
        ok = ok_e and fv is not None and abs(float(fv) + 9.9) < 1e-6
        why = "energy normal form %s the Kabsch-Sander expression; floor %s" % ("equals" if ok_e else "differs from", fv)
    ctx.decide(ok, "C14-R3", C.line(fn), GEO, "ks_donor_acceptor", "E = 2.7888 (1/r_NO + 1/r_HC - 1/r_HO - 1/r_NC), floored at -9.9 (value numbering)", "",
               "the energy returned is not the Kabsch-Sander electrostatic energy of the N-H / C=O pair: %s" % why)


def _close_forms(a, b, tol=1e-5):
    """a == b as rational functions up to rounding of float literals: same monomials, coefficients within tol (relative)."""
    x = (a.n * b.d)
    y = (b.n * a.d)
    if set(x.t) != set(y.t):
        return False
    for m, c in x.t.items():
        c2 = y.t[m]
        if abs(float(c) - float(c2)) > tol * max(1.0, abs(float(c2))):
            return False
    return True


def _const_or_none(v):
    if isinstance(v, int):
        return v
    c = v.const_value() if hasattr(v, "const_value") else None
    return int(c) if c is not None and c.denominator == 1 else None


def r3_hydrogen_value(ctx):
    """Value numbering of the residue loop of ks_assign_hydrogens: H = N + 0.1 (C' - O')/|C' - O'| with C', O' of the previous residue, or H = N when they are missing; nothing is stored for
    a skipped residue.  The conditions of each path are decoded from their values (`pc < 0 || po < 0` taken and `pc >= 0 && po >= 0` not taken are the same fact)."""
    from ..symval import SymExec, State, Ptr, Vec, Unsupported, elementary_facts, has_fact
    from .. import symval as _SV
    from ..poly import Poly, Rat
    cf = C.get(ctx.repo)
    fn = cf.function(GEO, "ks_assign_hydrogens")
    pn = [p_.get("name") for p_ in C.fparams(fn)]
    if len(pn) != 5:
        raise AnalysisError("ks_assign_hydrogens: %d parameters (5 expected)" % len(pn))
    xyz, nco, _nres, hco, skip = pn
    loops = [n for n in C.walk(fn) if n["kind"] == "ForStmt"]
    if not loops:
        raise AnalysisError("ks_assign_hydrogens: residue loop not found")
    parts = [x if isinstance(x, dict) and "kind" in x else None for x in loops[0].get("inner", [])]
    init, inc, lb = parts[0], parts[-2], parts[-1]
    rv = None
    if init is not None and init.get("kind") == "DeclStmt":
        rv = next((v.get("name") for v in C.kids(init) if v["kind"] == "VarDecl"), None)
    if rv is None or lb is None:
        raise AnalysisError("ks_assign_hydrogens: residue loop variable not recognised")
    ex = SymExec(cf, GEO)
    # where the output pointer stands when the loop is entered (the code before the loop may have advanced it past residue 0)
    body_all = C.kids(C.body_of(fn))
    i_loop = next((i_ for i_, x_ in enumerate(body_all) if any(y_ is loops[0] for y_ in C.walk(x_))), None)
    e0 = None
    if i_loop is not None:
        sp = State()
        sp.env[hco] = Ptr("H", 0)
        for p_ in (xyz, nco, skip):
            sp.env[p_] = Ptr(p_, 0)
        try:
            pre_ = ex.run(body_all[:i_loop], sp)
            offs0 = {repr(getattr(o_.env.get(hco), "off", None)) for o_ in pre_}
            if len(offs0) == 1 and isinstance(pre_[0].env.get(hco), Ptr):
                e0 = _const_or_none(pre_[0].env.get(hco).off)
        except Unsupported:
            e0 = None
    first = None
    if init is not None and init.get("kind") == "DeclStmt":
        v0 = next((v for v in C.kids(init) if v["kind"] == "VarDecl"), None)
        if v0 is not None and C.kids(v0):
            try:
                first = _const_or_none(ex.expr(C.kids(v0)[-1], State()))
            except Unsupported:
                first = None
    st = State()
    st.env[rv] = Rat(Poly.var(rv))
    st.env[hco] = Ptr("H", 0)
    for p_ in (xyz, nco, skip):
        st.env[p_] = Ptr(p_, 0)
    try:
        outs = ex.run(C.kids(lb) if lb.get("kind") == "CompoundStmt" else [lb], st)
        for o in outs:
            o.loopctl = None
            if inc is not None:
                ex.expr(inc, o)         # `++ri, hcoords += 4` in the loop header belongs to the iteration
    except Unsupported as e:
        ctx.undecided("C14-R3", C.line(fn), GEO, "ks_assign_hydrogens", "hydrogen position normal form", "not evaluable: %s" % e)
        return
    var = lambda n_: Rat(Poly.var(n_))     # noqa: E731
    ri = var(rv)

    def tab(k):
        return var("%s[%s]" % (nco, repr(3 * ri + k)))

    def X(idx, k):
        return var("%s[%s]" % (xyz, repr(3 * idx + k)))
    N = [X(tab(0), k) for k in range(3)]
    pc, po = tab(-2), tab(-1)
    Cp = [X(pc, k) for k in range(3)]
    Op = [X(po, k) for k in range(3)]
    d = [Cp[k] - Op[k] for k in range(3)]
    norm = ex.opaque_call("sqrt", [d[0] * d[0] + d[1] * d[1] + d[2] * d[2]])
    sk = var("%s[%s]" % (skip, rv))
    zero = Rat(Poly.const(0))
    seen = {"on_N": 0, "oriented": 0, "skipped": 0}
    def slot_ok(store_off, adv):
        """residue ri of the loop writes the four floats at 4*ri: with the pointer at e0 on entry (first iteration ri = first), advancing by a per
        iteration, and the store at store_off from the pointer:  e0 + a (ri - first) + store_off == 4 ri  for every ri"""
        if e0 is None or first is None or not isinstance(adv, Ptr):
            return False
        a = adv.off if isinstance(adv.off, Rat) else Rat(Poly.const(adv.off))
        if a.const_value() is None:
            return False
        if store_off is None:
            return True
        return Rat(Poly.const(e0)) + a * (ri - first) + store_off == 4 * ri
    advs = set()
    for o in outs:
        stored = {}
        for k_, v_ in o.env.items():
            if isinstance(k_, tuple) and len(k_) == 2 and k_[0] == "H":
                off_ = Rat(Poly.const(k_[1])) if isinstance(k_[1], int) else _SV.OFFVALS.get(k_[1])
                if off_ is not None:
                    stored[k_[1]] = (off_, v_)
        base_off = next((off_ for off_, v_ in stored.values() if not any((off_ - 1) == o2 for o2, _ in stored.values())), None)
        H = [next((v_ for off_, v_ in stored.values() if base_off is not None and off_ == base_off + k), None) for k in range(3)]
        adv = o.env.get(hco)
        advs.add(repr(getattr(adv, "off", None)))
        ok_adv = slot_ok(base_off, adv)
        facts = []
        for (cv, pol), (txt, _p) in zip(o.cexprs, o.cvals):
            facts += elementary_facts(ex, cv if cv is not None else txt, pol)
        shown = [(t[:50], p_) for t, p_ in o.cvals]
        if all(h is None for h in H):
            seen["skipped"] += 1
            ctx.decide(ok_adv and has_fact(facts, "!=", sk), "C14-R3", C.line(fn), GEO, "ks_assign_hydrogens", "skipped residue: nothing stored, the slots of the later residues stay in step", "", "path %s stores nothing%s" % (shown, "" if ok_adv else " and leaves the output pointer at %r" % (adv,)))
        elif all(H[k] is not None and H[k] == N[k] for k in range(3)):
            seen["on_N"] += 1
            ors = [f for f in facts if f[0] == "or"]
            exact = has_fact(facts, "==", sk) and len(ors) == 1 and sorted(repr(sorted(map(repr, alt))) for alt in ors[0][1]) == sorted(repr(sorted(map(repr, alt))) for alt in ([("<", pc)], [("<", po)]))
            ctx.decide(ok_adv and exact, "C14-R3", C.line(fn), GEO, "ks_assign_hydrogens", "fallback path H = N is taken exactly when the previous C or O is missing", "",
                       "the hydrogen is left on the nitrogen under %s: a residue whose predecessor still has its C=O (but lacks another atom) loses the N-H direction and with it its hydrogen bonds" % shown)
        else:
            want = [N[k] + Rat(Poly.const(1)) / 10 * d[k] / norm for k in range(3)]
            ok = all(H[k] is not None and _close_forms(H[k], want[k], tol=1e-6) for k in range(3)) and ok_adv
            seen["oriented"] += 1
            ok = ok and has_fact(facts, "==", sk) and has_fact(facts, "<=", zero - pc) and has_fact(facts, "<=", zero - po)
            ctx.decide(ok, "C14-R3", C.line(fn), GEO, "ks_assign_hydrogens", "H = N + 0.1 nm * (C' - O')/|C' - O'| of the previous residue", "",
                       "the hydrogen position on path %s is %s" % (shown, repr(H[0])[:160]))
    ctx.decide(seen == {"on_N": 1, "oriented": 1, "skipped": 1} and len(advs) == 1, "C14-R3", C.line(fn), GEO, "ks_assign_hydrogens", "three paths: skipped / H on N / H along the previous C=O; residue ri is stored at hcoords[4 ri]", "",
               "paths found: %s; the output pointer moves by %s per iteration" % (seen, sorted(advs)))
