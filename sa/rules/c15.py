"""C15  Secondary-structure codes follow the DSSP rules on the backbone H-bonds (structural part).

R1 code tables: enum ss_t <-> switch exhaustive and injective; the eight characters are exactly the keys of the simplified
   translation and the mapping equals the documented table; 'NA' is overlaid from the protein mask; one code per residue per frame
R2 incomplete residues never take part (sentinel discipline shared with C14-R4, plus the skip guards of the bridge / turn passes)
R3 chain-continuity and bounds guards dominate every i+-k access of the helix and bridge tests
"""
from __future__ import annotations

import ast
import re

from ..core import AnalysisError
from .. import cfront as C
from ..pyfront import dotted, call_name, kwarg, params, src, walk_no_nested, const
from . import c14

EXPLANATION = (
    "Table agreement and guard analysis for compute_dssp: the enum of secondary-structure states, the switch that maps it to "
    "characters, the Python translation table and the documented code list are extracted and compared (exhaustive, injective, "
    "documented image); the reshape / overlay that yields one code per residue per frame is checked; on the clang AST a guard "
    "analysis shows that residues with missing backbone atoms are excluded from every geometric access and from the bridge, turn "
    "and bend passes, and that every i+-k access of the bridge and helix tests is preceded by its bounds and same-chain tests.")
NOT_DECIDED = ["the DSSP rule logic over arbitrary H-bond patterns (helix priority, ladder merging, bulges): combinatorial, not decided",
               "agreement with the reference DSSP program"]
ASSUMPTIONS = ["documented codes: H B E G I T S and blank; simplified: H,G,I -> H; E,B -> E; T,S,blank -> C; non-protein residues -> 'NA'"]
FLOORS = {"C15-R1": 14, "C15-R2": 12, "C15-R3": 6, "C15-R4": 3, "C15-R5": 16}

DP = "mdtraj/geometry/dssp.py"
DC = "mdtraj/geometry/src/dssp.cpp"
HB = "mdtraj/geometry/hbond.py"
DOC_CODES = {"H": "SS_ALPHAHELIX", "B": "SS_BETABRIDGE", "E": "SS_STRAND", "G": "SS_HELIX_3", "I": "SS_HELIX_5", "T": "SS_TURN", "S": "SS_BEND", " ": "SS_LOOP"}
SIMPLE = {"H": "H", "G": "H", "I": "H", "E": "E", "B": "E", "T": "C", "S": "C", " ": "C"}


def check(ctx):
    ctx.rule("C15-R1", "enum ss_t and the switch in dssp() are in bijection with the eight documented characters; SIMPLIFIED_CODE_TRANSLATION is the documented 8 -> 3 map; "
                       "the result is reshaped to (n_frames, n_residues) and 'NA' is overlaid from the protein mask")
    ctx.rule("C15-R2", "coordinates are never read through the -1 sentinel and residues with skip[] set take no part in bridges, turns or bends")
    ctx.rule("C15-R3", "every chain_ids[i+-k] / hbonds access of the bridge and helix tests is dominated by its bounds test and same-chain test")
    cf = C.get(ctx.repo)
    ctx.analysed_files.add(DC)
    ctx.rule("C15-R4", "the parallel and antiparallel bulge tests are mirror images with the DSSP gap thresholds (< 6 / < 3, or < 3)")
    r4_bulge(ctx, cf)
    r4_live_extents(ctx, cf)
    ctx.rule("C15-R5", "minimal n-helices: two consecutive n-turns at i-1 and i mark residues i .. i+n-1; a conditional marking scans exactly the span it writes; order H, G, I; loop bounds keep reads and writes inside the chain array")
    r5_helix_spans(ctx, cf)

    # ---------------- R1 ------------------------------------------------------------------------
    fn = cf.function(DC, "dssp")
    ctx.analysed_functions.add(DC + ":dssp")
    # enum constants: referenced decls of kind EnumConstantDecl in the TU for ss_t -> read from source text (the enum is a one-liner)
    import os
    txt = open(os.path.join(ctx.repo, DC), errors="replace").read()
    m = re.search(r"enum\s+ss_t\s*\{([^}]*)\}", txt)
    if not m:
        raise AnalysisError("enum ss_t not found in dssp.cpp")
    enum = [x.strip() for x in m.group(1).replace("\n", " ").split(",") if x.strip()]
    # the character written for residue j of frame i, for every state of ss_t, by value numbering of the frame-loop body (a switch in place, a helper
    # function, a table: whatever form it has)
    fb = dssp_frame_by_value(ctx, cf)
    if fb["error"]:
        ctx.undecided("C15-R1", C.line(fn), DC, "dssp", "state -> character", fb["error"])
    else:
        cases = fb["codes"]
        ctx.decide(set(cases) == set(enum) and None not in cases.values(), "C15-R1", C.line(fn), DC, "dssp", "every ss_t state is written as one character", str(sorted(cases)),
                   "states for which no single character is written: %s" % sorted(k_ for k_, v_ in cases.items() if v_ is None))
        chars = [v for v in cases.values()]
        ctx.decide(len(set(chars)) == len(chars) and None not in chars, "C15-R1", C.line(fn), DC, "dssp", "switch is injective", str(cases), "two states map to the same character: %s" % cases)
        for ch, state in DOC_CODES.items():
            ctx.decide(cases.get(state) == ch, "C15-R1", C.line(fn), DC, "dssp", "state %s -> %r" % (state, ch), "", "state %s is printed as %r, documented code is %r" % (state, cases.get(state), ch))
    init = [n for n in C.walk(fn) if n["kind"] == "VarDecl" and n.get("name") == "framesecondary"]
    ok = bool(init) and "SS_LOOP" in C.text(C.kids(init[0])[-1])
    ctx.decide(ok, "C15-R1", C.line(init[0]) if init else C.line(fn), DC, "dssp", "default state is SS_LOOP", "", "per-frame assignment does not start from SS_LOOP")
    # python table
    mod = ctx.py.mod(DP)
    tr = mod.module_assign("SIMPLIFIED_CODE_TRANSLATION")
    mp = None
    if isinstance(tr, ast.Call) and call_name(tr) == "str.maketrans" and len(tr.args) == 2:
        a, b = const(tr.args[0]), const(tr.args[1])
        if isinstance(a, str) and isinstance(b, str) and len(a) == len(b):
            mp = dict(zip(a, b))
    ctx.decide(mp == SIMPLE, "C15-R1", tr or mod.tree, DP, "SIMPLIFIED_CODE_TRANSLATION", "8 -> 3 translation equals the documented table", str(mp), "translation table is %s, documented %s" % (mp, SIMPLE))
    _r1_python_by_evaluation(ctx)
    # the pyx wrapper allocates n_frames * n_residues characters
    pw = ctx.py.func("mdtraj/geometry/src/_geometry.pyx", "_dssp")
    ctx.decide("bytearray(n_frames * n_residues)" in src(pw), "C15-R1", pw, "mdtraj/geometry/src/_geometry.pyx", "_dssp", "output buffer n_frames*n_residues", "", "output buffer size changed")

    # ---------------- R2 -------------------------------------------------------------------------
    c14.r4_sentinels(ctx, "C15-R2")
    # skip[] definition: any of N, C, O, CA missing
    sk = [n for n in C.walk(fn) if n["kind"] == "IfStmt" and "skip" in C.text(n)[:0] or (n["kind"] == "IfStmt" and "(-1)" in C.text(C.kids(n)[0]))]
    cond = re.sub(r"\s", "", C.text(C.kids(sk[0])[0])) if sk else ""
    need = ["nco_indices[(i*3)]==(-1)", "nco_indices[((i*3)+1)]==(-1)", "nco_indices[((i*3)+2)]==(-1)", "ca_indices[i]==(-1)"]
    ctx.decide(all(x in cond for x in need) and "&&" not in cond, "C15-R2", C.line(sk[0]) if sk else C.line(fn), DC, "dssp", "skip[i] set when any of N, C, O, CA is missing", "", "skip condition is %s" % cond[:120])
    # bridges and turns exclude skipped residues
    bs = cf.function(DC, "calculate_beta_sheets")
    conts = [re.sub(r"\s", "", C.text(C.kids(n)[0])) for n in C.walk(bs) if n["kind"] == "IfStmt" and C._always_leaves(C.kids(n)[1])]
    ctx.decide(any("skip[i]" in c and "skip[j]" in c and "||" in c for c in conts), "C15-R2", C.line(bs), DC, "calculate_beta_sheets", "bridge candidates with a skipped residue are discarded", "",
               "bridges are no longer filtered on skip[i] || skip[j]: %s" % conts[:3])
    ah = cf.function(DC, "calculate_alpha_helices")
    g = C.guards(ah)
    turn = [n for n in C.walk(ah) if n["kind"] == "BinaryOperator" and n.get("opcode") == "=" and "SS_TURN" in C.text(C.kids(n)[1])]
    ok = bool(turn) and ("skip[i]", False) in g.get(turn[0]["id"], [])
    ctx.decide(ok, "C15-R2", C.line(turn[0]) if turn else C.line(ah), DC, "calculate_alpha_helices", "turn / bend only for residues with !skip[i]", "", "turn / bend assignment is not guarded by !skip[i]")

    # ---------------- R3 -------------------------------------------------------------------------
    tb = cf.function(DC, "_residue_test_bridge")
    g = C.guards(tb)
    calls = [n for n in C.walk(tb) if n["kind"] == "CallExpr" and C.callee_name(n) == "_test_bond"]
    need = [("(a>=0)", True), ("(c<n_residues)", True), ("(chain_ids[a]==chain_ids[c])", True), ("(d>=0)", True), ("(f<n_residues)", True), ("(chain_ids[d]==chain_ids[f])", True)]
    need = [C.canon_fact(x) for x in need]
    bad = [C.line(c) for c in calls if not all(x in C.canon_facts(g.get(c["id"], [])) for x in need)]
    ctx.decide(bool(calls) and not bad, "C15-R3", C.line(tb), DC, "_residue_test_bridge", "every H-bond test of a bridge is under the bounds and same-chain tests of both strands (%d tests)" % len(calls), "",
               "_test_bond calls at lines %s are not dominated by the i+-1 bounds and chain-continuity tests" % bad)
    # chain_ids[a] accessed after a >= 0 etc.
    for nm, lo in (("a", "(a>=0)"), ("c", "(c<n_residues)"), ("d", "(d>=0)"), ("f", "(f<n_residues)")):
        acc = [n for n in C.walk(tb) if n["kind"] == "ArraySubscriptExpr" and C.ref_name(C.kids(n)[0]) == "chain_ids" and C.text(C.kids(n)[1]) == nm]
        ok = bool(acc) and all(C.canon_fact((lo, True)) in C.canon_facts(g.get(n["id"], [])) for n in acc)
        ctx.decide(ok, "C15-R3", C.line(acc[0]) if acc else C.line(tb), DC, "_residue_test_bridge", "chain_ids[%s] read after %s" % (nm, lo), "", "chain_ids[%s] is read before its bounds test" % nm)
    # helix: _test_bond(i+stride, i) under (i+stride) < n_residues ... and chain equality required in the same condition
    hl = [n for n in C.walk(ah) if n["kind"] == "IfStmt" and "_test_bond(" in C.text(C.kids(n)[0])]
    ok = False
    if hl:
        ct = re.sub(r"\s", "", C.text(C.kids(hl[0])[0]))
        ok = ct.index("((i+stride)<n_residues)") < ct.index("_test_bond((i+stride),i,hbonds)") if "((i+stride)<n_residues)" in ct and "_test_bond((i+stride),i,hbonds)" in ct else False
        ok = ok and "(chain_ids[i]==chain_ids[(i+stride)])" in ct
    ctx.decide(ok, "C15-R3", C.line(hl[0]) if hl else C.line(ah), DC, "calculate_alpha_helices", "n-turn test: bounds first, H-bond (i+n -> i), same chain", "",
               "the n-turn condition lost its bounds / chain test: %s" % (C.text(C.kids(hl[0])[0])[:120] if hl else None))
    strides = [n for n in C.walk(ah) if n["kind"] == "ForStmt" and "stride" in C.text(C.kids(n)[1])]
    ok = bool(strides) and re.sub(r"\s", "", C.text(C.kids(strides[0])[1])) == "(stride<=5)"
    ctx.decide(ok, "C15-R3", C.line(strides[0]) if strides else C.line(ah), DC, "calculate_alpha_helices", "turn lengths 3, 4, 5", "", "stride loop bounds changed")


def r4_live_extents(ctx, cf):
    """Ladders grow while they are merged (bridges[i].i / .j get the residues of bridges[j] appended): a local that holds something read from
    an element of `bridges` must be read again after that element has been changed.  For every loop of calculate_beta_sheets that contains a
    mutation of bridges[x].<field> (insert / push_back / erase / assign ...), every local initialised from bridges[x] that is used inside the
    loop is declared inside it too - otherwise the second and later iterations compare the extent the ladder had before the merge (a ladder
    with two bulges is then cut in two)."""
    fn = cf.function(DC, "calculate_beta_sheets")
    MUT = {"insert", "push_back", "emplace_back", "erase", "assign", "clear", "pop_back", "resize", "swap", "push_front", "pop_front"}
    loops = [n for n in C.walk(fn) if n["kind"] in ("ForStmt", "WhileStmt", "DoStmt", "CXXForRangeStmt")]
    inside = {id(l_): {id(x) for x in C.walk(l_)} for l_ in loops}
    elem = re.compile(r"(\w+)\[(\w+)\]\.(\w+)")
    decls = []
    for v in C.walk(fn):
        if v["kind"] == "VarDecl" and C.kids(v):
            m = next((m_ for x_ in C.walk(C.kids(v)[-1]) for m_ in [elem.search(re.sub(r"\s", "", C.text(x_)))] if m_), None)
            if m:
                decls.append((v, m.group(1), m.group(2)))
    muts = []
    for c in C.walk(fn):
        if c["kind"] == "CXXMemberCallExpr" and C.callee_name(c) in MUT:
            obj = C.kids(C.strip(C.kids(c)[0]))
            m = elem.match(re.sub(r"\s", "", C.text(obj[0]))) if obj else None
            if m:
                muts.append((c, m.group(1), m.group(2)))
    if not muts or not decls:
        raise AnalysisError("calculate_beta_sheets: ladder merging (%d mutations of an element of a vector, %d locals read from one) not found" % (len(muts), len(decls)))
    bad = []
    for (c, arr, idx) in muts:
        for l_ in loops:
            if id(c) not in inside[id(l_)]:
                continue
            for (v, arr2, idx2) in decls:
                if (arr2, idx2) != (arr, idx) or id(v) in inside[id(l_)]:
                    continue
                used = [x for x in C.walk(l_) if x["kind"] == "DeclRefExpr" and x.get("referencedDecl", {}).get("id") == v.get("id")]
                if used:
                    bad.append((v.get("name"), C.line(v), C.line(c), C.line(l_)))
    ctx.decide(not bad, "C15-R4", C.line(fn), DC, "calculate_beta_sheets", "ladder extents compared in the merge loop are read after the merges that change them (%d merges, %d locals)" % (len(muts), len(decls)), "",
               "; ".join("`%s` (line %s) is read from the ladder before the loop at line %s, in which the ladder grows (line %s): later iterations compare the extent the ladder had before the merge"
                         % (n_, lv, ll, lc) for n_, lv, lc, ll in bad[:2]))


def r4_bulge(ctx, cf):
    """The two bulge tests of calculate_beta_sheets are mirror images (Kabsch & Sander: a gap of at most four residues on one strand and one on the other)."""
    fn = cf.function(DC, "calculate_beta_sheets")
    ctx.analysed_functions.add(DC + ":calculate_beta_sheets")
    asg = [n for n in C.walk(fn) if n["kind"] == "BinaryOperator" and n.get("opcode") == "=" and C.ref_name(C.kids(n)[0]) == "bulge"]
    if len(asg) != 2:
        raise AnalysisError("calculate_beta_sheets: expected two assignments to `bulge`, found %d" % len(asg))
    g = C.guards(fn)
    par = anti = None
    for a in asg:
        facts = g.get(a["id"], [])
        t = re.sub(r"\s", "", C.text(C.kids(a)[1]))
        if any("BRIDGE_PARALLEL" in f and p for f, p in facts):
            par = (a, t)
        elif any("BRIDGE_PARALLEL" in f and not p for f, p in facts):
            anti = (a, t)
    if par is None or anti is None:
        raise AnalysisError("calculate_beta_sheets: parallel / antiparallel bulge branches not recognised")
    mirrored = par[1].replace("(jbj-jei)", "(jbi-jej)").replace("(jbj>jbi)", "(jbj<jbi)")
    ctx.decide(mirrored == anti[1], "C15-R4", C.line(anti[0]), DC, "calculate_beta_sheets", "antiparallel bulge test = mirror image of the parallel one", "",
               "the antiparallel bulge test %s is not the mirror image of the parallel test %s: ladders are merged (or kept apart) differently in the two sheet types" % (anti[1], par[1]))
    for nm, (a, t) in (("parallel", par), ("antiparallel", anti)):
        cmps = re.findall(r"\(\((\w+)-(\w+)\)(<=|<|>=|>)(\d+)\)", t)
        got = [(op, int(v)) for _, _, op, v in cmps]
        ctx.decide(got == [("<", 6), ("<", 3), ("<", 3)], "C15-R4", C.line(a), DC, "calculate_beta_sheets", "%s bulge gaps: < 6 with < 3 on the other strand, or < 3" % nm, "",
                   "the %s bulge thresholds are %s; DSSP merges ladders separated by at most 4 residues on one strand and 1 on the other (gaps < 6 and < 3)" % (nm, got))


# ---------------------------------------------------------------------------------------------------
def _init_text(n):
    """`v=<init>` of a for-loop initialiser (declaration or assignment), white space and parentheses removed."""
    if n["kind"] == "DeclStmt":
        d = [k for k in C.kids(n) if k["kind"] == "VarDecl"]
        if len(d) == 1 and C.kids(d[0]):
            return "%s=%s" % (d[0].get("name"), re.sub(r"[\s()]", "", C.text(C.kids(d[0])[-1])))
        return ""
    return re.sub(r"[\s()]", "", C.text(n))


def _j_span(loop):
    """(first, last) offsets relative to i of a `for (j = i; [flag &&] j <= i + K; ++j)` loop, or None."""
    inner = loop.get("inner", [])
    if len(inner) < 5 or not inner[0] or not inner[2]:
        return None
    init = _init_text(inner[0])
    cond = re.sub(r"[\s()]", "", C.text(inner[2]))
    m0 = re.search(r"j=i([+-]\d+)?;?$", init)
    m1 = re.search(r"j(<=|<)i([+-]\d+)?$", cond.split("&&")[-1])
    if not m0 or not m1:
        return None
    lo = int(m0.group(1) or 0)
    hi = int(m1.group(2) or 0) - (1 if m1.group(1) == "<" else 0)
    return lo, hi


def r5_helix_spans(ctx, cf):
    """Minimal n-helix (two consecutive n-turns at i-1 and i): residues i .. i+n-1 are marked, and where the marking is conditional on the span
    being free, the scan covers exactly the residues that are written; H before G before I; outer loops stay n residues away from the end."""
    fn = cf.function(DC, "calculate_alpha_helices")
    ctx.analysed_functions.add(DC + ":calculate_alpha_helices")
    code = {4: "SS_ALPHAHELIX", 3: "SS_HELIX_3", 5: "SS_HELIX_5"}
    may_overwrite = {3: {"SS_LOOP", "SS_HELIX_3"}, 5: {"SS_LOOP", "SS_HELIX_5", "SS_ALPHAHELIX"}}
    blocks = {}
    order = []
    for outer in [n for n in C.kids(C.body_of(fn)) if n["kind"] == "ForStmt"]:
        inner = outer.get("inner", [])
        body = inner[4] if len(inner) >= 5 else None
        ifs = [n for n in C.walk(body)] if body else []
        ifs = [n for n in ifs if n["kind"] == "IfStmt" and "helix_flags[i]" in re.sub(r"\s", "", C.text(C.kids(n)[0])) and "helix_flags[(i-1)]" in re.sub(r"\s", "", C.text(C.kids(n)[0])).replace("helix_flags[i-1]", "helix_flags[(i-1)]")]
        if not ifs:
            continue
        cond = re.sub(r"\s", "", C.text(C.kids(ifs[0])[0]))
        strides = set(int(x) for x in re.findall(r"helix_flags\[\(?i(?:-1)?\)?\]\[(\d)\]", cond))
        if len(strides) != 1:
            ctx.violated("C15-R5", C.line(ifs[0]), DC, "calculate_alpha_helices", "two consecutive turns of the same stride", "the condition mixes strides %s: %s" % (sorted(strides), cond[:120]))
            continue
        n = strides.pop()
        order.append(n)
        blocks[n] = (outer, ifs[0], cond)
    ctx.decide(order == [4, 3, 5], "C15-R5", C.line(fn), DC, "calculate_alpha_helices", "marking order alpha (4), 3-10 (3), pi (5)", "", "helix marking blocks come in the order %s: the priority H > G > I changes" % order)
    for n, (outer, ifn, cond) in sorted(blocks.items()):
        want = code.get(n)
        ok = cond.count("HELIX_START") >= 4 and cond.count("HELIX_START_AND_END") >= 2 and "||" in cond and "&&" in cond
        ctx.decide(ok, "C15-R5", C.line(ifn), DC, "calculate_alpha_helices", "%d-helix: turn starts at i-1 and i (START or START_AND_END)" % n, "", "condition is %s" % cond[:160])
        loops = [l for l in C.walk(C.kids(ifn)[1]) if l["kind"] == "ForStmt"]
        writes = [l for l in loops if any(c["kind"] == "BinaryOperator" and c.get("opcode") == "=" and C.root_var(C.kids(c)[0])[0] == "secondary" for c in C.walk(l))]
        scans = [l for l in loops if l not in writes]
        if len(writes) != 1:
            ctx.undecided("C15-R5", C.line(ifn), DC, "calculate_alpha_helices", "%d-helix write loop" % n, "expected one loop storing into secondary[], found %d" % len(writes))
            continue
        w = writes[0]
        span = _j_span(w)
        st = [c for c in C.walk(w) if c["kind"] == "BinaryOperator" and c.get("opcode") == "=" and C.root_var(C.kids(c)[0])[0] == "secondary"][0]
        val = re.sub(r"\s", "", C.text(C.kids(st)[1]))
        idx = re.sub(r"[\s()]", "", C.text(C.kids(st)[0]))
        ctx.decide(span == (0, n - 1) and val == want and idx == "secondary[j]", "C15-R5", C.line(w), DC, "calculate_alpha_helices", "%d-helix marks residues i .. i+%d with %s" % (n, n - 1, want), "",
                   "the write loop covers offsets %s and stores %s into %s (a minimal %d-helix is residues i .. i+%d)" % (span, val, idx, n, n - 1))
        if n in may_overwrite:
            if len(scans) != 1:
                ctx.violated("C15-R5", C.line(ifn), DC, "calculate_alpha_helices", "%d-helix is marked only over a free span" % n, "found %d scan loops before the marking" % len(scans))
                continue
            sspan = _j_span(scans[0])
            toks = {c["referencedDecl"].get("name") for c in C.walk(scans[0]) if c["kind"] == "DeclRefExpr" and (c["referencedDecl"].get("name") or "").startswith("SS_")}
            ctx.decide(sspan == span and sspan is not None, "C15-R5", C.line(scans[0]), DC, "calculate_alpha_helices", "%d-helix: the free-span scan covers exactly the residues that are written" % n, "",
                       "the scan covers offsets %s but offsets %s are overwritten: a residue that already belongs to another element is not looked at" % (sspan, span))
            ctx.decide(toks == may_overwrite[n], "C15-R5", C.line(scans[0]), DC, "calculate_alpha_helices", "%d-helix may overwrite only %s" % (n, sorted(may_overwrite[n])), "", "the scan accepts %s" % sorted(toks))
            guard = [c for c in C.walk(C.kids(ifn)[1]) if c["kind"] == "IfStmt" and w in list(C.walk(c))]
            ctx.decide(bool(guard) and re.sub(r"[\s()]", "", C.text(C.kids(guard[0])[0])) == "empty", "C15-R5", C.line(w), DC, "calculate_alpha_helices", "%d-helix write is guarded by the scan result" % n, "", "the write loop is not under `if (empty)`")
        oc = re.sub(r"[\s()]", "", C.text(outer["inner"][2])) if outer.get("inner") and outer["inner"][2] else ""
        oi = _init_text(outer["inner"][0]) if outer.get("inner") and outer["inner"][0] else ""
        ctx.decide(oc == "i<n_residues-%d" % n and oi.rstrip(";").endswith("i=1"), "C15-R5", C.line(outer), DC, "calculate_alpha_helices", "%d-helix: i runs over 1 .. n_residues-%d-1 (reads i-1, writes up to i+%d)" % (n, n, n - 1), "",
                   "outer loop is `%s; %s`" % (oi, oc))
    if sorted(blocks) != [3, 4, 5]:
        raise AnalysisError("calculate_alpha_helices: helix marking blocks found for strides %s (3, 4, 5 confirmed by hand)" % sorted(blocks))


def _r1_python_by_evaluation(ctx):
    """compute_dssp and _prep_kabsch_sander_arrays evaluated (sa/tensym.py) on a model trajectory of eight residues - complete, proline,
    one without O, a water whose oxygen is called O, one with its atoms listed backwards, a ligand with N, C, O but no CA, a lone CA, a complete backbone under an unknown residue name: the index arrays are the ones the definition gives
    (-1 for a missing atom, protein = has N, CA, C and O), the kernel receives them in the order of its signature, and the result is, per
    frame and residue, the kernel's character (its simplified image when asked) or 'NA' for a residue that is not a complete protein residue."""
    from ..tensym import TenSym, Ten, Obj
    from ..pysym import Unsupported as PUnsupported
    from ..poly import Poly, Rat
    cd = ctx.py.func(DP, "compute_dssp")
    pk = ctx.py.func(HB, "_prep_kabsch_sander_arrays")
    gm = ctx.py.func(HB, "_get_or_minus1")
    res_spec = [("ALA", ["CB", "N", "CA", "C", "O"]), ("PRO", ["N", "CA", "C", "O", "CD"]), ("SER", ["N", "CA", "C"]), ("HOH", ["O", "H1", "H2"]), ("GLY", ["O", "C", "CA", "N"]),
                ("LIG", ["N", "C", "O", "C1"]), ("CAL", ["CA"]), ("XYZ", ["N", "CA", "C", "O"])]     # XYZ: a complete backbone under a name no residue table knows
    standard = {"ALA", "PRO", "SER", "GLY"}
    atoms, residues = [], []
    for k, (rn, names) in enumerate(res_spec):
        r = Obj(name=rn, atoms=[], chain=Obj(index=0 if k < 3 else 1), index=k, resSeq=k + 1, is_protein=rn in standard, is_water=rn == "HOH", is_nucleic=False)
        residues.append(r)
        for nm in names:
            a_ = Obj(name=nm, index=len(atoms), residue=r)
            atoms.append(a_)
            r.atoms.append(a_)
    F_ = 2
    R_ = len(residues)
    xyz = Ten.sym("x", (F_, len(atoms), 3))
    top = Obj(residues=residues, atoms=atoms)
    traj = Obj(xyz=xyz, topology=top, top=top)
    # _get_or_minus1(f): f() or -1 when the list it indexes is empty - read off its source
    ok_gm = any(isinstance(n, ast.Try) and any(h.type is not None and "IndexError" in src(h.type) and any(isinstance(x, ast.Return) and src(x.value) == "-1" for x in h.body) for h in n.handlers)
                for n in ast.walk(gm))
    ctx.decide(ok_gm, "C15-R1", gm, HB, "_get_or_minus1", "a missing atom (IndexError) becomes -1", "", "_get_or_minus1 no longer maps a missing atom to the sentinel -1")

    from ..tensym import Raised as _TRaised

    def gom(ev, call):
        lam = ev.ex(call.args[0])
        try:
            return ev.apply_lambda(lam, [])
        except IndexError:
            return -1
        except _TRaised as e_:
            if (e_.exc or "").startswith("IndexError"):
                return -1
            raise

    def idx(rk, nm):
        return next((a_.index for a_ in residues[rk].atoms if a_.name == nm), -1)
    want = {"nco": [[idx(k, "N"), idx(k, "C"), idx(k, "O")] for k in range(R_)], "ca": [idx(k, "CA") for k in range(R_)], "pro": [int(res_spec[k][0] == "PRO") for k in range(R_)],
            "protein": [int(all(idx(k, nm) != -1 for nm in ("N", "CA", "C", "O"))) for k in range(R_)]}
    q = "_prep_kabsch_sander_arrays"
    prepared = None
    try:
        ts = TenSym(models={"_get_or_minus1": gom, "ensure_type": lambda ev, c: ev.ex(c.args[0])})
        r = ts.run_fn(pk, traj=traj)
        if not (isinstance(r, (tuple, list)) and len(r) == 5 and all(isinstance(x, Ten) for x in r)):
            ctx.violated("C15-R1", pk, HB, q, "returns (xyz, nco_indices, ca_indices, proline_indices, is_protein)", "the return value is not five arrays")
        else:
            def ints(t):
                v = [x.const_value() for x in t.data]
                return None if any(c is None for c in v) else [int(c) for c in v]
            got = {"nco": ints(r[1]), "ca": ints(r[2]), "pro": ints(r[3]), "protein": ints(r[4])}
            flat = {"nco": [x for row in want["nco"] for x in row], "ca": want["ca"], "pro": want["pro"], "protein": want["protein"]}
            shapes = {"nco": (R_, 3), "ca": (R_,), "pro": (R_,), "protein": (R_,)}
            texts = {"nco": "nco_indices[r] = (N, C, O) atom indices of residue r, -1 when missing", "ca": "ca_indices[r] = index of CA, -1 when missing",
                     "pro": "proline flag = residue name is PRO", "protein": "protein mask = has all of N, CA, C, O"}
            for pos, key in ((1, "nco"), (2, "ca"), (3, "pro"), (4, "protein")):
                ok = r[pos].shape == shapes[key] and got[key] == flat[key]
                ctx.decide(ok, "C15-R1", pk, HB, q, texts[key], "", "on the model residues %s the array is %s (shape %s), the definition gives %s"
                           % ([x[0] for x in res_spec], got[key], r[pos].shape, flat[key]))
            ctx.decide(r[0] is xyz or (isinstance(r[0], Ten) and ts.first_difference(r[0], xyz) is None), "C15-R1", pk, HB, q, "xyz = the coordinates of the trajectory", "", "the coordinates handed on are not traj.xyz")
            prepared = r
    except PUnsupported as e:
        ctx.undecided("C15-R1", pk, HB, q, "index arrays on the model residues", "not evaluable: %s" % e)
    # ---- compute_dssp
    q = "compute_dssp"
    if prepared is None:
        prepared = (xyz, Ten((R_, 3), [Rat(Poly.const(x)) for row in want["nco"] for x in row]), Ten((R_,), [Rat(Poly.const(x)) for x in want["ca"]]),
                    Ten((R_,), [Rat(Poly.const(x)) for x in want["pro"]]), Ten((R_,), [Rat(Poly.const(x)) for x in want["protein"]]))
    for simplified in (False, True):
        rec = {}

        def kernel(ev, call):
            rec["args"] = [ev.ex(a_) for a_ in call.args] + [ev.ex(k.value) for k in call.keywords]
            n_res = rec["args"][1].shape[0] if len(rec["args"]) > 1 and isinstance(rec["args"][1], Ten) else R_       # one character per frame and residue handed over
            chars = [Rat(Poly.var("code[%d,%d]" % (f, r_))) for f in range(F_) for r_ in range(n_res)]

            def mk(cs):
                return Obj(tag="str", chars=cs, translate=lambda table: mk([ev.fn("simplified", c) for c in cs]) if getattr(table, "tag", None) == "table" else None)
            return mk(chars)

        def fromiter(ev, call):
            v = ev.ex(call.args[0])
            dt = call.args[1] if len(call.args) > 1 else next((k.value for k in call.keywords if k.arg == "dtype"), None)
            rec["dtype"] = src(dt) if dt is not None else None
            if not (isinstance(v, Obj) and getattr(v, "tag", None) == "str"):
                raise PUnsupported("np.fromiter of something that is not the kernel's string")
            return Ten((len(v.chars),), list(v.chars))
        ts = TenSym({"SIMPLIFIED_CODE_TRANSLATION": Obj(tag="table")}, models={"_prep_kabsch_sander_arrays": lambda ev, c: tuple(prepared), "_geometry._dssp": kernel, "np.fromiter": fromiter})
        desc = "simplified=%s" % simplified
        try:
            out = ts.run_fn(cd, traj=traj, simplified=simplified)
        except PUnsupported as e:
            ctx.undecided("C15-R1", cd, DP, q, desc + ": result on the model trajectory", "not evaluable: %s" % e)
            continue
        args = rec.get("args") or []
        chain_ids = [0 if k < 3 else 1 for k in range(R_)]
        ok = len(args) == 5 and all(args[k] is prepared[k] or (isinstance(args[k], Ten) and ts.first_difference(args[k], prepared[k]) is None) for k in range(4)) and \
            isinstance(args[4], Ten) and [x.const_value() for x in args[4].data] == chain_ids
        ctx.decide(ok, "C15-R1", cd, DP, q, desc + ": kernel receives (xyz, nco_indices, ca_indices, proline flags, chain index of every residue)", "",
                   "the arguments of _geometry._dssp are not the prepared arrays in the order of its signature followed by the residues' chain indices")
        wanted = []
        for f in range(F_):
            for r_ in range(R_):
                c = Rat(Poly.var("code[%d,%d]" % (f, r_)))
                wanted.append(Rat(Poly.var(repr("NA"))) if not want["protein"][r_] else (ts.fn("simplified", c) if simplified else c))
        wt = Ten((F_, R_), wanted)
        if isinstance(out, Ten):
            out = Ten(out.shape, [Rat(Poly.var(repr(x_))) if isinstance(x_, str) else x_ for x_ in out.data])      # a text element ('NA' from np.full) is a value like the others
        ok = isinstance(out, Ten) and out.shape == (F_, R_) and ts.first_difference(out, wt) is None
        ctx.decide(ok, "C15-R1", cd, DP, q, desc + ": out[f, r] = %s, 'NA' where the residue lacks one of N, CA, C, O" % ("the fixed 3-letter image of the kernel's character" if simplified else "the kernel's character for frame f, residue r"), "",
                   "the result %s" % ("has shape %s instead of (n_frames, n_residues)" % (getattr(out, "shape", None),) if not (isinstance(out, Ten) and out.shape == (F_, R_)) else ts.first_difference(out, wt)))
        dt = (rec.get("dtype") or "").replace('"', "'")
        m = re.search(r"U(\d+)", dt)
        ctx.decide(bool(m) and int(m.group(1)) >= 2, "C15-R1", cd, DP, q, desc + ": element type can hold 'NA' (%s)" % dt, "", "the characters are collected with dtype %s, which cannot hold the two-character code 'NA'" % (dt or None))


def dssp_frame_by_value(ctx, cf):
    """The body of dssp()'s frame loop by value numbering (sa/symval.py) for a symbolic frame i and residue j, once per state of ss_t put into
    framesecondary[j]: -> dict(codes={state: character written, or None}, offsets={state: offset into `secondary`}, frame_ptrs=[pointer handed to the
    per-frame kernels], error=None | text).  The three per-frame kernels are summarised as calls that return nothing."""
    from ..symval import SymExec, State, Ptr, Unsupported as CUnsup
    from ..poly import Poly, Rat
    import os
    fn = cf.function(DC, "dssp")
    txt = open(os.path.join(ctx.repo, DC), errors="replace").read()
    m = re.search(r"enum\s+ss_t\s*\{([^}]*)\}", txt)
    if not m:
        raise AnalysisError("enum ss_t not found in dssp.cpp")
    enum = [x.strip().split("=")[0].strip() for x in m.group(1).replace("\n", " ").split(",") if x.strip()]
    loops = [n for n in C.walk(C.body_of(fn)) if n["kind"] == "ForStmt" and len(C.kids(n)) > 1 and "n_frames" in C.text(C.kids(n)[1])]
    if not loops:
        raise AnalysisError("dssp(): frame loop not found")
    body = [x for x in loops[0]["inner"] if isinstance(x, dict) and x.get("kind") == "CompoundStmt"]
    if not body:
        raise AnalysisError("dssp(): the frame loop has no compound body")
    ivar = None
    init = C.kids(loops[0])[0]
    if init.get("kind") == "DeclStmt":
        ivar = C.kids(init)[0].get("name")
    out = dict(codes={}, offsets={}, frame_ptrs=[], error=None, enum=enum, loop=loops[0], ivar=ivar)
    seen_ptrs = []

    def model(name, args, n, st, ex):
        if name in ("kabsch_sander", "calculate_beta_sheets", "calculate_alpha_helices"):
            if args and isinstance(args[0], Ptr) and name != "calculate_beta_sheets":
                seen_ptrs.append((name, args[0]))
            return Rat(Poly.const(0))
        if name in ("resize", "assign", "clear", "push_back", "reserve"):
            return Rat(Poly.const(0))
        return None
    for state in enum:
        ex = SymExec(cf, DC, call_model=model, symbolic_loops={"*"})
        st = State()
        for p_ in C.fparams(fn):
            nm = p_.get("name")
            st.env[nm] = Ptr(nm, 0) if ("*" in C.qtype(p_) or "[" in C.qtype(p_)) else st.sym(nm)
        if ivar:
            st.env[ivar] = Rat(Poly.var(ivar))
        st.env[("framesecondary", "j")] = Rat(Poly.var(state))
        del seen_ptrs[:]
        try:
            outs = ex.run(C.kids(body[0]), st)
        except CUnsup as e:
            out["error"] = "not evaluable: %s" % e
            return out
        wr = []
        for o in outs:
            for k_, v_ in o.env.items():
                if isinstance(k_, tuple) and k_[0] == "secondary":
                    wr.append((k_[1], v_, o))
        if len(wr) != 1:
            out["codes"][state] = None
            out["offsets"][state] = None
            continue
        off, val, o = wr[0]
        c_ = val.const_value() if isinstance(val, Rat) else None
        out["codes"][state] = chr(int(c_)) if c_ is not None and c_.denominator == 1 and 0 <= c_ < 256 else None
        out["offsets"][state] = (ex.__dict__.get("offvals") or {}).get(off, off)
        out["frame_ptrs"] = list(seen_ptrs)
    return out
