"""C16  Derived descriptors equal their defining formulas (the exact-arithmetic part).

The property asks for numerical equality with closed-form expressions.  Floating-point agreement is not decided.  What is decided,
for all inputs and in exact arithmetic, is that the *formula the code evaluates is the defining one* (algebraic value numbering of the
C and Python sources against the definitions held in the checker), and that the index bookkeeping of the results is consistent:

R1 online moments (moments.cpp): clear; base case; the update step preserves  u = S1/n, M2 = S2 - S1^2/n, M3 = S3 - 3 S1 S2/n + 2 S1^3/n^2  for symbolic n (induction); read-outs
R2 DRID: reciprocal distances of the non-bonded, non-self partners are pushed; (mean, sqrt(second), cbrt(third)) are stored per atom
R3 shape: gyration tensor = <(r-c)(r-c)^T>, principal moments = its eigenvalues in ascending order, asphericity / acylindricity / relative shape anisotropy formulas
R4 centres and radius of gyration: centre of geometry = mean, centre of mass = normalised mass-weighted mean, Rg^2 = sum_i w_i |r_i - centre|^2
R5 compute_contacts bookkeeping: residue membership per scheme, cartesian product, running offset, min / soft-min, labels in lock-step
R6 density = total mass / cell volume * (amu/nm^3 -> kg/m^3)
R7 radial distribution function: bin centres, shell volume 4/3 pi (r1^3 - r0^3), normalisation n_pairs * sum(1/V_cell) * V_shell
R8 Karplus relation J = A cos^2(phi + phi0) + B cos(phi + phi0) + C with per-coupling coefficient tables and the phi torsion
"""
from __future__ import annotations

import ast
import re

from ..core import AnalysisError
from .. import cfront as C
from ..pyfront import dotted, call_name, kwarg, params, src, walk_no_nested, const
from ..poly import Poly, Rat
from ..symval import SymExec, State, Unsupported as CUnsupported, Ptr
from ..pysym import PySym, Vec, Unsupported as PUnsupported

EXPLANATION = (
    "Formula identity in exact arithmetic, decided by algebraic value numbering: the single-pass moment recurrences are shown to preserve their defining sums for a symbolic count (an induction step, "
    "not a sample); the Karplus relation and the shape descriptors built on the principal moments are reduced to rational normal forms; and the whole-array numpy descriptors - centres of geometry and "
    "mass, radius of gyration, gyration and inertia tensors, Q tensor and nematic order, density, dipole moments, compute_contacts, squareform, compute_rdf and compute_rdf_t - are evaluated by "
    "sa/tensym.py on a generic instance of every axis (2 frames x 4 atoms x 3 components, pairwise different lengths, every element a distinct symbol; model topologies with residues of unequal "
    "size) and compared element for element with the definition built by the rule; eigen-solvers, histograms, minima and the distance kernels are opaque and the rule checks what they are applied to. "
    "Nothing of mdtraj is executed; the model of the numpy operations is the checker's own.  Double-precision evaluation, eigen-solver accuracy and histogram edge conventions are numerical and are not decided.")
NOT_DECIDED = ["floating-point agreement with the closed forms", "np.linalg.eigvalsh / np.histogram internals", "which eigenvector _compute_director picks (argmin over symbolic eigenvalues)",
               "dielectric constant, isothermal compressibility, thermal expansion", "the numerical values of the published Karplus coefficients"]
ASSUMPTIONS = ["np.linalg.eigvalsh returns eigenvalues in ascending order", "1 amu / nm^3 = 1.66053907 kg / m^3",
               "the numpy operations modelled in sa/tensym.py are uniform in the axis lengths: an identity that holds on the generic instance (all axis lengths pairwise different) holds for every shape",
               "compute_displacements returns minimum-image r[pair[1]] - r[pair[0]] (established by C05's kernel value numbering)"]
FLOORS = {"C16-R1": 8, "C16-R2": 7, "C16-R3": 6, "C16-R4": 5, "C16-R5": 12, "C16-R6": 5, "C16-R7": 8, "C16-R8": 9, "C16-R9": 4}

MOM = "mdtraj/geometry/src/moments.cpp"
DRIDC = "mdtraj/geometry/src/dridkernels.cpp"
DRIDP = "mdtraj/geometry/drid.pyx"
SHAPE = "mdtraj/geometry/shape.py"
RG = "mdtraj/geometry/rg.py"
DIST = "mdtraj/geometry/distance.py"
CONTACT = "mdtraj/geometry/contact.py"
THERMO = "mdtraj/geometry/thermodynamic_properties.py"
RDF = "mdtraj/geometry/rdf.py"
NMR = "mdtraj/nmr/scalar_couplings.py"


def sym(n):
    return Rat(Poly.var(n))


def _n(t):
    return re.sub(r"\s", "", t)


def check(ctx):
    ctx.rule("C16-R1", "online moments: after clear and one push (n,u,M2,M3) = (1,x,0,0); the push preserves u = S1/n, M2 = S2 - S1^2/n, M3 = S3 - 3 S1 S2/n + 2 S1^3/n^2 for every n; mean = u, second = M2/n, third = M3/n")
    ctx.rule("C16-R2", "DRID pushes 1/sqrt(|x - y|^2) for every partner and stores (mean, sqrt(second), cbrt(third)); partners = selected atoms minus bonded atoms minus the atom itself")
    ctx.rule("C16-R3", "S = einsum('...ji,...jk->...ik', r - c, r - c)/N; principal moments = eigvalsh(S); b = p2 - (p0+p1)/2; c = p1 - p0; kappa^2 = 3/2 sum p^2/(sum p)^2 - 1/2")
    ctx.rule("C16-R4", "centre of geometry = mean over atoms; centre of mass = sum_i (m_i/sum m) r_i; Rg^2 = sum_i w_i |r_i - centre|^2 with the centre that belongs to the weights")
    ctx.rule("C16-R5", "compute_contacts: membership lists per scheme; product(membership[p0], membership[p1]) with count len[p0]*len[p1]; offset = sum(counts[:i]); slice [offset, offset+count); min / soft-min; labels filtered in lock-step")
    ctx.rule("C16-R6", "density = sum of masses / unitcell volume * 1.6605...")
    ctx.rule("C16-R7", "r = (e0+e1)/2; V = 4/3 pi (e1^3 - e0^3); g = hist / (n_pairs * sum(1/V_cell) * V)")
    ctx.rule("C16-R8", "J = A cos^2(phi+phi0) + B cos(phi+phi0) + C; every compute_J3_* evaluates it on the phi torsions with its own coefficient table; every table entry has A, B, C, phi0")
    r1(ctx)
    r2(ctx)
    r3(ctx)
    r5_tensor(ctx)
    r5_squareform(ctx)
    r6(ctx)
    r7_tensor(ctx)
    r8(ctx)
    ctx.rule("C16-R9", "inertia tensor I = sum_a m_a (|r_a|^2 1 - r_a r_a^T) about the centre of mass (both implementations); Q = 1/(2N) sum_j (3 e_j e_j^T - 1) over normalised directors; "
                       "nematic order = largest eigenvalue of Q")
    r_tensor(ctx)
    from .c05 import no_foreign_attribute_stores, periodic_plumbing
    no_foreign_attribute_stores(ctx, "C16-R5", [CONTACT, SHAPE, ORDER, RG, THERMO, RDF, NMR], floor=20)
    periodic_plumbing(ctx, "C16-R5", only=[CONTACT, RDF], floor=4)


# ---------------------------------------------------------------------------------------------------
def r1(ctx):
    cf = C.get(ctx.repo)
    ctx.analysed_files.add(MOM)
    ex = SymExec(cf, MOM)

    def body(name):
        fn = cf.function(MOM, name)
        ctx.analysed_functions.add(MOM + ":" + name)
        return fn, C.kids(C.body_of(fn))
    F = {"n": "self._n", "u": "self._u", "M2": "self._M2", "M3": "self._M3"}
    try:
        fn, b = body("moments_clear")
        st = ex.run(b, State())[0]
        ok = all(st.env.get(F[k]) is not None and st.env[F[k]].const_value() == 0 for k in F)
        ctx.decide(ok, "C16-R1", C.line(fn), MOM, "moments_clear", "n = u = M2 = M3 = 0", "", "moments_clear leaves %s" % {k: st.env.get(F[k]) for k in F})
        pfn, pb = body("moments_push")
        st.env["x"] = sym("x")
        s1 = ex.run(pb, st)[0]
        got = {k: s1.env.get(F[k]) for k in F}
        ok = got["n"] == 1 and got["u"] == sym("x") and got["M2"] == 0 and got["M3"] == 0
        ctx.decide(ok, "C16-R1", C.line(pfn), MOM, "moments_push", "base case: after one push (n, u, M2, M3) = (1, x, 0, 0)", "", "after clear and push(x): %s" % got)
        # induction step with symbolic n >= 1 and power sums S1, S2, S3
        n, S1, S2, S3, x = sym("n"), sym("S1"), sym("S2"), sym("S3"), sym("x")

        def defs(n_, a, b2, c3):
            return {"n": n_, "u": a / n_, "M2": b2 - a * a / n_, "M3": c3 - 3 * a * b2 / n_ + 2 * a * a * a / (n_ * n_)}
        pre = defs(n, S1, S2, S3)
        post = defs(n + 1, S1 + x, S2 + x * x, S3 + x * x * x)
        st2 = State()
        for k in F:
            st2.env[F[k]] = pre[k]
        st2.env["x"] = x
        s2 = ex.run(pb, st2)[0]
        for k in ("n", "u", "M2", "M3"):
            g = s2.env.get(F[k])
            ctx.decide(g is not None and g == post[k], "C16-R1", C.line(pfn), MOM, "moments_push", "induction: %s keeps its definition when a value is pushed (symbolic n)" % k, "",
                       "after a push %s = %r is not the %s of the n+1 values: the single-pass recurrence does not compute the central moment" % (k, g, {"n": "count", "u": "mean", "M2": "sum of squared deviations", "M3": "sum of cubed deviations"}[k]))
        for name, want, what in (("moments_mean", sym("self._u"), "u"), ("moments_second", sym("self._M2") / sym("self._n"), "M2/n"), ("moments_third", sym("self._M3") / sym("self._n"), "M3/n")):
            fn, b = body(name)
            r = ex.run(b, State())[0].ret
            ctx.decide(r is not None and r == want, "C16-R1", C.line(fn), MOM, name, "%s returns %s" % (name, what), "", "%s returns %r" % (name, r))
    except CUnsupported as e:
        raise AnalysisError("moments.cpp: %s" % e)


# ---------------------------------------------------------------------------------------------------
def r2(ctx):
    cf = C.get(ctx.repo)
    fn = cf.function(DRIDC, "drid_moments")
    ctx.analysed_files.add(DRIDC)
    ctx.analysed_functions.add(DRIDC + ":drid_moments")
    # value numbering of the whole function for a generic partner (symbolic loop variable); the moment accumulator is an opaque object
    loops = [n for n in C.walk(fn) if n["kind"] == "ForStmt"]
    lv = None
    if len(loops) == 1:
        init = [x for x in loops[0].get("inner", []) if isinstance(x, dict) and "kind" in x][0]
        lv = ([v.get("name") for v in C.kids(init) if v["kind"] == "VarDecl"] or [None])[0] if init.get("kind") == "DeclStmt" else C.ref_name(C.kids(init)[0])
    if lv is None:
        raise AnalysisError("drid_moments: partner loop not recognised")
    events = []

    def model(name, args, n_, st_, ex_):
        if name.startswith("moments_"):
            events.append((name, args))
            if name in ("moments_mean", "moments_second", "moments_third"):
                return Rat(Poly.var(name))
            return Rat(Poly.const(0))
        return None
    ex = SymExec(cf, DRIDC, call_model=model, symbolic_loops={lv})
    try:
        outs = ex.run(C.kids(C.body_of(fn)), State())
    except CUnsupported as e:
        raise AnalysisError("drid_moments: %s" % e)
    pn = [p_.get("name") for p_ in C.fparams(fn)]     # coords, index, partners, n_partners, moments
    if len(outs) != 1 or len(pn) != 5:
        raise AnalysisError("drid_moments: unexpected shape (%d paths, %d parameters)" % (len(outs), len(pn)))
    o = outs[0]
    names = [e_[0] for e_ in events]
    ctx.decide(names[:1] == ["moments_clear"] and names.count("moments_push") == 1 and names.index("moments_push") > 0, "C16-R2", C.line(fn), DRIDC, "drid_moments",
               "accumulator cleared first, one push per partner", "", "moment calls are %s" % names)
    cond = _n(C.text(C.kids(loops[0])[1]))
    ctx.decide(cond == "(%s<%s)" % (lv, pn[3]), "C16-R2", C.line(loops[0]), DRIDC, "drid_moments", "the loop visits every partner (i < n_partners)", "", "partner loop condition is %s" % cond)
    push = [e_ for e_ in events if e_[0] == "moments_push"]
    ok = False
    got = None
    if push:
        got = push[0][1][1]
        ci = Rat(Poly.var(pn[1]))
        pj = Rat(Poly.var("%s[%s]" % (pn[2], lv)))
        a_ = [Rat(Poly.var("%s[%s]" % (pn[0], repr(3 * ci + k) if k else repr(3 * ci)))) for k in range(3)]
        b_ = [Rat(Poly.var("%s[%s]" % (pn[0], repr(3 * pj + k) if k else repr(3 * pj)))) for k in range(3)]
        d2 = sum(((a_[k] - b_[k]) * (a_[k] - b_[k]) for k in range(3)), Rat(Poly.const(0)))
        ok = got == Rat(Poly.const(1)) / ex.opaque_call("sqrt", [d2])
    ctx.decide(ok, "C16-R2", C.line(fn), DRIDC, "drid_moments", "the value pushed is 1/|coords[index] - coords[partner]|", "", "the value pushed for a partner is %s" % (repr(got)[:200],))
    want = [Rat(Poly.var("moments_mean")), ex.opaque_call("sqrt", [Rat(Poly.var("moments_second"))]), ex.opaque_call("cbrt", [Rat(Poly.var("moments_third"))])]
    gotm = [o.env.get((pn[4], k)) for k in range(3)]
    ctx.decide(all(g is not None and g == w for g, w in zip(gotm, want)), "C16-R2", C.line(fn), DRIDC, "drid_moments", "moments = (mean, sqrt(second), cbrt(third))", "", "stored moments are %s" % gotm)
    # partners in the wrapper
    fnp = ctx.py.func(DRIDP, "compute_drid")
    ctx.analysed_files.add(DRIDP)
    s = _n(src(fnp))
    ok = "partners_l.append(set_atom_indices-bonds[i]-set([j]))" in s
    ctx.decide(ok, "C16-R2", fnp, DRIDP, "compute_drid", "partners = selected atoms - bonded atoms - {self}", "", "partner sets are built differently")
    ok = "bonds[inverse_atom_indices[a.index]].add(b.index)" in s and "bonds[inverse_atom_indices[b.index]].add(a.index)" in s
    ctx.decide(ok, "C16-R2", fnp, DRIDP, "compute_drid", "bonded exclusion is symmetric", "", "a bond excludes only one of its two directions")
    inner = ctx.py.func(DRIDP, "_drid")
    s2 = _n(src(inner))
    ok = "drid_moments(xyz[i,0,0],atom_indices[j],partners[j,0],n_partners[j],result[i,j,0])" in s2 and "reshape(n_frames,n_atom_indices*3)" in s2
    ctx.decide(ok, "C16-R2", inner, DRIDP, "_drid", "frame i, atom j -> result[i, j, :]; flattened to (n_frames, 3*n_atoms)", "", "kernel call / result layout changed")


# ---------------------------------------------------------------------------------------------------
def r3(ctx):
    ctx.analysed_files.add(SHAPE)
    fn = ctx.py.func(SHAPE, "compute_gyration_tensor")      # the tensor itself and principal_moments: r_tensor()
    # each descriptor evaluated whole (sa/tensym.py) with principal_moments(traj) summarised as a 2-frame array of symbols p[f,0] <= p[f,1] <= p[f,2]
    from ..tensym import TenSym, Ten, Obj, Raised
    want = {"asphericity": lambda p: p[2] - (p[0] + p[1]) / 2, "acylindricity": lambda p: p[1] - p[0],
            "relative_shape_anisotropy": lambda p: Rat(Poly.const(3)) / 2 * (p[0] * p[0] + p[1] * p[1] + p[2] * p[2]) / ((p[0] + p[1] + p[2]) * (p[0] + p[1] + p[2])) - Rat(Poly.const(1)) / 2}
    for q, wf in want.items():
        f = ctx.py.func(SHAPE, q)
        ctx.analysed_functions.add(SHAPE + ":" + q)
        traj = Obj(tag="traj", _lenient=True)
        seen = []
        pmt = Ten.sym("p", (2, 3))

        def pmodel(ev, call, seen=seen, pmt=pmt):
            seen.append([ev.ex(a_) for a_ in call.args] + [ev.ex(k_.value) for k_ in call.keywords])
            return pmt
        desc = "%s = %r (p0 <= p1 <= p2 the principal moments)" % (q, wf([sym("p0"), sym("p1"), sym("p2")]))
        try:
            ts = TenSym({}, models={"principal_moments": pmodel})
            got = ts.run_fn(f, traj=traj)
        except Raised as e:
            ctx.violated("C16-R3", f, SHAPE, q, desc, "%s raises %s on a 2-frame trajectory" % (q, e.exc or e))
            continue
        except PUnsupported as e:
            ctx.undecided("C16-R3", f, SHAPE, q, "formula", "not evaluable: %s" % e)
            continue
        ok0 = len(seen) >= 1 and all(len(a_) == 1 and a_[0] is traj for a_ in seen)
        ok = isinstance(got, Ten) and got.shape == (2,) and all((got.data[fr] - wf([pmt.data[3 * fr + k_] for k_ in range(3)])).n.is_zero() for fr in range(2))
        ctx.decide(ok0 and ok, "C16-R3", f, SHAPE, q, desc, "",
                   "%s evaluates %s for frame 0; the definition is %r" % (q, (got.data[0] if isinstance(got, Ten) and got.data else got) if ok0 else "principal moments of something other than its trajectory", wf([pmt.data[k_] for k_ in range(3)])))
    al = ctx.py.mod(SHAPE).module_assign("relative_shape_antisotropy")
    ctx.decide(al is not None and src(al) == "relative_shape_anisotropy", "C16-R3", al or fn, SHAPE, "relative_shape_antisotropy", "alias of relative_shape_anisotropy", "", "the legacy alias points elsewhere")


# ---------------------------------------------------------------------------------------------------
def r9_dipole(ctx):
    """dipole = sum_i q_i r_i with r_i built from two minimum-image displacements (atom -> first atom of its residue -> atom 0)"""
    fn = ctx.py.func(THERMO, "dipole_moments")
    calls = [n for n in walk_no_nested(fn) if isinstance(n, ast.Call) and (call_name(n) or "").endswith("compute_displacements")]
    per = [kwarg(c, "periodic") for c in calls]
    ok = len(calls) == 2 and all(p is not None and const(p) is True for p in per)
    ctx.decide(ok, "C16-R6", calls[0] if calls else fn, THERMO, "dipole_moments", "both displacement legs are minimum-image (periodic=True)", "",
               "the displacement legs use periodic=%s: a charged residue beyond half a box length from atom 0 contributes a dipole that changes under a lattice translation" % [src(p) if p is not None else None for p in per])


def r6(ctx):
    r9_dipole(ctx)


# ---------------------------------------------------------------------------------------------------
def r8(ctx):
    ctx.analysed_files.add(NMR)
    fn = ctx.py.func(NMR, "_J3_function")
    try:
        ps = PySym()
        ps.run(fn.body)
        got = ps.returned
        cosv = ps.fn("cos", sym("phi") + sym("phi0"))
        want = sym("A") * cosv * cosv + sym("B") * cosv + sym("C")
        ctx.decide(got is not None and ps.equal(got, want), "C16-R8", fn, NMR, "_J3_function", "J = A cos^2(phi+phi0) + B cos(phi+phi0) + C", "", "Karplus relation is evaluated as %r" % (got,))
    except PUnsupported as e:
        ctx.undecided("C16-R8", fn, NMR, "_J3_function", "Karplus relation", "not evaluable: %s" % e)
    mod = ctx.py.mod(NMR)
    for q, tab in (("compute_J3_HN_HA", "J3_HN_HA_coefficients"), ("compute_J3_HN_C", "J3_HN_C_coefficients"), ("compute_J3_HN_CB", "J3_HN_CB_coefficients")):
        f = ctx.py.func(NMR, q)
        s = _n(src(f))
        ok = "J=_J3_function(phi,**%s[model])" % tab in s and ("indices,phi=compute_phi(traj)" in s or "indices,phi=compute_phi(traj,periodic=periodic)" in s) and \
            ("return(indices,J)" in s or "returnindices,J" in s) and "ifmodelnotin%s:" % tab in s
        others = [t for t in ("J3_HN_HA_coefficients", "J3_HN_C_coefficients", "J3_HN_CB_coefficients") if t != tab and t in s]
        ctx.decide(ok and not others, "C16-R8", f, NMR, q, "Karplus relation on the phi torsions with %s" % tab, "", "%s does not evaluate the Karplus relation on phi with its own table (other tables referenced: %s)" % (q, others))
        node = mod.module_assign(tab)
        entries = []
        if isinstance(node, ast.Dict):
            for k, v in zip(node.keys, node.values):
                kws = sorted(kw.arg for kw in v.keywords) if isinstance(v, ast.Call) else None
                entries.append((const(k), kws))
        ok = bool(entries) and all(kws == ["A", "B", "C", "phi0"] for _, kws in entries)
        ctx.decide(ok, "C16-R8", node or f, NMR, tab, "every model has exactly A, B, C, phi0 (%d models)" % len(entries), "", "coefficient entries are %s" % entries)
        dflt = [a for a in f.args.defaults]
        ok = bool(dflt) and const(dflt[-1]) in [e[0] for e in entries]
        ctx.decide(ok, "C16-R8", f, NMR, q, "default model exists in the table", "", "default model %r is not in %s" % (const(dflt[-1]) if dflt else None, tab))


# ===================================================================================================
# Whole-array descriptors by value numbering on a generic instance of every axis (sa/tensym.py)
# ===================================================================================================
from ..tensym import TenSym, Ten, Obj, Unsupported as TUnsupported, ShapeError   # noqa: E402

ORDER = "mdtraj/geometry/order.py"
N_F, N_A = 2, 4          # frames, atoms: pairwise different from each other and from the 3 components


def _model(ctx):
    """traj with 2 frames x 4 atoms (two residues of two atoms), symbolic coordinates x[f,a,c], masses m[a], cell volumes V[f]"""
    masses = [sym("m[%d]" % i) for i in range(N_A)]
    atoms = [Obj(index=i, element=Obj(mass=masses[i])) for i in range(N_A)]
    residues = [Obj(index=r, atoms=atoms[2 * r:2 * r + 2]) for r in range(N_A // 2)]
    for r in residues:
        r.atom = (lambda rr: (lambda i: rr.atoms[i]))(r)
        for a in r.atoms:
            a.residue = r
    top = Obj(atoms=atoms, n_atoms=N_A, residues=residues, n_residues=len(residues))
    top.atom = lambda i: atoms[i]
    top.select = lambda s: [1, 3]
    traj = Obj(xyz=Ten.sym("x", (N_F, N_A, 3)), n_frames=N_F, n_atoms=N_A, top=top, topology=top, unitcell_volumes=Ten.sym("V", (N_F,)))
    return traj, masses


def _funcs(ctx):
    fs = {}
    for rel, names in ((DIST, ["compute_center_of_mass", "compute_center_of_geometry"]), (SHAPE, ["compute_gyration_tensor", "principal_moments"]),
                       (ORDER, ["compute_inertia_tensor", "_compute_Q_tensor", "_compute_inertia_tensor_slow"]), (RG, ["compute_rg", "_compute_rg_xyz"])):
        for nm in names:
            try:
                fs[nm] = ctx.py.func(rel, nm)
            except Exception:
                pass
    return fs


def _x(f, a, c):
    return sym("x[%d,%d,%d]" % (f, a, c))


def _spec(shape, f):
    import itertools
    return Ten(shape, [f(*i) for i in itertools.product(*[range(s) for s in shape])])


def _decide_tensor(ctx, rule, rel, q, what, given, want, atoms=None, funcs=None, models=None, post=None, ts=None):
    """Evaluate function q with `given` arguments and compare the result with the Ten / Rat `want`."""
    fn = ctx.py.func(rel, q)
    ctx.analysed_files.add(rel)
    ctx.analysed_functions.add(rel + ":" + q)
    ts = ts if ts is not None else TenSym({}, funcs=funcs or {}, models=models or {})
    try:
        got = ts.run_fn(fn, **given)
        if post is not None:
            got, want = post(ts, got, want)
    except ShapeError as e:
        ctx.violated(rule, fn, rel, q, what, "on a trajectory of %d frames x %d atoms the array operations do not fit: %s" % (N_F, N_A, e))
        return None
    except (TUnsupported, PUnsupported, ZeroDivisionError, RecursionError) as e:
        ctx.undecided(rule, fn, rel, q, what, "not evaluable: %s" % e)
        return None
    if got is None:
        ctx.undecided(rule, fn, rel, q, what, "no value returned on the analysed path")
        return None
    try:
        diff = ts.first_difference(got, want)
    except (TUnsupported, PUnsupported) as e:
        ctx.undecided(rule, fn, rel, q, what, "result not comparable: %s" % e)
        return None
    ctx.decide(diff is None, rule, fn, rel, q, what, "2 frames x 4 atoms x 3 components, all elements", "result differs from the definition: %s" % (diff or "")[:400])
    return ts


def _directors_tensor(ctx, traj, masses, funcs):
    """compute_directors(traj, [[0, 2], [1, 3]]) evaluated with the eigen-decomposition recorded: the matrix whose eigenvectors become the director of
    a compound is, for every frame, the inertia tensor of that compound's atoms - their own masses, positions relative to their own centre of mass -
    whichever helper computes it (atom_slice + compute_inertia_tensor today)."""
    fn = ctx.py.func(ORDER, "compute_directors")
    groups = [[0, 2], [1, 3]]
    desc = "the director of a compound comes from the inertia tensor of its atoms (their masses, relative to their centre of mass), per frame"
    seen = []

    def eig(ev, call):
        t = ev.to_ten(ev.ex(call.args[0]))
        seen.append(t)
        nf = t.shape[0]
        w = Ten((nf, 3), [Rat(Poly.const(k_ + 1)) for _ in range(nf) for k_ in range(3)])
        v = Ten((nf, 3, 3), [Rat(Poly.const(1 if i_ == j_ else 0)) for _ in range(nf) for i_ in range(3) for j_ in range(3)])
        return (w, v)

    def atom_slice(ids, inplace=False, _t=traj):
        ids = [int(i_.const_value()) if hasattr(i_, "const_value") else int(i_) for i_ in (ids.data if isinstance(ids, Ten) else ids)]
        ev_ = TenSym({})
        atoms = [_t.top.atoms[i_] for i_ in ids]
        top = Obj(atoms=atoms, n_atoms=len(ids))
        return Obj(xyz=ev_.getitem(_t.xyz, (slice(None), ids)), n_frames=N_F, n_atoms=len(ids), top=top, topology=top)
    traj.atom_slice = atom_slice
    mod = ctx.py.mod(ORDER)
    fs = dict(funcs, **{q_: f_ for q_, f_ in mod.functions.items() if "." not in q_ and q_ != "compute_directors"})
    ts = TenSym({}, funcs=fs, models={"np.linalg.eig": eig, "np.linalg.eigh": eig, "linalg.eig": eig})
    try:
        ts.run_fn(fn, traj=traj, indices=[list(g_) for g_ in groups])
    except ShapeError as e:
        ctx.violated("C16-R9", fn, ORDER, "compute_directors", desc, "the array operations do not fit: %s" % e)
        return
    except (TUnsupported, PUnsupported) as e:
        ctx.undecided("C16-R9", fn, ORDER, "compute_directors", desc, "not evaluable: %s" % e)
        return
    finally:
        del traj.__dict__["atom_slice"]
    why = []
    if len(seen) != len(groups):
        why.append("%d eigen-decompositions for %d compounds" % (len(seen), len(groups)))
    else:
        for g_, t in zip(groups, seen):
            Mg = sum((masses[a] for a in g_), Rat(Poly.const(0)))
            def want(f, i, k, g_=g_, Mg=Mg):
                com = [sum((masses[a] * _x(f, a, c) for a in g_), Rat(Poly.const(0))) / Mg for c in range(3)]
                tot = Rat(Poly.const(0))
                for a in g_:
                    r = [_x(f, a, c) - com[c] for c in range(3)]
                    r2 = r[0] * r[0] + r[1] * r[1] + r[2] * r[2]
                    tot = tot + masses[a] * ((r2 if i == k else Rat(Poly.const(0))) - r[i] * r[k])
                return tot
            W = _spec((N_F, 3, 3), want)
            d = ts.first_difference(t, W) if t.shape == W.shape else "shape %s" % (t.shape,)
            if d is not None:
                why.append("compound %s: the matrix decomposed is not its inertia tensor about its centre of mass (%s)" % (g_, str(d)[:120]))
    ctx.decide(not why, "C16-R9", fn, ORDER, "compute_directors", desc, "", "; ".join(why[:2]))


def r_tensor(ctx):
    traj, masses = _model(ctx)
    funcs = _funcs(ctx)
    third = Rat(Poly.const(1)) / N_A
    cog = _spec((N_F, 3), lambda f, c: sum((_x(f, a, c) for a in range(N_A)), Rat(Poly.const(0))) * third)
    M = sum(masses, Rat(Poly.const(0)))
    com = _spec((N_F, 3), lambda f, c: sum((masses[a] * _x(f, a, c) for a in range(N_A)), Rat(Poly.const(0))) / M)
    # ---- R4 centres
    _decide_tensor(ctx, "C16-R4", DIST, "compute_center_of_geometry", "centre[f] = (1/N) sum_a r[f,a]", {"traj": traj}, cog, funcs=funcs)
    _decide_tensor(ctx, "C16-R4", DIST, "compute_center_of_mass", "com[f] = sum_a m_a r[f,a] / sum_a m_a (all atoms)", {"traj": traj}, com, funcs=funcs)
    sel = [1, 3]
    Ms = masses[1] + masses[3]
    com_sel = _spec((N_F, 3), lambda f, c: (masses[1] * _x(f, 1, c) + masses[3] * _x(f, 3, c)) / Ms)
    fn = ctx.py.func(DIST, "compute_center_of_mass")
    if "select" in params(fn):
        _decide_tensor(ctx, "C16-R4", DIST, "compute_center_of_mass", "with select=: masses and coordinates of the same selected atoms", {"traj": traj, "select": "sel"}, com_sel, funcs=funcs)
    # ---- R4 radius of gyration
    def rg_spec(w, centre):
        return _spec((N_F,), lambda f: sum((w[a] * sum(((_x(f, a, c) - centre.at([f, c])) * (_x(f, a, c) - centre.at([f, c])) for c in range(3)), Rat(Poly.const(0))) for a in range(N_A)), Rat(Poly.const(0))))

    def sq(ts, got, want):
        got = ts.to_ten(got)
        return got.map(lambda x: x * x), want
    _decide_tensor(ctx, "C16-R4", RG, "compute_rg", "Rg^2 = (1/N) sum_a |r_a - centre of geometry|^2 (no masses)", {"traj": traj}, rg_spec([third] * N_A, cog), funcs=funcs, post=sq)
    mt = Ten((N_A,), masses)
    _decide_tensor(ctx, "C16-R4", RG, "compute_rg", "Rg^2 = sum_a w_a |r_a - centre of mass|^2, w = m / sum m", {"traj": traj, "masses": mt}, rg_spec([m / M for m in masses], com), funcs=funcs, post=sq)
    # ---- R3 gyration tensor and principal moments
    S = _spec((N_F, 3, 3), lambda f, i, k: sum(((_x(f, a, i) - cog.at([f, i])) * (_x(f, a, k) - cog.at([f, k])) for a in range(N_A)), Rat(Poly.const(0))) * third)
    _decide_tensor(ctx, "C16-R3", SHAPE, "compute_gyration_tensor", "S[f,i,k] = (1/N) sum_a (r_a - c)_i (r_a - c)_k with c the centre of geometry", {"traj": traj}, S, funcs=funcs)
    pm = ctx.py.func(SHAPE, "principal_moments")
    ts = TenSym({}, funcs=funcs)
    try:
        got = ts.run_fn(pm, traj=traj)
        ev = [c for c in ts.calls if c[0] == "eigvalsh"]
        ok = len(ev) == 1 and ts.first_difference(ev[0][1][0], S) is None and got is ev[0][2]
        ctx.decide(ok, "C16-R3", pm, SHAPE, "principal_moments", "eigvalsh (ascending eigenvalues) of the gyration tensor, returned unchanged", "",
                   "principal_moments does not return np.linalg.eigvalsh(gyration tensor): %s" % ([c[0] for c in ts.calls],))
    except ShapeError as e:
        ctx.violated("C16-R3", pm, SHAPE, "principal_moments", "eigenvalues of the gyration tensor", "the array operations behind principal_moments do not fit on %d frames x %d atoms: %s" % (N_F, N_A, e))
    except (TUnsupported, PUnsupported) as e:
        ctx.undecided("C16-R3", pm, SHAPE, "principal_moments", "eigenvalues of the gyration tensor", "not evaluable: %s" % e)
    # ---- R9 inertia tensor (both implementations) and Q tensor
    def inertia(f, i, k):
        tot = Rat(Poly.const(0))
        for a in range(N_A):
            r = [_x(f, a, c) - com.at([f, c]) for c in range(3)]
            r2 = r[0] * r[0] + r[1] * r[1] + r[2] * r[2]
            tot = tot + masses[a] * ((r2 if i == k else Rat(Poly.const(0))) - r[i] * r[k])
        return tot
    I = _spec((N_F, 3, 3), inertia)
    _decide_tensor(ctx, "C16-R9", ORDER, "compute_inertia_tensor", "I[f,i,k] = sum_a m_a (|r_a|^2 delta_ik - r_a,i r_a,k), r relative to the centre of mass", {"traj": traj}, I, funcs=funcs)
    if "_compute_inertia_tensor_slow" in funcs:
        _decide_tensor(ctx, "C16-R9", ORDER, "_compute_inertia_tensor_slow", "reference implementation gives the same tensor", {"traj": traj}, I, funcs=funcs)
    _directors_tensor(ctx, traj, masses, funcs)
    n_c = 5
    e = Ten.sym("e", (N_F, n_c, 3))

    def qspec(ts):
        def q(f, i, k):
            tot = Rat(Poly.const(0))
            for j in range(n_c):
                nrm = ts.fn("sqrt", sum((e.at([f, j, c]) * e.at([f, j, c]) for c in range(3)), Rat(Poly.const(0))))      # |e_j|, the evaluator's own symbol for it
                tot = tot + (3 * e.at([f, j, i]) * e.at([f, j, k]) / (nrm * nrm) - (1 if i == k else 0))
            return tot / (2 * n_c)
        return _spec((N_F, 3, 3), q)
    _decide_tensor(ctx, "C16-R9", ORDER, "_compute_Q_tensor", "Q[f,i,k] = 1/(2N) sum_j (3 e_ji e_jk / |e_j|^2 - delta_ik)", {"all_directors": e}, None, funcs=dict(funcs, ensure_type=None) if False else funcs,
                   post=lambda ts, got, want: (got, qspec(ts)))
    # nematic order: largest eigenvalue of Q
    no = ctx.py.func(ORDER, "compute_nematic_order")
    dirs = Ten.sym("d", (N_F, n_c, 3))
    models = {"compute_directors": lambda ev_, call: dirs}
    ts = TenSym({}, funcs=funcs, models=models)
    try:
        got = ts.run_fn(no, traj=traj)
        ts2 = TenSym({}, funcs=funcs)
        qd = ts2.run_fn(funcs["_compute_Q_tensor"], all_directors=dirs)
        ev = [c for c in ts.calls if c[0] in ("eigvals", "eigvalsh")]
        mx = [c for c in ts.calls if c[0] == "max"]
        ok = len(ev) == 1 and ts.first_difference(ev[0][1][0], qd) is None and len(mx) == 1 and mx[0][1][0] is ev[0][2] and mx[0][1][1] in (1, -1) and got is mx[0][2]
        ctx.decide(ok, "C16-R9", no, ORDER, "compute_nematic_order", "S2[f] = largest eigenvalue of Q[f] built from the directors of the requested compounds", "",
                   "compute_nematic_order is not max over axis 1 of the eigenvalues of the Q tensor of compute_directors(traj, indices): %s" % ([(c[0], c[1][1:] ) for c in ts.calls],))
    except ShapeError as e_:
        ctx.violated("C16-R9", no, ORDER, "compute_nematic_order", "largest eigenvalue of Q", "the array operations do not fit: %s" % e_)
    except (TUnsupported, PUnsupported) as e_:
        ctx.undecided("C16-R9", no, ORDER, "compute_nematic_order", "largest eigenvalue of Q", "not evaluable: %s" % e_)
    # ---- R6 density: the cell volume of the model is given both as a field and through lengths / angles (V = abc sqrt(1 - sum cos^2 + 2 prod cos))
    conv = Rat(Poly.const(__import__("fractions").Fraction("1.6605387823355087")))
    fn = ctx.py.func(THERMO, "density")
    # the unit conversion: the floating-point literals of the function (whatever they are called); exactly one, and it is 1.660539 (amu/nm^3 -> kg/m^3);
    # that it multiplies mass / volume is decided by the evaluation below
    allf = [n.value for n in ast.walk(fn) if isinstance(n, ast.Constant) and isinstance(n.value, float)]
    cv = [v for v in allf if abs(v - 1.66053907) < 1e-6]
    ctx.decide(len(cv) == 1, "C16-R6", fn, THERMO, "density", "conversion = 1.660539 (amu/nm^3 -> kg/m^3)", "", "no (single) literal 1.660539 among the floating-point literals %r of density()" % (allf,))
    cvr = Rat(Poly.const(__import__("fractions").Fraction(str(cv[0])))) if cv and isinstance(cv[0], float) else conv

    def cell_model(ts_):
        Lc, Ac = Ten.sym("L", (N_F, 3)), Ten.sym("ang", (N_F, 3))
        vols = []
        for f in range(N_F):
            cs = [ts_.fn("cos", Ac.at([f, k]) * Rat(Poly.var("pi")) / 180) for k in range(3)]
            inner = Rat(Poly.const(1)) - cs[0] * cs[0] - cs[1] * cs[1] - cs[2] * cs[2] + 2 * cs[0] * cs[1] * cs[2]
            vols.append(Lc.at([f, 0]) * Lc.at([f, 1]) * Lc.at([f, 2]) * ts_.fn("sqrt", inner))
        traj.unitcell_lengths, traj.unitcell_angles, traj.unitcell_volumes = Lc, Ac, Ten((N_F,), vols)
        return traj.unitcell_volumes
    ts_d = TenSym({}, funcs=funcs)
    V = cell_model(ts_d)
    _decide_tensor(ctx, "C16-R6", THERMO, "density", "rho[f] = conversion * sum_a m_a / V[f] (element masses; V the cell volume of frame f)", {"traj": traj}, _spec((N_F,), lambda f: cvr * M / V.at([f])), ts=ts_d)
    mu = Ten.sym("mu", (N_A,))
    ts_d = TenSym({}, funcs=funcs)
    V = cell_model(ts_d)
    _decide_tensor(ctx, "C16-R6", THERMO, "density", "rho[f] = conversion * sum(masses) / V[f] (given masses)", {"traj": traj, "masses": mu}, _spec((N_F,), lambda f: cvr * sum(mu.data, Rat(Poly.const(0))) / V.at([f])), ts=ts_d)
    # ---- R6 dipole moments: mu[f] = sum_a q_a * (r_a relative to atom 0 through the first atom of its residue, both legs minimum-image)
    def disp_model(ev_, call):
        idx = ev_.to_ten(ev_.ex(call.args[1]))
        per = ev_.kw(call, "periodic", 2, True)
        tag = "mic" if per is True else "raw"
        out = []
        for f in range(N_F):
            for p in range(idx.shape[0]):
                i, j = ev_.concrete(idx.at([p, 0])), ev_.concrete(idx.at([p, 1]))
                for c in range(3):
                    # compute_displacements returns r[pair[1]] - r[pair[0]] (C05: r12 = pos2 - pos1), minimum-image when periodic
                    out.append(Rat(Poly.const(0)) if i == j else (sym("%s[%d,%d>%d,%d]" % (tag, f, i, j, c)) if i < j else -sym("%s[%d,%d>%d,%d]" % (tag, f, j, i, c))))
        return Ten((N_F, idx.shape[0], 3), out)
    q = Ten.sym("q", (N_A,))

    def leg(f, i, j, c):
        """minimum-image r_j - r_i"""
        if i == j:
            return Rat(Poly.const(0))
        return sym("mic[%d,%d>%d,%d]" % (f, i, j, c)) if i < j else -sym("mic[%d,%d>%d,%d]" % (f, j, i, c))
    first = [0, 0, 2, 2]
    want = _spec((N_F, 3), lambda f, c: sum((q.at([a]) * (leg(f, first[a], a, c) + leg(f, 0, first[a], c)) for a in range(N_A)), Rat(Poly.const(0))))
    _decide_tensor(ctx, "C16-R6", THERMO, "dipole_moments", "mu[f] = sum_a q_a ((r_a - r_first(a))_mic + (r_first(a) - r_0)_mic)", {"traj": traj, "charges": q}, want, funcs=funcs,
                   models={"md.compute_displacements": disp_model, "compute_displacements": disp_model})


# ---------------------------------------------------------------------------------------------------
def _rdf_helpers(ctx):
    """private helpers of rdf.py that the public functions may call: evaluated from their source"""
    return {q_: f_ for q_, f_ in ctx.py.mod(RDF).functions.items() if "." not in q_ and q_ not in ("compute_rdf", "compute_rdf_t")}


def r7_tensor(ctx):
    """compute_rdf / compute_rdf_t by tensor value numbering: np.histogram and the distance functions are summarised as opaque maps whose
    inputs are checked; decided is everything around them - which distances are histogrammed, bin centres, shell volume, the normalisation by
    the number of pairs and the cell volumes, and for compute_rdf_t the partition of the pair list into chunks and the weights of the chunks."""
    import itertools
    traj, _m = _model(ctx)
    n_bins = 3
    pi = Rat(Poly.var("pi"))
    edges = Ten.sym("edge", (n_bins + 1,))
    V = traj.unitcell_volumes
    sumV = sum((Rat(Poly.const(1)) / V.at([f]) for f in range(N_F)), Rat(Poly.const(0)))
    shell = [Rat(Poly.const(4)) / 3 * pi * (edges.at([b + 1]) * edges.at([b + 1]) * edges.at([b + 1]) - edges.at([b]) * edges.at([b]) * edges.at([b])) for b in range(n_bins)]
    centres = Ten((n_bins,), [(edges.at([b]) + edges.at([b + 1])) / 2 for b in range(n_bins)])
    r_range = Ten((2,), [Rat(Poly.const(0)), Rat(Poly.const(1))])

    def make_models(log):
        def hist(ev, call):
            d = ev.ex(call.args[0])
            rng = ev.kw(call, "range", 2)
            bins = ev.kw(call, "bins", 1)
            k = len(log["hist"])
            nb = ev.concrete(bins)
            h = Ten.sym("H%d" % k, (nb,))
            log["hist"].append((d, rng, nb, h))
            return (h, Ten.sym("edge", (nb + 1,)))

        def dist(ev, call):
            prs = ev.to_ten(ev.ex(call.args[1]))
            per = ev.kw(call, "periodic", 2, "<default>")
            k = len(log["dist"])
            d = Ten.sym("d%d" % k, (N_F, prs.shape[0]))
            log["dist"].append((prs, per, d, None))
            return d

        def dist_t(ev, call):
            prs = ev.to_ten(ev.ex(call.args[1]))
            tms = ev.to_ten(ev.ex(call.args[2]))
            per = ev.kw(call, "periodic", 3, "<default>")
            k = len(log["dist"])
            d = Ten.sym("d%d" % k, (tms.shape[0], prs.shape[0]))
            log["dist"].append((prs, per, d, tms))
            return d
        return {"np.histogram": hist, "compute_distances": dist, "compute_distances_t": dist_t, "md.compute_distances": dist}

    def rows(t):
        return [tuple(int(t.at([i, j]).const_value()) for j in range(t.shape[1])) for i in range(t.shape[0])]
    # ------------------------------------------------------------------ compute_rdf
    fn = ctx.py.func(RDF, "compute_rdf")
    ctx.analysed_functions.add(RDF + ":compute_rdf")
    pairs = Ten((5, 2), [Rat(Poly.const(v)) for v in (0, 1, 1, 2, 2, 3, 0, 3, 0, 2)])
    log = {"hist": [], "dist": []}
    ts = TenSym({}, funcs=_rdf_helpers(ctx), models=make_models(log))
    try:
        got = ts.run_fn(fn, traj=traj, pairs=pairs, r_range=r_range, n_bins=n_bins, periodic="<periodic>")
        ok = len(log["dist"]) == 1 and rows(log["dist"][0][0]) == rows(pairs) and log["dist"][0][1] == "<periodic>"
        ctx.decide(ok, "C16-R7", fn, RDF, "compute_rdf", "distances of exactly the given pairs, with the caller's `periodic`", "", "compute_distances is called %d times; pairs %s, periodic %r" % (len(log["dist"]), [rows(x[0]) for x in log["dist"]][:1], [x[1] for x in log["dist"]]))
        ok = len(log["hist"]) == 1 and log["hist"][0][0] is log["dist"][0][2] and ts.first_difference(log["hist"][0][1], r_range) is None and log["hist"][0][2] == n_bins
        ctx.decide(ok, "C16-R7", fn, RDF, "compute_rdf", "one histogram of all distances (all frames, all pairs) over r_range with n_bins bins", "", "np.histogram is not applied once to the whole distance array with range=r_range, bins=n_bins")
        if isinstance(got, tuple) and len(got) == 2 and log["hist"]:
            H = log["hist"][0][3]
            want = Ten((n_bins,), [H.at([b]) / (Rat(Poly.const(5)) * sumV * shell[b]) for b in range(n_bins)])
            d0 = ts.first_difference(got[0], centres)
            d1 = ts.first_difference(got[1], want)
            ctx.decide(d0 is None, "C16-R7", fn, RDF, "compute_rdf", "r = bin centres (e[b] + e[b+1])/2", "", "bin centres differ: %s" % d0)
            ctx.decide(d1 is None, "C16-R7", fn, RDF, "compute_rdf", "g[b] = H[b] / (n_pairs * sum_f 1/V[f] * 4/3 pi (e[b+1]^3 - e[b]^3))", "", "g(r) differs from the definition: %s" % (d1 or "")[:300])
        else:
            ctx.violated("C16-R7", fn, RDF, "compute_rdf", "returns (r, g_r)", "returned %r" % (got,))
    except ShapeError as e:
        ctx.violated("C16-R7", fn, RDF, "compute_rdf", "array shapes", "array operations do not fit: %s" % e)
    except (TUnsupported, PUnsupported) as e:
        ctx.undecided("C16-R7", fn, RDF, "compute_rdf", "formula", "not evaluable: %s" % e)
    for q_ in ("compute_rdf", "compute_rdf_t"):
        fnb = ctx.py.func(RDF, q_)
        log = {"hist": [], "dist": []}
        ts = TenSym({}, funcs=_rdf_helpers(ctx), models=make_models(log))
        try:
            kw_ = dict(traj=traj, pairs=Ten(pairs.shape, pairs.data), r_range=Ten((2,), [Rat(Poly.const(1)) / 2, Rat(Poly.const(3)) / 2]), bin_width=Rat(Poly.const(1)) / 4)
            if q_ == "compute_rdf_t":
                kw_["times"] = Ten((2, 2), [Rat(Poly.const(v)) for v in (0, 0, 0, 1)])
            ts.run_fn(fnb, **kw_)
            nb = sorted({h[2] for h in log["hist"]})
            ctx.decide(nb == [4], "C16-R7", fnb, RDF, q_, "without n_bins: int((r_max - r_min) / bin_width) bins", "", "for r_range (0.5, 1.5) and bin_width 0.25 the histogram gets %s bins" % nb)
        except ShapeError as e:
            ctx.violated("C16-R7", fnb, RDF, q_, "bin count", "array operations do not fit: %s" % e)
        except (TUnsupported, PUnsupported) as e:
            ctx.undecided("C16-R7", fnb, RDF, q_, "bin count", "not evaluable: %s" % e)
    # ------------------------------------------------------------------ compute_rdf_t
    fn = ctx.py.func(RDF, "compute_rdf_t")
    ctx.analysed_functions.add(RDF + ":compute_rdf_t")
    pairs4 = Ten((4, 2), [Rat(Poly.const(v)) for v in (0, 1, 1, 2, 2, 3, 0, 3)])
    times = Ten((2, 2), [Rat(Poly.const(v)) for v in (0, 0, 0, 1)])
    n_t = 2
    for self_corr, chunk in ((True, 4), (True, 3), (False, 3), (False, 2), (True, 100)):
        aug = ([(u, u) for u in (0, 1, 2, 3)] if self_corr else []) + rows(pairs4)
        n_tot = len(aug)
        what = "self_correlation=%s, %d pairs in chunks of %d" % (self_corr, n_tot, chunk)
        log = {"hist": [], "dist": []}
        ts = TenSym({}, funcs=_rdf_helpers(ctx), models=make_models(log))
        try:
            got = ts.run_fn(fn, traj=traj, pairs=Ten(pairs4.shape, pairs4.data), times=times, r_range=r_range, n_bins=n_bins, self_correlation=self_corr, n_concurrent_pairs=chunk, periodic="<periodic>")
            seen = [p_ for d in log["dist"] for p_ in rows(d[0])]
            ok = seen == aug and all(d[1] == "<periodic>" for d in log["dist"]) and all(d[3] is not None and rows(d[3]) == rows(times) for d in log["dist"])
            ctx.decide(ok, "C16-R7", fn, RDF, "compute_rdf_t", "%s: every pair (self pairs first when requested) is in exactly one chunk, same times, caller's `periodic`" % what, "",
                       "the chunks cover the pairs %s, expected %s" % (seen, aug))
            # histogram k belongs to chunk c, time t
            owner = {}
            okh = True
            for (d, rng, bins, h) in log["hist"]:
                src_ = None
                for ci, dd in enumerate(log["dist"]):
                    for t in range(n_t):
                        row = ts.getitem(dd[2], t)
                        if isinstance(d, Ten) and d.shape == row.shape and all(x is y or x == y for x, y in zip(d.data, row.data)):
                            src_ = (ci, t)
                if src_ is None or src_ in owner or ts.first_difference(rng, r_range) is not None or bins != n_bins:
                    okh = False
                else:
                    owner[src_] = h
            okh = okh and len(owner) == len(log["dist"]) * n_t
            ctx.decide(okh, "C16-R7", fn, RDF, "compute_rdf_t", "%s: one histogram per chunk and time pair, over r_range with n_bins bins" % what, "", "histograms are not taken once per (chunk, time) row of the chunk's distances")
            if okh and isinstance(got, tuple) and len(got) == 2:
                K = [Rat(Poly.const(n_tot)) / N_F * sumV * shell[b] for b in range(n_bins)]
                want = Ten((n_t, n_bins), [sum((owner[(ci, t)].at([b]) for ci in range(len(log["dist"]))), Rat(Poly.const(0))) / K[b] for t in range(n_t) for b in range(n_bins)])
                d0 = ts.first_difference(got[0], centres)
                d1 = ts.first_difference(got[1], want)
                ctx.decide(d0 is None and d1 is None, "C16-R7", fn, RDF, "compute_rdf_t", "%s: g[t, b] = sum over chunks of H / (n_pairs/period * sum_f 1/V[f] * V_shell[b])" % what, "",
                           "the chunk-weighted average is not the histogram of all pairs over the normalisation of all pairs: %s" % ((d1 or d0) or "")[:300])
        except ShapeError as e:
            ctx.violated("C16-R7", fn, RDF, "compute_rdf_t", what, "array operations do not fit: %s" % e)
        except ZeroDivisionError:
            ctx.violated("C16-R7", fn, RDF, "compute_rdf_t", what, "the weights of the chunks sum to zero")
        except (TUnsupported, PUnsupported) as e:
            ctx.undecided("C16-R7", fn, RDF, "compute_rdf_t", what, "not evaluable: %s" % e)


# ---------------------------------------------------------------------------------------------------
def _contact_model():
    """10 residues of unequal size in two chains: alanines, glycines (side chain = one hydrogen), a water without CA, hydrogens in side chains"""
    H, Cc, Nn, Oo = Obj(symbol="H"), Obj(symbol="C"), Obj(symbol="N"), Obj(symbol="O")
    spec = [
        ("A", "ALA", [("N", Nn, False), ("CA", Cc, False), ("CB", Cc, True), ("HB1", H, True)]),
        ("A", "GLY", [("N", Nn, False), ("CA", Cc, False), ("HA2", H, True)]),
        ("A", "SER", [("N", Nn, False), ("CA", Cc, False), ("CB", Cc, True), ("OG", Oo, True), ("HG", H, True)]),
        ("A", "HOH", [("O", Oo, False), ("H1", H, False)]),
        ("A", "ALA", [("CA", Cc, False), ("CB", Cc, True)]),
        ("A", "LYS", [("N", Nn, False), ("CA", Cc, False), ("CB", Cc, True), ("HB2", H, True), ("NZ", Nn, True)]),
        ("B", "ALA", [("CA", Cc, False), ("CB", Cc, True)]),
        ("B", "GLY", [("CA", Cc, False), ("HA2", H, True)]),
        ("B", "VAL", [("CA", Cc, False), ("CB", Cc, True), ("HB", H, True)]),
        ("B", "ALA", [("CA", Cc, False), ("CB", Cc, True)]),
    ]
    chains = {"A": Obj(index=0), "B": Obj(index=1)}
    residues, atoms = [], []
    for ri, (ch, name, ats) in enumerate(spec):
        r = Obj(index=ri, name=name, chain=chains[ch], atoms=[])
        for (an, el, sc) in ats:
            a = Obj(index=len(atoms), name=an, element=el, is_sidechain=sc, residue=r)
            atoms.append(a)
            r.atoms.append(a)
        residues.append(r)
    top = Obj(atoms=atoms, residues=residues, n_atoms=len(atoms), n_residues=len(residues))
    top.residue = lambda i: residues[int(i)]
    top.atom = lambda i: atoms[int(i)]
    traj = Obj(topology=top, top=top, n_frames=N_F, n_atoms=len(atoms), n_residues=len(residues))
    return traj, residues, H


def r5_tensor(ctx):
    """compute_contacts evaluated on a model topology: which residue pairs are reported, which atom pairs stand behind each reported distance
    (per scheme), that the minimum / soft minimum is taken over exactly those, and that labels and columns stay in lock-step."""
    fn = ctx.py.func(CONTACT, "compute_contacts")
    ctx.analysed_files.add(CONTACT)
    ctx.analysed_functions.add(CONTACT + ":compute_contacts")
    traj, residues, H = _contact_model()

    class _Elements(Obj):
        """mdtraj.core.element as the function sees it: hydrogen is the model's hydrogen, any other name a distinct element"""
        def __getattr__(self, name):
            if name.startswith("_"):
                raise AttributeError(name)
            o = Obj(symbol=name)
            self.__dict__[name] = o
            return o
    elements = _Elements(hydrogen=H)

    def members(scheme, r):
        if scheme == "ca":
            return [a.index for a in r.atoms if a.name.lower() == "ca"]
        if scheme == "closest":
            return [a.index for a in r.atoms]
        if scheme == "closest-heavy":
            return [a.index for a in r.atoms if a.element is not H]
        if scheme == "sidechain":
            return [a.index for a in r.atoms if a.is_sidechain]
        if r.name == "GLY":
            return [a.index for a in r.atoms if a.is_sidechain]
        return [a.index for a in r.atoms if a.is_sidechain and a.element is not H]

    def dsym(f, i, j):
        i, j = sorted((i, j))
        return "d[%d,%d,%d]" % (f, i, j)
    log = {}

    def dist_model(ev, call):
        prs = ev.ex(call.args[1])
        prs = [(ev.pyval(p_[0]), ev.pyval(p_[1])) for p_ in ev.iterate(prs)] if not isinstance(prs, Ten) else [(ev.pyval(prs.at([k, 0])), ev.pyval(prs.at([k, 1]))) for k in range(prs.shape[0])]
        log["periodic"] = ev.kw(call, "periodic", 2, "<default>")
        log["pairs"] = prs
        return Ten((N_F, len(prs)), [Rat(Poly.var(dsym(f, i, j))) for f in range(N_F) for (i, j) in prs])
    all_pairs = [(i, j) for i in range(10) for j in range(i + 3, 10) if residues[i].chain is residues[j].chain]
    protein = [r.index for r in residues if any(a.name == "CA" for a in r.atoms)]
    explicit = [(0, 2), (2, 5), (1, 8), (5, 0), (4, 6)]
    cases = []
    for scheme in ("closest", "closest-heavy", "sidechain", "sidechain-heavy", "ca"):
        cases.append((scheme, "all", True, False, [p_ for p_ in all_pairs if p_[0] in protein and p_[1] in protein]))
        cases.append((scheme, explicit, True, False, explicit))
    cases.append(("closest", "all", False, False, all_pairs))
    cases.append(("closest-heavy", explicit, True, True, explicit))
    cases.append(("ca", [(0, 2), (0, 3), (3, 5), (1, 8)], True, False, [(0, 2), (1, 8)]))
    beta = Rat(Poly.var("beta"))
    for scheme, contacts, ignore, soft, want_pairs in cases:
        what = "scheme=%r, contacts=%s%s%s" % (scheme, "'all'" if contacts == "all" else contacts, "" if ignore else ", ignore_nonprotein=False", ", soft_min" if soft else "")
        ts = TenSym({"element": elements, "__g_element": elements}, models={"md.compute_distances": dist_model, "compute_distances": dist_model})
        log.clear()
        try:
            cval = contacts if contacts == "all" else Ten((len(contacts), 2), [Rat(Poly.const(v)) for p_ in contacts for v in p_])
            got = ts.run_fn(fn, traj=traj, contacts=cval, scheme=scheme, ignore_nonprotein=ignore, soft_min=soft, soft_min_beta=beta, periodic="<periodic>")
        except ShapeError as e:
            ctx.violated("C16-R5", fn, CONTACT, "compute_contacts", what, "array operations do not fit: %s" % e)
            continue
        except (TUnsupported, PUnsupported) as e:
            ctx.undecided("C16-R5", fn, CONTACT, "compute_contacts", what, "not evaluable: %s" % e)
            continue
        if not (isinstance(got, tuple) and len(got) == 2):
            ctx.violated("C16-R5", fn, CONTACT, "compute_contacts", what, "does not return (distances, residue_pairs)")
            continue
        dist, labels = got
        try:
            lab = [(ts.pyval(labels.at([k, 0])), ts.pyval(labels.at([k, 1]))) for k in range(labels.shape[0])] if isinstance(labels, Ten) and labels.ndim == 2 else [tuple(ts.pyval(x) for x in ts.iterate(p_)) for p_ in ts.iterate(labels)]
        except Exception:
            lab = None
        ok = lab == [tuple(p_) for p_ in want_pairs]
        problem = None if ok else "reported residue pairs are %s, expected %s" % (lab, want_pairs)
        if ok and not (isinstance(dist, Ten) and dist.shape == (N_F, len(want_pairs))):
            problem = "distances have shape %s for %d residue pairs and %d frames" % (getattr(dist, "shape", None), len(want_pairs), N_F)
        if problem is None and log.get("periodic") != "<periodic>":
            problem = "compute_distances is called with periodic=%r instead of the caller's value" % (log.get("periodic"),)
        if problem is None:
            mins = {repr(c[2].at([f])): (c[1][0], c[1][1], f) for c in ts.calls if c[0] == "min" for f in range(N_F)}
            for k, (r0, r1) in enumerate(want_pairs):
                exp = sorted(dsym(0, a, b)[2:] for a in members(scheme, residues[r0]) for b in members(scheme, residues[r1]))
                for f in range(N_F):
                    v = dist.at([f, k])
                    expf = sorted(dsym(f, a, b) for a in members(scheme, residues[r0]) for b in members(scheme, residues[r1]))
                    if scheme == "ca":
                        good = len(expf) == 1 and repr(v) == expf[0]
                        seen = repr(v)
                    elif not soft:
                        m = mins.get(repr(v))
                        seen = sorted(repr(x) for x in ts.getitem(m[0], m[2]).data) if m and m[1] in (1, -1) else repr(v)[:80]
                        good = seen == expf
                    else:
                        tot = Rat(Poly.const(0))
                        for nm in expf:
                            tot = tot + ts.fn("exp", beta / Rat(Poly.var(nm)))
                        good = ts.equal(v, beta / ts.fn("log", tot))
                        seen = repr(ts.reduce(v))[:120]
                    if not good:
                        problem = "column %d (residues %d-%d), frame %d is taken over %s; the scheme designates the atom pairs %s" % (k, r0, r1, f, seen, expf)
                        break
                if problem:
                    break
        ctx.decide(problem is None, "C16-R5", fn, CONTACT, "compute_contacts", "%s: labels, and per column the %s over exactly the designated atom pairs" % (what, "soft minimum" if soft else "minimum" if scheme != "ca" else "CA-CA distance"), "",
                   problem or "")


def r5_squareform(ctx):
    """squareform: contact_maps[f, i, j] = contact_maps[f, j, i] = distances[f, k] for residue_pairs[k] = (i, j), zero elsewhere"""
    fn = ctx.py.func(CONTACT, "squareform")
    ctx.analysed_functions.add(CONTACT + ":squareform")
    prs = [(0, 2), (3, 1), (2, 4)]
    d = Ten.sym("c", (N_F, len(prs)))
    ts = TenSym({})
    try:
        got = ts.run_fn(fn, distances=d, residue_pairs=Ten((len(prs), 2), [Rat(Poly.const(v)) for p_ in prs for v in p_]))
        want = Ten.full((N_F, 5, 5), Rat(Poly.const(0)))
        for f in range(N_F):
            for k, (i, j) in enumerate(prs):
                ts.setitem(want, (f, i, j), d.at([f, k]))
                ts.setitem(want, (f, j, i), d.at([f, k]))
        diff = ts.first_difference(got, want) if got is not None else "nothing returned"
        ctx.decide(diff is None, "C16-R5", fn, CONTACT, "squareform", "maps[f, i, j] = maps[f, j, i] = distances[f, k] for pair k = (i, j); 0 elsewhere; n = max index + 1", "", "contact maps differ: %s" % diff)
    except ShapeError as e:
        ctx.violated("C16-R5", fn, CONTACT, "squareform", "shape of the maps", "array operations do not fit: %s" % e)
    except (TUnsupported, PUnsupported) as e:
        ctx.undecided("C16-R5", fn, CONTACT, "squareform", "maps", "not evaluable: %s" % e)
