"""C17  Unit-cell lengths/angles and box vectors describe the same cell.

R1 angle naming by dependence (alpha <- {b,c}, beta <- {c,a}, gamma <- {a,b}; a <- a_length; b <- {b_length, gamma}; ...)
R2 standard orientation by construction (a has literal zero y,z; b has literal zero z)
R3 column order between Trajectory.unitcell_vectors getter/setter and the conversion functions
R4 completeness propagates: lengths and angles are passed / assigned / cleared together at every site of the package
R5 degrees: angles are converted to radians before cos/sin, arccos results are converted back; volume = det(vectors)
"""
from __future__ import annotations

import ast

from ..core import AnalysisError
from ..cfg import CFG
from ..flow import Defs, deps
from ..pyfront import dotted, call_name, kwarg, params, src, walk_no_nested, const, inline_locals, local_defs

EXPLANATION = (
    "Dependence-set analysis of the cell conversion functions (which inputs each output depends on is semantic: it "
    "survives rewriting the formulas but not swapping two angles or two vectors), literal-zero check of the standard "
    "orientation, positional agreement between the Trajectory property getter/setter and the callee signatures, a "
    "package-wide enumeration of Trajectory construction / unit-cell assignment sites for paired lengths+angles, and a "
    "small degree/radian unit inference over the trigonometric calls.")
NOT_DECIDED = ["numerical agreement of vectors with lengths/angles, near-degenerate cells", "positive volume for valid angle triples (numerical)"]
ASSUMPTIONS = ["numpy trigonometric functions take radians"]
FLOORS = {"C17-R1": 15, "C17-R2": 3, "C17-R3": 8, "C17-R4": 20, "C17-R5": 8, "C17-R6": 4, "C17-R7": 19, "C17-R8": 20}

UC = "mdtraj/utils/unitcell.py"
TRAJ = "mdtraj/core/trajectory.py"
LMP = "mdtraj/formats/lammpstrj.py"


def _ret_tuple(fn):
    for n in walk_no_nested(fn):
        if isinstance(n, ast.Return) and isinstance(n.value, ast.Tuple):
            return n
    for n in walk_no_nested(fn):
        if isinstance(n, ast.Return) and isinstance(n.value, ast.Call) and n.value.args and isinstance(n.value.args[0], (ast.List, ast.Tuple)):
            return n
    # np.array(extents + tilts) with the pieces in single-definition locals: fold the list expression
    for n in walk_no_nested(fn):
        if isinstance(n, ast.Return) and isinstance(n.value, ast.Call) and n.value.args:
            elts = _fold_list(fn, n.value.args[0])
            if elts is not None:
                n2 = ast.Return(value=ast.Call(func=n.value.func, args=[ast.List(elts=elts, ctx=ast.Load())] + list(n.value.args[1:]), keywords=n.value.keywords))
                ast.copy_location(n2, n)
                ast.fix_missing_locations(n2)
                n2._orig = n
                return n2
    return None


def _fold_list(fn, e, depth=0):
    if depth > 4:
        return None
    if isinstance(e, (ast.List, ast.Tuple)):
        return list(e.elts)
    if isinstance(e, ast.Name):
        ds = local_defs(fn).get(e.id, [])
        return _fold_list(fn, ds[0], depth + 1) if len(ds) == 1 and ds[0] is not None else None
    if isinstance(e, ast.BinOp) and isinstance(e.op, ast.Add):
        a, b = _fold_list(fn, e.left, depth + 1), _fold_list(fn, e.right, depth + 1)
        return a + b if a is not None and b is not None else None
    return None


def _param_deps(expr, node, defs, ps):
    ds = deps(expr, node, defs)
    # shape metadata (a.ndim, a.shape) is not a value dependence
    ds = {d for d in ds if not any(part.split("[")[0] in ("ndim", "shape", "dtype", "size") for part in d.split(".")[1:])}
    return {d.split(".")[0].split("[")[0] for d in ds} & set(ps)


def _check_deps(ctx, rel, q, fn, outputs, want):
    """outputs: list of (label, expr, cfg node); want: {label: set of params}"""
    for label, expr, node, defs, ps in outputs:
        got = _param_deps(expr, node, defs, ps)
        w = want[label]
        ctx.decide(got == w, "C17-R1", expr, rel, q, "%s depends on %s" % (label, sorted(w)), "",
                   "output `%s` depends on %s, the cell convention requires %s (two angles or vectors are exchanged, or one is ignored)" % (label, sorted(got), sorted(w)))


def check(ctx):
    ctx.rule("C17-R1", "each output of the cell conversions depends on exactly the inputs the crystallographic convention names (alpha = angle(b,c), beta = angle(c,a), gamma = angle(a,b))")
    ctx.rule("C17-R2", "lengths_and_angles_to_box_vectors builds a = (a,0,0) and b = (bx,by,0) with literal zeros")
    ctx.rule("C17-R3", "the unitcell_vectors getter/setter pass columns 0,1,2 of lengths then angles in the callee's parameter order and stack (a,b,c)/(alpha,beta,gamma) in that order")
    ctx.rule("C17-R4", "unitcell_lengths and unitcell_angles are passed, assigned and cleared together at every site")
    ctx.rule("C17-R7", "Gram identities by value numbering: |a|,|b|,|c| and the three angles of the vectors built from (lengths, angles) are those parameters; the inverse uses sqrt(v.v) and acos(v.w/|v||w|); "
                       "LAMMPS tilt factors equal the box-vector components in writer and free function, and parse_box inverts write_box")
    r7_gram(ctx)
    ctx.rule("C17-R6", "LAMMPS bounding-box offsets: writer adds and reader subtracts min/max over (0, xy, xz, xy+xz) and (0, yz)")
    lammps_bounds(ctx, "C17-R6")
    ctx.rule("C17-R5", "angles in degrees are converted to radians before cos/sin; arccos results are converted to degrees before being returned; volumes are det(unitcell_vectors)")

    # ------------------------------------------------------------------ R1, R2, R5 on unitcell.py
    fn = ctx.py.func(UC, "lengths_and_angles_to_box_vectors")
    ps = params(fn)
    if ps != ["a_length", "b_length", "c_length", "alpha", "beta", "gamma"]:
        ctx.violated("C17-R3", fn, UC, "lengths_and_angles_to_box_vectors", "signature", "parameter order changed to %s" % ps)
    cfg = CFG(fn)
    defs = Defs(cfg)
    ret = _ret_tuple(fn)
    if ret is None or len(ret.value.elts) != 3:
        raise AnalysisError("lengths_and_angles_to_box_vectors no longer returns a 3-tuple")
    rn = cfg.node_of[ret]
    outs = [(lab, e, rn, defs, ps) for lab, e in zip(("a", "b", "c"), ret.value.elts)]
    _check_deps(ctx, UC, "lengths_and_angles_to_box_vectors", fn, outs,
                {"a": {"a_length"}, "b": {"b_length", "gamma"}, "c": {"c_length", "alpha", "beta", "gamma"}})
    # components of c
    for name, w in (("cx", {"c_length", "beta"}), ("cy", {"c_length", "alpha", "beta", "gamma"})):
        d = [x for x in defs.defs if x.var == name and x.kind == "assign"]
        if d:
            got = _param_deps(d[0].value, d[0].node, defs, ps)
            ctx.decide(got == w, "C17-R1", d[0].stmt, UC, "lengths_and_angles_to_box_vectors", "%s depends on %s" % (name, sorted(w)), "",
                       "`%s` depends on %s instead of %s" % (name, sorted(got), sorted(w)))
    # R2: exact zeros, on the values returned (sa/tensym.py; helper functions of the module are evaluated in place)
    try:
        ev_, vecs = _eval_box_vectors(ctx)
        for name, k_, zero_idx in (("a", 0, (1, 2)), ("b", 1, (2,))):
            ok = all(vecs[k_][i].const_value() == 0 for i in zero_idx)
            ctx.decide(ok, "C17-R2", fn, UC, "lengths_and_angles_to_box_vectors", "%s has exact zero components %s" % (name, zero_idx), "",
                       "vector %s = %s does not have exact zeros in components %s: the box leaves the standard orientation" % (name, [repr(x) for x in vecs[k_]], zero_idx))
        ctx.decide(ev_.equal(vecs[0][0], _sym("a_length")), "C17-R2", fn, UC, "lengths_and_angles_to_box_vectors", "first vector returned = (a_length, 0, 0)", "",
                   "the first vector returned has x component %r" % (vecs[0][0],))
    except _PUnsupported as e:
        ctx.undecided("C17-R2", fn, UC, "lengths_and_angles_to_box_vectors", "exact zero components", "not evaluable: %s" % e)
    _units(ctx, UC, "lengths_and_angles_to_box_vectors", fn, cfg, defs, deg_params={"alpha", "beta", "gamma"})

    fn = ctx.py.func(UC, "box_vectors_to_lengths_and_angles")
    ps = params(fn)
    cfg = CFG(fn)
    defs = Defs(cfg)
    ret = _ret_tuple(fn)
    if ret is None or len(ret.value.elts) != 6:
        raise AnalysisError("box_vectors_to_lengths_and_angles no longer returns a 6-tuple")
    rn = cfg.node_of[ret]
    labs = ("a_length", "b_length", "c_length", "alpha", "beta", "gamma")
    outs = [(lab, e, rn, defs, ps) for lab, e in zip(labs, ret.value.elts)]
    _check_deps(ctx, UC, "box_vectors_to_lengths_and_angles", fn, outs,
                {"a_length": {"a"}, "b_length": {"b"}, "c_length": {"c"}, "alpha": {"b", "c"}, "beta": {"c", "a"}, "gamma": {"a", "b"}})
    names_ok = [dotted(e) for e in ret.value.elts] == list(labs)
    ctx.decide(names_ok, "C17-R3", ret, UC, "box_vectors_to_lengths_and_angles", "return order (a, b, c, alpha, beta, gamma)", "", "return order changed: %s" % src(ret.value))
    _units(ctx, UC, "box_vectors_to_lengths_and_angles", fn, cfg, defs, deg_params=set(), returns_deg=(3, 4, 5))

    fn = ctx.py.func(UC, "lengths_and_angles_to_tilt_factors")
    ps = params(fn)
    cfg = CFG(fn)
    defs = Defs(cfg)
    ret = _ret_tuple(fn)
    if ret is None:
        raise AnalysisError("lengths_and_angles_to_tilt_factors: return not recognised")
    els = ret.value.args[0].elts
    rn = cfg.node_of[getattr(ret, "_orig", ret)]
    labs = ("lx", "ly", "lz", "xy", "xz", "yz")
    # the order of the six numbers is decided by value (C17-R7: each equals the corresponding box-vector component); here only their count
    ctx.decide(len(els) == 6, "C17-R3", getattr(ret, "_orig", ret), UC, "lengths_and_angles_to_tilt_factors", "six numbers returned (lx, ly, lz, xy, xz, yz; order decided by value, C17-R7)", "", "%d values are returned" % len(els))
    outs = [(lab, e, rn, defs, ps) for lab, e in zip(labs, els)]
    _check_deps(ctx, UC, "lengths_and_angles_to_tilt_factors", fn, outs,
                {"lx": {"a_length"}, "xy": {"b_length", "gamma"}, "xz": {"c_length", "beta"}, "ly": {"b_length", "gamma"},
                 "yz": {"b_length", "c_length", "alpha", "beta", "gamma"}, "lz": {"b_length", "c_length", "alpha", "beta", "gamma"}})
    _units(ctx, UC, "lengths_and_angles_to_tilt_factors", fn, cfg, defs, deg_params={"alpha", "beta", "gamma"})

    # LAMMPS box reader / writer: which quantity each of the six numbers depends on, the order and units of what parse_box returns - all by value in
    # C17-R7 (write_box against lengths_and_angles_to_tilt_factors; parse_box(write_box(cell)) recovers a, b, c and the three cosines in that order)

    # ------------------------------------------------------------------ R3 getter / setter
    g = ctx.py.func(TRAJ, "Trajectory.unitcell_vectors.getter")
    _r3_getter_setter(ctx, g)

    ctx.rule("C17-R8", "wherever cell lengths and cell angles are passed together they are read from the same object; a saver whose format holds lengths only refuses every frame whose angles it cannot express")
    r8_cell_fields_travel_together(ctx)
    # ------------------------------------------------------------------ R4
    _r4(ctx)

    # ------------------------------------------------------------------ R5 volume
    _volume_by_evaluation(ctx)


def _unpack_names(fn, expr, defs, node, _depth=0):
    """Names among {a,b,c,alpha,beta,gamma} that expr depends on, following local single definitions."""
    base = {"a", "b", "c", "alpha", "beta", "gamma"}
    out = set()
    for n in ast.walk(expr):
        if isinstance(n, ast.Name):
            if n.id in base:
                out.add(n.id)
            elif _depth < 6:
                for df in defs.reaching(node, n.id):
                    if df.kind == "assign" and df.value is not None:
                        out |= _unpack_names(fn, df.value, defs, df.node, _depth + 1)
    return out


# -------------------------------------------------------------------------------------------------
from ..pysym import Unsupported as _PUnsupported      # noqa: E402


def _sym(n):
    from ..poly import Poly, Rat
    return Rat(Poly.var(n))


def _eval_box_vectors(ctx):
    """(evaluator, [a, b, c] as Vec of 3 components): lengths_and_angles_to_box_vectors evaluated on six symbols"""
    from ..tensym import TenSym, Ten
    from ..pysym import Vec
    mod = ctx.py.mod(UC)
    fn = ctx.py.func(UC, "lengths_and_angles_to_box_vectors")
    funcs = {q: f for q, f in mod.functions.items() if "." not in q and q != "lengths_and_angles_to_box_vectors"}
    ts = TenSym(funcs=funcs)
    r = ts.run_fn(fn, **{k: _sym(k) for k in ("a_length", "b_length", "c_length", "alpha", "beta", "gamma")})
    if not (isinstance(r, (tuple, list)) and len(r) == 3 and all(isinstance(v, Ten) and v.shape == (3,) for v in r)):
        raise _PUnsupported("return value is not three 3-vectors")
    return ts, [Vec(list(v.data)) for v in r]


DEG, RAD, NONE = "deg", "rad", "-"


def _unit(e, node, defs, deg_params, depth=0):
    """deg | rad | - (not an angle / unknown)"""
    if depth > 8 or e is None:
        return NONE
    if isinstance(e, ast.Name):
        rd = defs.reaching(node, e.id)
        us = set()
        for df in rd:
            if df.kind == "param":
                us.add(DEG if e.id in deg_params else NONE)
            elif df.kind == "assign" and df.value is not None:
                us.add(_unit(df.value, df.node, defs, deg_params, depth + 1))
            elif df.kind == "unpack" and df.value is not None:
                us.add(_unit(df.value, df.node, defs, deg_params, depth + 1))
            else:
                us.add(NONE)
        if len(us) == 1:
            return us.pop()
        return "mixed" if (DEG in us and RAD in us) else (us - {NONE}).pop() if len(us - {NONE}) == 1 else NONE
    if isinstance(e, ast.Call):
        d = call_name(e) or ""
        if d in ("np.deg2rad", "np.radians", "math.radians"):
            return RAD
        if d in ("np.rad2deg", "np.degrees", "math.degrees"):
            return DEG
        if d in ("np.arccos", "np.arcsin", "np.arctan2", "np.arctan", "math.acos", "math.atan2"):
            return RAD
        return NONE
    if isinstance(e, ast.BinOp):
        s = src(e).replace(" ", "")
        # x * np.pi / 180   |  x * 180 / np.pi
        for inner in ast.walk(e):
            pass
        if isinstance(e.op, (ast.Mult, ast.Div)):
            l = _unit(e.left, node, defs, deg_params, depth + 1)
            r = _unit(e.right, node, defs, deg_params, depth + 1)
            if "np.pi/180" in s or "*np.pi/180" in s or "/180*np.pi" in s or "/180.0*np.pi" in s or "np.pi/180.0" in s:
                inner_u = [u for u in (_first_angle(e, node, defs, deg_params, depth),) if u]
                return RAD if (inner_u and inner_u[0] == DEG) else (RAD if l == DEG or r == DEG else NONE)
            if "180/np.pi" in s or "180.0/np.pi" in s:
                return DEG if (l == RAD or r == RAD or _first_angle(e, node, defs, deg_params, depth) == RAD) else NONE
            return l if l != NONE else r
        return NONE
    return NONE


def _first_angle(e, node, defs, deg_params, depth):
    for n in ast.walk(e):
        if isinstance(n, (ast.Name, ast.Call)) and n is not e:
            u = _unit(n, node, defs, deg_params, depth + 2) if not (isinstance(n, ast.Name) and n.id == "np") else NONE
            if u in (DEG, RAD):
                return u
    return None


def _units(ctx, rel, q, fn, cfg, defs, deg_params, returns_deg=()):
    n_trig = 0
    for n in cfg.nodes():
        for e in cfg.own_exprs(n):
            for c in ast.walk(e):
                if isinstance(c, ast.Call) and call_name(c) in ("np.cos", "np.sin", "np.tan", "math.cos", "math.sin") and c.args:
                    n_trig += 1
                    u = _unit(c.args[0], n, defs, deg_params)
                    ctx.decide(u == RAD, "C17-R5", c, rel, q, "%s argument in radians" % src(c)[:40], "",
                               "`%s` is applied to a value in %s" % (src(c), {"deg": "degrees", "-": "unknown units", "mixed": "degrees on one path and radians on another"}.get(u, u)))
    ret = _ret_tuple(fn)
    if ret is not None and returns_deg:
        rn = cfg.node_of[ret]
        for i in returns_deg:
            e = ret.value.elts[i]
            u = _unit(e, rn, defs, deg_params)
            if u not in (DEG, RAD):
                # the unit inference does not look into helper functions; decide by value instead: an angle in degrees is (180/pi) * acos(...)
                u = _unit_by_value(fn, i) or u
            ctx.decide(u == DEG, "C17-R5", ret, rel, q, "returned %s in degrees" % src(e), "", "returned angle `%s` is in %s" % (src(e), u))


# -------------------------------------------------------------------------------------------------
def _r4(ctx):
    n_sites = 0
    for rel in ctx.py.all_py("mdtraj"):
        if "/tests/" in rel or rel.startswith("mdtraj/testing"):
            continue
        try:
            m = ctx.py.mod(rel)
        except AnalysisError:
            raise
        for q, fn in m.functions.items():
            if q.endswith((".getter", ".deleter")) or "#" in q:
                continue
            for n in walk_no_nested(fn):
                if isinstance(n, ast.Call) and (call_name(n) or "").split(".")[-1] in ("Trajectory", "__class__") and \
                        (call_name(n) in ("Trajectory", "self.__class__", "md.Trajectory", "mdtraj.Trajectory")):
                    kws = {k.arg for k in n.keywords}
                    has_l = "unitcell_lengths" in kws or len(n.args) >= 4
                    has_a = "unitcell_angles" in kws or len(n.args) >= 5
                    n_sites += 1
                    ctx.decide(has_l == has_a, "C17-R4", n, rel, q, "Trajectory(...) lengths and angles together", "both" if has_l else "neither",
                               "a Trajectory is constructed with unitcell_%s but without unitcell_%s" % (("lengths", "angles") if has_l else ("angles", "lengths")))
            # attribute assignment pairs  t.unitcell_lengths = ... / t.unitcell_angles = ...
            sets = {}
            for n in walk_no_nested(fn):
                if isinstance(n, ast.Assign):
                    for t in n.targets:
                        d = dotted(t)
                        if d and d.split(".")[-1] in ("unitcell_lengths", "unitcell_angles", "_unitcell_lengths", "_unitcell_angles") and "." in d:
                            base = d.rsplit(".", 1)[0]
                            sets.setdefault(base, {}).setdefault(d.split(".")[-1].lstrip("_"), []).append(n)
                        if isinstance(t, ast.Tuple):
                            pass
                    # chained  a._unitcell_lengths = a._unitcell_angles = None
            for base, d in sets.items():
                if q.endswith("unitcell_lengths.setter") or q.endswith("unitcell_angles.setter"):
                    continue
                ok = set(d) == {"unitcell_lengths", "unitcell_angles"}
                n_sites += 1
                node = list(d.values())[0][0]
                ctx.decide(ok, "C17-R4", node, rel, q, "%s.unitcell_lengths and .unitcell_angles assigned together" % base, "",
                           "only %s is assigned on `%s`: the cell becomes incomplete" % (sorted(d), base))
    # the unitcell_vectors setter evaluated (sa/tensym.py): None / an all-zero box clears both fields; a box sets both, from the same conversion
    _vectors_setter_by_evaluation(ctx)
    _mdcrd_rectilinear_guard(ctx)
    hv = ctx.py.func(TRAJ, "Trajectory._have_unitcell.getter")
    t = src(hv)
    ctx.decide("self._unitcell_lengths is not None and self._unitcell_angles is not None" in t, "C17-R4", hv, TRAJ, "Trajectory._have_unitcell.getter",
               "cell present iff both fields present", "", "_have_unitcell no longer requires both lengths and angles")
    sl = ctx.py.func(TRAJ, "Trajectory.slice")
    _r4_slice_by_evaluation(ctx, sl)
    if n_sites < 15:
        raise AnalysisError("only %d unit-cell construction/assignment sites found" % n_sites)


class _LammpsBox:
    """write_box and parse_box evaluated as whole functions (sa/tensym.py) on a generic triclinic cell: what the writer puts on the three
    `lo_bound hi_bound tilt` lines, and what the reader makes of three generic lines / of the writer's lines.  Nothing depends on how the
    locals are called or on whether the lines are produced by three statements or by a loop."""

    def __init__(self, ctx):
        from ..tensym import TenSym, Ten, Obj, FStr
        from ..poly import Poly, Rat
        self.ctx = ctx
        self.Ten, self.Obj, self.TenSym, self.FStr = Ten, Obj, TenSym, FStr
        self.sym = lambda n: Rat(Poly.var(n))
        self.wb = ctx.py.func(LMP, "LAMMPSTrajectoryFile.write_box")
        self.pb = ctx.py.func(LMP, "LAMMPSTrajectoryFile.parse_box")
        sym = self.sym
        self.L = [sym("a_length"), sym("b_length"), sym("c_length")]
        self.A = [sym("alpha"), sym("beta"), sym("gamma")]
        self.M = [sym("m0"), sym("m1"), sym("m2")]
        self.written = {}

    def write(self, triclinic=True):
        """(evaluator, [three FStr lines]) of write_box on the generic cell"""
        if triclinic in self.written:
            return self.written[triclinic]
        Ten, Obj = self.Ten, self.Obj
        lines = []

        def write(ev, call):
            lines.append(ev.ex(call.args[0]))
        ts = self.TenSym(models={"self._fh.write": write, "np.allclose": lambda ev, c: not triclinic})
        ts.run_fn(self.wb, self=Obj(), lengths=Ten((3,), list(self.L)), angles=Ten((3,), list(self.A)) if triclinic else Ten((3,), [ts.lift(90)] * 3), mins=Ten((3,), list(self.M)))
        data = [l for l in lines if isinstance(l, self.FStr)]
        toks = []
        for l in data:
            # the line must be its values separated by blanks and ended by a newline: that is what split() takes apart
            lit = [p_ for p_ in l.parts if isinstance(p_, str)]
            if not (l.parts and isinstance(l.parts[-1], str) and l.parts[-1].endswith("\n") and all(x.strip() == "" for x in lit) and len(lit) == len(l.values())):
                raise AnalysisError("write_box: line `%r` is not a blank-separated list of values" % (l,))
            toks.append(l.values())
        self.written[triclinic] = (ts, toks, [l for l in lines if isinstance(l, str)])
        return self.written[triclinic]

    def read(self, toks, style, ts_parent=None):
        """(evaluator, lengths, angles) of parse_box on the given token lines"""
        Obj = self.Obj
        queue = [list(t) for t in toks]

        def readline(ev, call):
            if not queue:
                raise AnalysisError("parse_box reads more than %d box lines" % len(toks))
            line = queue.pop(0)
            return Obj(tag="line", split=lambda: list(line))
        ts = self.TenSym(models={"self._fh.readline": readline})
        if ts_parent is not None:
            ts.opaque, ts.calls = ts_parent.opaque, ts_parent.calls
        ts.positive = {"a_length", "b_length", "c_length"}
        res = ts.run_fn(self.pb, self=Obj(), style=style)
        if queue:
            raise AnalysisError("parse_box leaves %d box line(s) unread" % len(queue))
        lengths, angles = res
        return ts, ts.to_ten(lengths), ts.to_ten(angles)


def _show(ts, v):
    """repr of a value with the opaque min#k / max#k symbols spelled out as min{...} / max{...}"""
    text = repr(ts.reduce(v)) if v is not None else "None"
    for (name, args, r) in sorted(ts.calls, key=lambda c: -len(repr(c[2]))):
        if name in ("min", "max") and args and hasattr(args[0], "data"):
            text = text.replace(repr(r), "%s{%s}" % (name, ", ".join(repr(x) for x in args[0].data)))
    return text


_LB_CACHE = {}


def _lammps_box(ctx):
    if id(ctx) not in _LB_CACHE:
        _LB_CACHE.clear()
        _LB_CACHE[id(ctx)] = _LammpsBox(ctx)
    return _LB_CACHE[id(ctx)]


def lammps_bounds(ctx, rule):
    """LAMMPS stores a triclinic box as bounding-box extents: bound = lo/hi + min/max(0, xy, xz, xy+xz) (x) and (0, yz) (y).
    The writer must add exactly these offsets and the reader must subtract them; otherwise lengths read back differ from the cell that
    was saved.  Decided on the values: the six numbers the writer puts on the box lines, and the lengths the reader computes from three
    generic lines."""
    from ..pysym import Unsupported
    lb = _lammps_box(ctx)
    q = "LAMMPSTrajectoryFile.write_box"
    try:
        ts, toks, _hdr = lb.write(True)
    except Unsupported as e:
        ctx.undecided(rule, lb.wb, LMP, q, "bounding-box offsets", "write_box not evaluable: %s" % e)
        return
    if len(toks) != 3 or any(len(t) != 3 for t in toks):
        ctx.violated(rule, lb.wb, LMP, q, "three lines `lo_bound hi_bound tilt`", "the triclinic branch writes %s values per line" % [len(t) for t in toks])
        return
    xy, xz, yz = toks[0][2], toks[1][2], toks[2][2]
    zero = ts.lift(0)
    Sx, Sy = [zero, xy, xz, xy + xz], [zero, yz]

    def free_of_extremes(v):
        return not any(str(x).startswith(("min#", "max#")) for x in ts.reduce(v).vars())
    spec = [("xlo_bound", toks[0][0], lb.M[0], "min", Sx, "0, xy, xz, xy + xz"), ("xhi_bound", toks[0][1], lb.M[0], "max", Sx, "0, xy, xz, xy + xz"),
            ("ylo_bound", toks[1][0], lb.M[1], "min", Sy, "0, yz"), ("yhi_bound", toks[1][1], lb.M[1], "max", Sy, "0, yz")]
    for nm, got, m, f, S, txt in spec:
        rest = got - m - ts.extreme(f, S)
        ok = free_of_extremes(rest) and (f == "max" or ts.equal(rest, zero))
        ctx.decide(ok, rule, lb.wb, LMP, q, "%s = %s + %s(%s)" % (nm, nm[:3], f, txt), "",
                   "the writer puts %s = %r on the line; LAMMPS defines %s + %s(%s) - the box read back is not the box that was written whenever the omitted "
                   "term is the extreme one (e.g. both tilt factors negative)" % (nm, _show(ts, got), nm[:3], f, txt))
    for k, nm in ((0, "zlo_bound"), (1, "zhi_bound")):
        ctx.decide(free_of_extremes(toks[2][k]), rule, lb.wb, LMP, q, "%s carries no offset" % nm, "", "the writer puts %s = %r on the line" % (nm, ts.reduce(toks[2][k])))
    # ---- reader on three generic lines
    qr = "LAMMPSTrajectoryFile.parse_box"
    g = [[lb.sym("t%d%d" % (k, j)) for j in range(3)] for k in range(3)]
    try:
        tr, lengths, _angles = lb.read(g, "triclinic")
    except Unsupported as e:
        ctx.undecided(rule, lb.pb, LMP, qr, "bounding-box offsets", "parse_box not evaluable: %s" % e)
        return
    gxy, gxz, gyz = g[0][2], g[1][2], g[2][2]
    z = tr.lift(0)
    gSx, gSy = [z, gxy, gxz, gxy + gxz], [z, gyz]
    lx = (g[0][1] - tr.extreme("max", gSx)) - (g[0][0] - tr.extreme("min", gSx))
    ly = (g[1][1] - tr.extreme("max", gSy)) - (g[1][0] - tr.extreme("min", gSy))
    lz = g[2][1] - g[2][0]
    want = [("a", lx * lx, "lx"), ("b", ly * ly + gxy * gxy, "sqrt(ly^2 + xy^2)"), ("c", lz * lz + gxz * gxz + gyz * gyz, "sqrt(lz^2 + xz^2 + yz^2)")]
    for k, (nm, w2, txt) in enumerate(want):
        got = lengths.data[k] if lengths.shape == (3,) else None
        ok = got is not None and tr.equal(tr.reduce(got * got), w2)
        ctx.decide(ok, rule, lb.pb, LMP, qr, "%s = %s with lo/hi = bound - min/max(offsets)" % (nm, txt), "",
                   "the reader computes %s = %s from the lines `lo_bound hi_bound tilt`; with the LAMMPS offsets (x: 0, xy, xz, xy+xz; y: 0, yz) removed from the bounds it is %s"
                   % (nm, _show(tr, got), txt))


# ---------------------------------------------------------------------------------------------------
# R7: Gram identities by algebraic value numbering (sa/pysym.py)
# ---------------------------------------------------------------------------------------------------
def r7_gram(ctx):
    from ..pysym import PySym, Vec, Unsupported
    from ..poly import Poly, Rat

    def sym(n):
        return Rat(Poly.var(n))
    # ---- lengths, angles -> vectors: the Gram matrix of (a, b, c) is the one the six parameters define
    fn = ctx.py.func(UC, "lengths_and_angles_to_box_vectors")
    try:
        ps, ret = _eval_box_vectors(ctx)
    except Unsupported as e:
        ctx.undecided("C17-R7", fn, UC, "lengths_and_angles_to_box_vectors", "Gram identities", "not evaluable: %s" % e)
        return
    a, b, c = ret
    L = {"a": sym("a_length"), "b": sym("b_length"), "c": sym("c_length")}

    def cosd(ps_, name):
        return ps_.fn("cos", sym(name) * sym("pi") / 180)
    vec = {"a": a, "b": b, "c": c}
    for x in "abc":
        ctx.decide(ps.equal(ps.dot(vec[x], vec[x]), L[x] * L[x]), "C17-R7", fn, UC, "lengths_and_angles_to_box_vectors", "|%s|^2 = %s_length^2" % (x, x), "",
                   "the vector %s built from the parameters does not have length %s_length (|%s|^2 = %r)" % (x, x, x, ps.reduce(ps.dot(vec[x], vec[x]))))
    for (x, y, ang) in (("b", "c", "alpha"), ("c", "a", "beta"), ("a", "b", "gamma")):
        ctx.decide(ps.equal(ps.dot(vec[x], vec[y]), L[x] * L[y] * cosd(ps, ang)), "C17-R7", fn, UC, "lengths_and_angles_to_box_vectors", "%s.%s = |%s||%s| cos(%s)" % (x, y, x, y, ang), "",
                   "the angle between %s and %s is not %s: %s.%s = %r" % (x, y, ang, x, y, ps.reduce(ps.dot(vec[x], vec[y]))))
    # ---- vectors -> lengths, angles
    fn2 = ctx.py.func(UC, "box_vectors_to_lengths_and_angles")
    comp = {k: Vec([sym("%s%d" % (k, i)) for i in range(3)]) for k in "abc"}
    try:
        p2 = PySym(comp).run(fn2.body)
    except Unsupported as e:
        ctx.undecided("C17-R7", fn2, UC, "box_vectors_to_lengths_and_angles", "definitions", "not evaluable: %s" % e)
        return
    r2 = p2.returned
    if not (isinstance(r2, Vec) and len(r2) == 6):
        ctx.undecided("C17-R7", fn2, UC, "box_vectors_to_lengths_and_angles", "definitions", "return value is not a 6-tuple")
        return
    for i, x in enumerate("abc"):
        want = p2.fn("sqrt", p2.dot(comp[x], comp[x]))
        ctx.decide(p2.equal(r2[i], want), "C17-R7", fn2, UC, "box_vectors_to_lengths_and_angles", "%s_length = sqrt(%s.%s)" % (x, x, x), "", "%s_length is %r" % (x, r2[i]))
    for i, (x, y, ang) in enumerate((("b", "c", "alpha"), ("c", "a", "beta"), ("a", "b", "gamma"))):
        want = p2.fn("acos", p2.dot(comp[x], comp[y]) / (p2.fn("sqrt", p2.dot(comp[x], comp[x])) * p2.fn("sqrt", p2.dot(comp[y], comp[y])))) * 180 / sym("pi")
        ctx.decide(p2.equal(r2[3 + i], want), "C17-R7", fn2, UC, "box_vectors_to_lengths_and_angles", "%s = acos(%s.%s / |%s||%s|) in degrees" % (ang, x, y, x, y), "", "%s is %r" % (ang, r2[3 + i]))
    # ---- LAMMPS tilt factors: the writer's six numbers, the free function, and the reader's inverse
    tf = ctx.py.func(UC, "lengths_and_angles_to_tilt_factors")
    try:
        from ..tensym import TenSym as _TS, Ten as _Ten
        pt = _TS(funcs={q_: f_ for q_, f_ in ctx.py.mod(UC).functions.items() if "." not in q_ and q_ != "lengths_and_angles_to_tilt_factors"})
        t = pt.run_fn(tf, **{k: _sym(k) for k in ("a_length", "b_length", "c_length", "alpha", "beta", "gamma")})
        t = list(t.data) if isinstance(t, _Ten) and t.shape == (6,) else (list(t) if isinstance(t, (list, tuple)) and len(t) == 6 else None)
    except Unsupported as e:
        ctx.undecided("C17-R7", tf, UC, "lengths_and_angles_to_tilt_factors", "tilt factors", "not evaluable: %s" % e)
        return
    if t is None:
        ctx.undecided("C17-R7", tf, UC, "lengths_and_angles_to_tilt_factors", "tilt factors", "the function does not return six numbers")
        return
    names = ["lx", "ly", "lz", "xy", "xz", "yz"]
    # definition through the box vectors of the first function: lx = a_x, ly = b_y, lz = c_z, xy = b_x, xz = c_x, yz = c_y
    want = [a[0], b[1], c[2], b[0], c[0], c[1]]
    for nm, got, w in zip(names, t, want):
        # compare squares for the square-root components (both are the non-negative root)
        ok = ps.equal(got, w) if nm not in ("ly", "lz") else ps.equal(got * got, w * w)
        # the two functions use different opaque-symbol tables: re-create the value in one table by comparing normal forms of reduced squares
        if not ok:
            ok = _same_value(ps, pt, w, got, squared=nm in ("ly", "lz", "yz"))
        ctx.decide(ok, "C17-R7", tf, UC, "lengths_and_angles_to_tilt_factors", "%s equals the corresponding box-vector component" % nm, "",
                   "tilt factor %s = %r differs from the component %r of the box vectors" % (nm, pt.reduce(got), ps.reduce(w)))
    # ---- the six numbers the writer derives (from the three lines it writes), against the free function
    lb = _lammps_box(ctx)
    wb, pb = lb.wb, lb.pb
    try:
        pw, toks, _hdr = lb.write(True)
    except Unsupported as e:
        ctx.undecided("C17-R7", wb, LMP, "LAMMPSTrajectoryFile.write_box", "tilt factors", "not evaluable: %s" % e)
        return
    if len(toks) != 3 or any(len(t_) != 3 for t_ in toks):
        ctx.undecided("C17-R7", wb, LMP, "LAMMPSTrajectoryFile.write_box", "tilt factors", "the triclinic branch does not write three lines of three values")
        return
    xy_, xz_, yz_ = toks[0][2], toks[1][2], toks[2][2]
    z_ = pw.lift(0)
    Sx, Sy = [z_, xy_, xz_, xy_ + xz_], [z_, yz_]
    wrote = {"lx": toks[0][1] - toks[0][0] - pw.extreme("max", Sx) + pw.extreme("min", Sx),
             "ly": toks[1][1] - toks[1][0] - pw.extreme("max", Sy) + pw.extreme("min", Sy),
             "lz": toks[2][1] - toks[2][0], "xy": xy_, "xz": xz_, "yz": yz_}
    for nm, w in zip(names, t):
        got = wrote[nm]
        ok = _same_value(pt, pw, w, got, squared=nm in ("ly", "lz", "yz"))
        ctx.decide(ok, "C17-R7", wb, LMP, "LAMMPSTrajectoryFile.write_box", "%s as in lengths_and_angles_to_tilt_factors" % nm, "", "write_box writes %s = %r" % (nm, pw.reduce(got)))
    # ---- reader: inverse of the writer for positive lengths - parse_box evaluated on the very lines write_box produced
    try:
        pr, lengths, angles = lb.read(toks, "triclinic", ts_parent=pw)
    except Unsupported as e:
        ctx.undecided("C17-R7", pb, LMP, "LAMMPSTrajectoryFile.parse_box", "inverse of write_box", "not evaluable: %s" % e)
        return
    if lengths.shape != (3,) or angles.shape != (3,):
        ctx.undecided("C17-R7", pb, LMP, "LAMMPSTrajectoryFile.parse_box", "inverse of write_box", "parse_box does not return three lengths and three angles")
        return
    for k_, (nm, w) in enumerate((("a", sym("a_length")), ("b", sym("b_length")), ("c", sym("c_length")))):
        got = lengths.data[k_]
        ok = pr.equal(got * got, w * w)
        ctx.decide(ok, "C17-R7", pb, LMP, "LAMMPSTrajectoryFile.parse_box", "parse_box(write_box(cell)): %s recovered" % nm, "", "length %s read back as %s" % (nm, _show(pr, got)))
    for k_, nm in enumerate(("alpha", "beta", "gamma")):
        got = angles.data[k_]                                   # in degrees: 180 * acos(arg) / pi
        ok = False
        why = repr(got)
        acs = [v for v in got.vars() if (pr.opaque.get(v) or ("",))[0] == "acos"]
        if len(acs) == 1:
            f = pr.opaque.get(acs[0])
            if pr.equal(got * sym("pi"), pr.fn("acos", f[1][0]) * 180):
                arg = f[1][0]
                want = pr.fn("cos", sym(nm) * sym("pi") / 180)
                # compare squares when the argument carries the square roots b', c' of the reader
                ok = pr.equal(arg, want) or pr.equal(pr.reduce(arg * arg), want * want)
                why = repr(pr.reduce(arg))
        ctx.decide(ok, "C17-R7", pb, LMP, "LAMMPSTrajectoryFile.parse_box", "parse_box(write_box(cell)): cos(%s) recovered" % nm, "", "the cosine of %s read back is %s" % (nm, why))


def _same_value(p1, p2, v1, v2, squared=False):
    """Compare values living in two evaluators by re-expressing opaque symbols through their canonical names (cos/sin of the same canonical argument share a name)."""
    a, b = p1.reduce(v1), p2.reduce(v2)
    if squared:
        a, b = p1.reduce(a * a), p2.reduce(b * b)
        # replace sin^2 in both
    return repr(a.n * b.d) == repr(b.n * a.d) or (a.n * b.d) == (b.n * a.d)


# ---------------------------------------------------------------------------------------------------
def r8_cell_fields_travel_together(ctx):
    """Lengths and angles describe one cell only when they come from the same object: at every call that passes both
    (`unitcell_lengths=`/`unitcell_angles=` or `cell_lengths=`/`cell_angles=`) the two arguments, with single-definition locals expanded,
    are read from the same base object(s) (`self.unitcell_lengths` with `self.unitcell_angles`, a local pair `unitcell_*`, ...)."""
    def bases(fn, e, word, defs, seen=()):
        """base objects from which an attribute / local whose name contains `word` is read, through every reaching local definition"""
        out = set()
        for n in ast.walk(e):
            if isinstance(n, ast.Attribute) and word in n.attr:
                out.add(src(n.value))
            elif isinstance(n, ast.Name) and isinstance(n.ctx, ast.Load):
                ds = defs.get(n.id)
                if ds and n.id not in seen:
                    for d in ds:
                        if d is None:
                            if word in n.id:
                                out.add("<local %s>" % n.id.replace(word, "*"))
                        else:
                            sub = bases(fn, d, word, defs, seen + (n.id,))
                            out |= sub if sub or word not in n.id else {"<local %s>" % n.id.replace(word, "*")}
                elif word in n.id:
                    out.add("<local %s>" % n.id.replace(word, "*"))
        return out
    n_sites = 0
    for rel in (TRAJ, "mdtraj/formats/netcdf.py", "mdtraj/formats/amberrst.py", "mdtraj/formats/pdbx.py", "mdtraj/formats/hdf5.py", "mdtraj/formats/pdb/pdbfile.py"):
        m = ctx.py.mod(rel)
        ctx.analysed_files.add(rel)
        seen = set()
        for q, fn in sorted(m.functions.items()):
            if id(fn) in seen:
                continue
            seen.add(id(fn))
            for n in walk_no_nested(fn):
                if not isinstance(n, ast.Call):
                    continue
                kw = {k.arg: k.value for k in n.keywords if k.arg}
                for a, b in (("unitcell_lengths", "unitcell_angles"), ("cell_lengths", "cell_angles")):
                    if a in kw and b in kw:
                        n_sites += 1
                        defs = local_defs(fn)
                        ba, bb = bases(fn, kw[a], "lengths", defs), bases(fn, kw[b], "angles", defs)
                        ctx.decide(ba == bb, "C17-R8", n, rel, q, "%s and %s come from the same object %s" % (a, b, sorted(ba) or "(computed)"), "",
                                   "%s is read from %s but %s from %s: the result carries the edge lengths of one cell with the angles of another (or lengths without angles)"
                                   % (a, sorted(ba), b, sorted(bb)))
    if n_sites < 20:
        raise AnalysisError("only %d call sites pass a lengths/angles pair (24 confirmed by hand)" % n_sites)


# ---------------------------------------------------------------------------------------------------
def _r3_getter_setter(ctx, g):
    """Trajectory.unitcell_vectors by tensor value numbering (sa/tensym.py) on 2 frames: the conversion functions are summarised as
    per-frame maps whose arguments are checked element-wise; what is decided is the plumbing around them - which column goes into which
    parameter, and how the three vectors / six scalars are stacked into (n_frames, 3, 3) / (n_frames, 3)."""
    from ..tensym import TenSym, Ten, Obj, Unsupported as TUnsupported, ShapeError
    from ..poly import Poly, Rat
    F = 2
    L, A = Ten.sym("len", (F, 3)), Ten.sym("ang", (F, 3))
    state = {}

    def same(ev, x, y):
        try:
            return ev.first_difference(x, y) is None
        except TUnsupported:
            return False

    def to_vectors(ev, call):
        args = [ev.ex(a) for a in call.args]
        want = [ev.getitem(L, (slice(None), k)) for k in range(3)] + [ev.getitem(A, (slice(None), k)) for k in range(3)]
        state["getter_args"] = [k for k in range(6) if not (len(args) == 6 and same(ev, args[k], want[k]))]
        n = args[0].shape[0] if args and isinstance(args[0], Ten) and args[0].ndim == 1 else F        # one vector per row handed in
        return tuple(Ten.sym("v%d" % (k + 1), (n, 3)) for k in range(3))
    from ..tensym import run_paths
    import itertools
    q = "Trajectory.unitcell_vectors.getter"
    names = ["a = lengths[:, 0]", "b = lengths[:, 1]", "c = lengths[:, 2]", "alpha = angles[:, 0]", "beta = angles[:, 1]", "gamma = angles[:, 2]"]
    want = Ten((F, 3, 3), [Rat(Poly.var("v%d[%d,%d]" % (k + 1, f, c))) for f, k, c in itertools.product(range(F), range(3), range(3))])

    def make():
        state.pop("getter_args", None)
        me_ = Obj(_unitcell_lengths=Ten(L.shape, L.data), _unitcell_angles=Ten(A.shape, A.data), n_frames=F, _lenient=True)
        return TenSym({}, models={"lengths_and_angles_to_box_vectors": to_vectors}), {"self": me_}
    try:
        paths = run_paths(make, g)
        bad_args, bad_res, und = None, None, None
        for taken, ev, got in paths:
            cond = " and ".join(("" if t else "not ") + "(" + c + ")" for c, t in taken)
            ba = state.get("getter_args")
            if ba and bad_args is None:
                bad_args = ([names[k] for k in ba], cond)
            if isinstance(got, ShapeError):
                diff = "array operations do not fit: %s" % got
            elif isinstance(got, Exception):
                und = und or (str(got), cond)
                continue
            else:
                diff = ev.first_difference(got, want) if got is not None else "nothing returned"
            if diff is not None and bad_res is None:
                bad_res = (diff, cond)
        if und and bad_args is None and bad_res is None:
            ctx.undecided("C17-R3", g, TRAJ, q, "stacking", "not evaluable%s: %s" % ((" when " + und[1]) if und[1] else "", und[0]))
        ctx.decide(bad_args is None, "C17-R3", g, TRAJ, q, "conversion is called with (a, b, c, alpha, beta, gamma) = the columns of every frame's lengths and angles", "",
                   "argument(s) %s of lengths_and_angles_to_box_vectors are not the whole column of every frame%s" % (bad_args[0] if bad_args else "", (" when " + bad_args[1]) if bad_args and bad_args[1] else ""))
        ctx.decide(bad_res is None, "C17-R3", g, TRAJ, q, "result[f, k, :] = k-th box vector of frame f (on each of %d data-dependent paths)" % len(paths), "",
                   "the vectors returned are not those of each frame's own lengths and angles%s: %s" % ((" when " + bad_res[1]) if bad_res and bad_res[1] else "", bad_res[0] if bad_res else ""))
    except ShapeError as e:
        ctx.violated("C17-R3", g, TRAJ, q, "result[f, k, :] = k-th box vector of frame f", "array operations do not fit for 2 frames: %s" % e)
    except TUnsupported as e:
        ctx.undecided("C17-R3", g, TRAJ, q, "stacking", "not evaluable: %s" % e)
    # a getter that stores on self keeps a memo: every assignment of the fields it was computed from must reset it
    stores = sorted({t.attr for n in walk_no_nested(g) for t in (n.targets if isinstance(n, ast.Assign) else [n.target] if isinstance(n, (ast.AugAssign, ast.AnnAssign)) else [])
                     if isinstance(t, ast.Attribute) and isinstance(t.value, ast.Name) and t.value.id == "self"})
    if not stores:
        ctx.holds("C17-R3", g, TRAJ, q, "the getter stores nothing on self (no memo to invalidate)", "")
    else:
        m = ctx.py.mod(TRAJ)
        missing = []
        for qq, fn in sorted(m.functions.items()):
            if not qq.startswith("Trajectory."):
                continue
            for blk in _blocks(fn):
                sets = {t.attr for st_ in blk for t in (st_.targets if isinstance(st_, ast.Assign) else []) if isinstance(t, ast.Attribute) and isinstance(t.value, ast.Name) and t.value.id == "self"}
                if sets & {"_unitcell_lengths", "_unitcell_angles"} and fn is not g:
                    for memo in stores:
                        if memo not in sets:
                            missing.append((qq, memo, blk[0]))
        ctx.decide(not missing, "C17-R3", missing[0][2] if missing else g, TRAJ, missing[0][0] if missing else q,
                   "memo field(s) %s of the getter are reset wherever _unitcell_lengths / _unitcell_angles are assigned" % stores, "",
                   "%s assigns the cell but leaves `self.%s`, filled by the unitcell_vectors getter, as it was: the next read returns the vectors of the previous cell"
                   % (missing[0][0] if missing else "", missing[0][1] if missing else ""))
    # None without a cell
    ts0 = TenSym({})
    try:
        r0 = ts0.run_fn(g, self=Obj(_unitcell_lengths=None, _unitcell_angles=None, n_frames=F))
        ctx.decide(r0 is None, "C17-R3", g, TRAJ, q, "None when the trajectory has no cell", "", "without a cell the getter returns %r" % (r0,))
    except TUnsupported as e:
        ctx.undecided("C17-R3", g, TRAJ, q, "no cell", "not evaluable: %s" % e)
    # ---- setter
    s = ctx.py.func(TRAJ, "Trajectory.unitcell_vectors.setter")
    q = "Trajectory.unitcell_vectors.setter"
    V = Ten.sym("vec", (F, 3, 3))

    def to_lengths(ev, call):
        args = [ev.ex(a) for a in call.args]
        want = [ev.getitem(V, (slice(None), k, slice(None))) for k in range(3)]
        state["setter_args"] = [k for k in range(3) if not (len(args) == 3 and same(ev, args[k], want[k]))]
        return tuple(Ten.sym(nm, (F,)) for nm in ("a", "b", "c", "alpha", "beta", "gamma"))
    me = Obj(_unitcell_lengths=None, _unitcell_angles=None, n_frames=F)
    ts = TenSym({}, models={"box_vectors_to_lengths_and_angles": to_lengths})
    ts.assume = lambda test: False if "vectors is None" in test else None
    try:
        ts.run_fn(s, self=me, vectors=V)
        bad = state.get("setter_args")
        ctx.decide(bad == [], "C17-R3", s, TRAJ, q, "conversion is called with rows 0, 1, 2 of every frame's matrix", "", "argument(s) %s of box_vectors_to_lengths_and_angles are not vectors[:, k, :]" % (bad,))
        for attr, names in (("_unitcell_lengths", ("a", "b", "c")), ("_unitcell_angles", ("alpha", "beta", "gamma"))):
            want = Ten((F, 3), [Rat(Poly.var("%s[%d]" % (names[k], f))) for f in range(F) for k in range(3)])
            gotv = getattr(me, attr)
            diff = ts.first_difference(gotv, want) if gotv is not None else "left as None"
            ctx.decide(diff is None, "C17-R3", s, TRAJ, q, "%s[f] = (%s) of frame f" % (attr, ", ".join(names)), "", "%s is stored in another order / orientation: %s" % (attr, diff))
    except ShapeError as e:
        ctx.violated("C17-R3", s, TRAJ, q, "stacking of the six scalars", "array operations do not fit for 2 frames: %s" % e)
    except TUnsupported as e:
        ctx.undecided("C17-R3", s, TRAJ, q, "stacking", "not evaluable: %s" % e)
    me = Obj(_unitcell_lengths=L, _unitcell_angles=A, n_frames=F)
    try:
        TenSym({}).run_fn(s, self=me, vectors=None)
        ctx.decide(me._unitcell_lengths is None and me._unitcell_angles is None, "C17-R3", s, TRAJ, q, "vectors = None clears lengths and angles together", "", "assigning None leaves lengths=%r angles=%r" % (me._unitcell_lengths, me._unitcell_angles))
    except TUnsupported as e:
        ctx.undecided("C17-R3", s, TRAJ, q, "clearing", "not evaluable: %s" % e)


def _blocks(fn):
    """statement lists of a function body (each branch of an if / loop / try is its own list)"""
    out = []

    def visit(stmts):
        out.append(stmts)
        for st in stmts:
            for field in ("body", "orelse", "finalbody"):
                sub = getattr(st, field, None)
                if isinstance(sub, list) and sub and isinstance(sub[0], ast.stmt) and not isinstance(st, (ast.FunctionDef, ast.ClassDef)):
                    visit(sub)
            for h in getattr(st, "handlers", []) or []:
                visit(h.body)
    visit(fn.body)
    return out


def _unit_by_value(fn, i):
    """DEG / RAD for element i of the returned tuple when its value is k * acos(...) / atan2(...) with k = 180/pi or 1 (value numbering), else None"""
    from ..pysym import PySym, Vec, Unsupported
    from ..poly import Poly, Rat
    try:
        env = {p: Vec([Rat(Poly.var("%s%s" % (p, ax))) for ax in "xyz"]) for p in params(fn)}
        ps = PySym(env).run(fn.body)
        v = ps.returned[i] if ps.returned is not None else None
    except (Unsupported, Exception):
        return None
    if v is None or isinstance(v, Vec):
        return None
    inv = [s_ for s_, (f, a) in ps.opaque.items() if f in ("acos", "atan2", "asin") and s_ in v.vars()]
    if len(inv) != 1:
        return None
    k = v / Rat(Poly.var(inv[0]))
    pi = Rat(Poly.var("pi"))
    if ps.equal(k, Rat(Poly.const(180)) / pi):
        return DEG
    if ps.equal(k, Rat(Poly.const(1))):
        return RAD
    return None


def _r4_slice_by_evaluation(ctx, sl):
    """slice() carries the cell: evaluated (sa/tensym.py) on a 3-frame model with a cell - both fields of the result are the source's [key] -
    and without one - both stay None; for copy=True and copy=False."""
    from ..tensym import TenSym, Ten, Obj, Unsupported as TUnsupported, ShapeError

    def ctor(xyz, topology, time=None, unitcell_lengths=None, unitcell_angles=None, **kw):
        return Obj(xyz=xyz, time=time, unitcell_lengths=unitcell_lengths, unitcell_angles=unitcell_angles, _built=True)
    for cell in (True, False):
        for copy in (True, False):
            what = "slice(0:2, copy=%s) of a trajectory %s a cell: lengths and angles of the result are %s" % (copy, "with" if cell else "without", "self's [key]" if cell else "None")
            L_, A_ = (Ten.sym("len", (3, 3)), Ten.sym("ang", (3, 3))) if cell else (None, None)
            me = Obj(xyz=Ten.sym("x", (3, 2, 3)), time=Ten.sym("t", (3,)), unitcell_lengths=L_, unitcell_angles=A_, _unitcell_lengths=L_, _unitcell_angles=A_, _rmsd_traces=None, _topology=Obj(tag="top"),
                     _xyz=None, _time=None, _lenient=True)
            me._ctor = ctor
            ev = TenSym({}, models={"deepcopy": lambda e_, c_: Obj(tag="copy"), "copy.deepcopy": lambda e_, c_: Obj(tag="copy")})
            try:
                got = ev.run_fn(sl, self=me, key=slice(0, 2), copy=copy)
                pr = []
                for f_, src_ in (("unitcell_lengths", L_), ("unitcell_angles", A_)):
                    v = getattr(got, f_, "<missing>")
                    if cell:
                        d = ev.first_difference(v, ev.getitem(src_, slice(0, 2))) if isinstance(v, Ten) else "is %r" % (v,)
                        if d:
                            pr.append("%s of the result: %s" % (f_, d))
                    elif v is not None:
                        pr.append("%s of the result is not None" % f_)
                ctx.decide(not pr, "C17-R4", sl, TRAJ, "Trajectory.slice", what, "", "; ".join(pr))
            except ShapeError as e:
                ctx.violated("C17-R4", sl, TRAJ, "Trajectory.slice", what, "array operations do not fit: %s" % e)
            except TUnsupported as e:
                ctx.undecided("C17-R4", sl, TRAJ, "Trajectory.slice", what, "not evaluable: %s" % e)


def _mdcrd_rectilinear_guard(ctx):
    """The mdcrd format stores three lengths per frame and no angles.  Trajectory.save_mdcrd evaluated on model trajectories whose cell is
    rectangular in every frame / skewed in the first frame / rectangular in the first frame and skewed in a later one: a cell the file cannot
    describe is refused before anything is written (the loader would hand back 90-degree angles with the lengths of a skewed cell)."""
    from ..tensym import TenSym, Ten, Obj, Raised
    from ..pysym import Unsupported as PUnsupported
    fn = ctx.py.func(TRAJ, "Trajectory.save_mdcrd")
    ev0 = TenSym({})
    for what, angles, refuse in (("rectangular in every frame", [[90, 90, 90], [90, 90, 90], [90, 90, 90]], False), ("skewed in the first frame", [[90, 90, 120], [90, 90, 90], [90, 90, 90]], True),
                                 ("rectangular in the first frame, skewed in the last", [[90, 90, 90], [90, 90, 90], [90, 60, 90]], True), ("no cell", None, False)):
        desc = "save_mdcrd of a cell %s is %s" % (what, "refused before the file is opened" if refuse else "written")
        opened = []

        def mkfile(ev, call, _o=opened):
            f = Obj(tag="mdcrd file", distance_unit="angstroms", _lenient=True)
            f.write = lambda *a_, **k_: None
            f.__enter__ = lambda: f
            _o.append(f)
            return f
        me = Obj(tag="traj", xyz=Ten.sym("x", (3, 2, 3)), unitcell_lengths=(Ten.sym("L", (3, 3)) if angles is not None else None), unitcell_angles=(ev0.to_ten(angles) if angles is not None else None),
                 _have_unitcell=angles is not None, n_frames=3, _lenient=True)
        me._check_valid_unitcell = lambda: None
        try:
            ts = TenSym({"Trajectory": Obj(_distance_unit="nanometers")}, models={"MDCRDTrajectoryFile": mkfile, "in_units_of": lambda ev, c: ev.ex(c.args[0])})
            ts.module_env = {"Trajectory": Obj(_distance_unit="nanometers")}
            ts.run_fn(fn, self=me, filename="FILE")
            ctx.decide(not refuse and len(opened) == 1, "C17-R8", fn, TRAJ, "Trajectory.save_mdcrd", desc, "",
                       "a trajectory whose cell is %s is written to a format without angles: the skewed frames come back as rectangular cells of another volume" % what if refuse else "the file is opened %d times" % len(opened))
        except Raised as e:
            ctx.decide(refuse and not opened, "C17-R8", fn, TRAJ, "Trajectory.save_mdcrd", desc, "", "refused: %s%s" % ((e.exc or e), " after the file was opened" if opened else ""))
        except PUnsupported as e:
            ctx.undecided("C17-R8", fn, TRAJ, "Trajectory.save_mdcrd", desc, "not evaluable: %s" % e)


def _vectors_setter_by_evaluation(ctx):
    from ..tensym import TenSym, Ten, Obj, Raised
    from ..pysym import Unsupported as PUnsupported
    sfn = ctx.py.func(TRAJ, "Trajectory.unitcell_vectors.setter")
    q = "Trajectory.unitcell_vectors.setter"
    pname = [a_.arg for a_ in sfn.args.args][1]

    def run(vectors, n_frames=2):
        me = Obj(tag="traj", _unitcell_lengths="OLD-L", _unitcell_angles="OLD-A", n_frames=n_frames, _lenient=True)
        conv = {}

        def b2la(ev, call):
            args = [ev.ex(a_) for a_ in call.args]
            conv["args"] = args
            conv["out"] = tuple(Ten.sym(nm, (n_frames,)) for nm in ("a", "b", "c", "alpha", "beta", "gamma"))
            return conv["out"]
        ts = TenSym({}, models={"box_vectors_to_lengths_and_angles": b2la, "ensure_type": lambda ev, c: ev.ex(c.args[0])})
        ts.run_fn(sfn, **{"self": me, pname: vectors})
        return me, conv
    ev0 = TenSym({})
    try:
        for what, vec in (("None", None), ("an all-zero box", Ten.full((2, 3, 3), ev0.lift(0)))):
            me, conv = run(vec)
            ctx.decide(me._unitcell_lengths is None and me._unitcell_angles is None and "args" not in conv, "C17-R4", sfn, TRAJ, q, "None / zero box clears lengths and angles" if vec is None else "an all-zero box clears lengths and angles", "",
                       "assigning %s leaves lengths = %r, angles = %r: the no-cell state does not clear both fields" % (what, me._unitcell_lengths if not isinstance(me._unitcell_lengths, Ten) else "an array", me._unitcell_angles if not isinstance(me._unitcell_angles, Ten) else "an array"))
        vec = ev0.to_ten([[[3, 0, 0], [0, 4, 0], [0, 0, 5]], [[2, 0, 0], [1, 4, 0], [1, -1, 5]]])        # a concrete box: whether it is "all zero" is a fact, not a case split
        me, conv = run(vec)
        ok = "out" in conv
        why = "box_vectors_to_lengths_and_angles is not used"
        if ok:
            rows = [ev0.getitem(vec, (slice(None), k_, slice(None))) for k_ in range(3)]
            ok = len(conv["args"]) == 3 and all(isinstance(x_, Ten) and ev0.first_difference(x_, r_) is None for x_, r_ in zip(conv["args"], rows))
            why = "the three cell vectors handed to the conversion are not value[:, 0, :], value[:, 1, :], value[:, 2, :]"
        if ok:
            L, A = me._unitcell_lengths, me._unitcell_angles
            wantL = [conv["out"][k_].data[f_] for f_ in range(2) for k_ in range(3)]
            wantA = [conv["out"][3 + k_].data[f_] for f_ in range(2) for k_ in range(3)]
            ok = isinstance(L, Ten) and isinstance(A, Ten) and L.shape == (2, 3) and A.shape == (2, 3) and all((x_ - y_).n.is_zero() for x_, y_ in zip(L.data, wantL)) and all((x_ - y_).n.is_zero() for x_, y_ in zip(A.data, wantA))
            why = "lengths / angles stored are not (a, b, c) / (alpha, beta, gamma) of the conversion, one row per frame"
        ctx.decide(ok, "C17-R4", sfn, TRAJ, q, "a box sets lengths = (a, b, c) and angles = (alpha, beta, gamma) of one conversion, per frame", "", why)
        # "no cell" means that every component is zero: a box given in a rotated frame (here the axes permuted cyclically: the diagonal is zero in
        # every frame) is a cell like any other
        vecp = ev0.to_ten([[[0, 3, 0], [0, 0, 4], [5, 0, 0]], [[0, 2, 0], [1, 0, 4], [5, 1, 0]]])
        me, conv = run(vecp)
        ctx.decide("out" in conv and isinstance(me._unitcell_lengths, Ten), "C17-R4", sfn, TRAJ, q, "a box whose diagonal is zero (axes permuted) is a cell, not the no-cell state", "",
                   "cell vectors with a zero diagonal and non-zero other components clear lengths and angles: the cell is silently dropped")
        # a box for another number of frames is refused
        try:
            run(ev0.to_ten([[[3, 0, 0], [0, 4, 0], [0, 0, 5]]] * 3))
            ctx.violated("C17-R4", sfn, TRAJ, q, "a box for another number of frames is refused", "cell vectors of 3 frames are accepted by a trajectory of 2 frames")
        except Raised:
            ctx.holds("C17-R4", sfn, TRAJ, q, "a box for another number of frames is refused", "")
    except Raised as e:
        ctx.violated("C17-R4", sfn, TRAJ, q, "unitcell_vectors setter", "a valid assignment is refused: %s" % (e.exc or e))
    except PUnsupported as e:
        ctx.undecided("C17-R4", sfn, TRAJ, q, "unitcell_vectors setter", "not evaluable: %s" % e)


def _volume_by_evaluation(ctx):
    """Trajectory.unitcell_volumes evaluated on a model trajectory with symbolic lengths and angles (2 frames): the volume reported for a frame is the
    determinant of the cell vectors the same trajectory reports for that frame (the real unitcell_vectors property, evaluated from its source) - as
    expressions (normal form, else a numeric identity test at three generic points); no cell: None."""
    from ..tensym import TenSym, Ten, Obj, Raised, numeric_equal
    from ..pysym import Unsupported as PUnsupported
    v = ctx.py.func(TRAJ, "Trajectory.unitcell_volumes.getter")
    vec = ctx.py.func(TRAJ, "Trajectory.unitcell_vectors.getter")
    q = "Trajectory.unitcell_volumes.getter"
    ucfuncs = {q_: f_ for q_, f_ in ctx.py.mod(UC).functions.items() if "." not in q_}
    L, A = Ten.sym("len", (2, 3)), Ten.sym("ang", (2, 3))
    getters = {"n_frames": lambda s_: 2, "unitcell_lengths": lambda s_: s_._unitcell_lengths, "unitcell_angles": lambda s_: s_._unitcell_angles}
    try:
        me = Obj(tag="traj", _unitcell_lengths=L, _unitcell_angles=A, _lenient=True)
        me._getters = getters
        me._props = {"unitcell_vectors": vec, "_have_unitcell": ctx.py.func(TRAJ, "Trajectory._have_unitcell.getter")}
        ev = TenSym({}, funcs=ucfuncs)
        got = ev.run_fn(v, self=me)
        V = ev.run_fn(vec, self=me) if False else TenSym({}, funcs=ucfuncs, parent=ev).run_fn(vec, self=me)
        why = None
        if not (isinstance(got, Ten) and got.shape == (2,)):
            why = "the volumes have shape %s for 2 frames" % (getattr(got, "shape", None),)
        else:
            for f in range(2):
                m = [[V.data[f * 9 + i * 3 + j] for j in range(3)] for i in range(3)]
                det = (m[0][0] * (m[1][1] * m[2][2] - m[1][2] * m[2][1]) - m[0][1] * (m[1][0] * m[2][2] - m[1][2] * m[2][0]) + m[0][2] * (m[1][0] * m[2][1] - m[1][1] * m[2][0]))
                same = ev.equal(got.data[f], det)
                if not same:
                    same = numeric_equal(ev, got.data[f], det, ranges={"ang": (62.0, 108.0), "len": (1.0, 4.0)})
                    if same is None:
                        ctx.undecided("C17-R5", v, TRAJ, q, "volume = det(unitcell_vectors)", "the volume of frame %d could not be compared with the determinant" % f)
                        return
                if not same:
                    why = "the volume of frame %d is not the determinant of the cell vectors of that frame" % f
                    break
        ctx.decide(why is None, "C17-R5", v, TRAJ, q, "volume = det(unitcell_vectors)", "per frame, for symbolic lengths and angles", "unitcell_volumes is no longer the determinant of the box vectors: %s" % why)
        me2 = Obj(tag="traj", _unitcell_lengths=None, _unitcell_angles=None, _lenient=True)
        me2._getters = getters
        me2._props = me._props
        r2 = TenSym({}, funcs=ucfuncs).run_fn(v, self=me2)
        ctx.decide(r2 is None, "C17-R5", v, TRAJ, q, "no cell: no volume", "", "a trajectory without a cell reports volumes %r" % (r2,))
    except Raised as e:
        ctx.violated("C17-R5", v, TRAJ, q, "volume = det(unitcell_vectors)", "unitcell_volumes raises %s" % (e.exc or e))
    except PUnsupported as e:
        ctx.undecided("C17-R5", v, TRAJ, q, "volume = det(unitcell_vectors)", "not evaluable: %s" % e)
