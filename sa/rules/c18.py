"""C18  An open trajectory file behaves as a cursor over its frames.

R1 seek branch table (sibling agreement): whence 0 -> offset, 1 -> position+offset, 2 -> end+offset or NotImplementedError, else error
R2 array-backed readers: the position after read() is provably <= number of frames (symbolic min/+ evaluation)
R3 sequential readers: the position advances by exactly the frames returned (increment after the last raise; XDR readers: amount == len(returned))
R4 a backward seek / len() re-opens the file with the same opener as the constructor and resets every counter
R5 position fields are per-instance state set in the constructor (no class-level or module-level cursor state)
R6 the offset scan behind len() restores the C file position on every exit (try/finally)
"""
from __future__ import annotations

import ast
import re

from ..core import AnalysisError
from ..cfg import CFG
from ..flow import Defs
from ..pyfront import dotted, call_name, kwarg, params, src, walk_no_nested, const
from .. import formats as F

EXPLANATION = (
    'seek() is interpreted path by path (position as a linear form over initial position, offset, length; locals hold linear forms or None; whence in {0,1,2,other} x offset <0 / =0 / >0; private helpers interpreted in place; counted read loops summarised) and the final position compared with offset / position+offset / length+offset, clamps and out-of-range refusals recognised, in all 10 implementations.  Further: '
    "Per-operation cursor invariants decided on the source of every seekable file class: the seek() branch table is "
    "evaluated symbolically (linear forms over offset / position / length) and compared across the 10 sibling "
    "implementations; for array-backed readers the new position is evaluated as a min/+ expression and proved <= length "
    "(or refuted with the closed form); for sequential readers the increment is placed on the CFG relative to every raise; "
    "reopen paths are compared with the constructor's opener; cursor state must be instance state.")
NOT_DECIDED = ["linearizability of arbitrary operation histories (run-time)", "byte-offset arithmetic inside xdr_seek.c / dcdplugin.c",
               "that tell() of DCD (fh.setsread maintained in C) matches the frames returned"]
ASSUMPTIONS = ["read_next_timestep / read_xtc / read_trr advance the C file pointer by exactly one frame on success"]
FLOORS = {"C18-R1": 24, "C18-R2": 3, "C18-R3": 6, "C18-R4": 5, "C18-R5": 10, "C18-R6": 5}

SEEKERS = ["h5", "nc", "xtc", "trr", "dcd", "dtr", "mdcrd", "xyz", "lammpstrj", "lh5"]
POS_NAMES = ("self._frame_index", "self.frame_counter", "current_pos", "self.tell()")


# ---------------------------------------------------------------------------------------------
# tiny linear evaluator: expr -> {symbol: coeff}; symbols 'O' offset, 'P' position, 'T' total, ('min', a, b) opaque
# ---------------------------------------------------------------------------------------------
def _freeze(d):
    return tuple(sorted(((k if isinstance(k, str) else repr(k)), v) for k, v in d.items() if v != 0))


def lin(e, env):
    """env: dotted-or-src text -> linear form.  Returns dict or None."""
    if isinstance(e, ast.Constant) and isinstance(e.value, (int, float)) and not isinstance(e.value, bool):
        return {"1": e.value} if e.value != 0 else {}
    s = src(e)
    if s in env:
        return dict(env[s])
    d = dotted(e)
    if d in env:
        return dict(env[d])
    if isinstance(e, ast.BinOp) and isinstance(e.op, (ast.Add, ast.Sub)):
        a, b = lin(e.left, env), lin(e.right, env)
        if a is None or b is None:
            return None
        sign = 1 if isinstance(e.op, ast.Add) else -1
        out = dict(a)
        for k, v in b.items():
            out[k] = out.get(k, 0) + sign * v
        return {k: v for k, v in out.items() if v != 0}
    if isinstance(e, ast.Call) and call_name(e) == "min" and len(e.args) == 2:
        a, b = lin(e.args[0], env), lin(e.args[1], env)
        if a is None or b is None:
            return None
        return {("min", _freeze(a), _freeze(b)): 1}
    if isinstance(e, ast.Call) and call_name(e) == "max" and len(e.args) == 2:
        a, b = lin(e.args[0], env), lin(e.args[1], env)
        if a is None or b is None:
            return None
        return {("max", _freeze(a), _freeze(b)): 1}
    if isinstance(e, ast.Call) and call_name(e) == "int" and len(e.args) == 1:
        return lin(e.args[0], env)
    if isinstance(e, ast.Call) and call_name(e) == "len" and env.get("__len__") and "self" in src(e):
        return {"T": 1}
    return None


def fmt(l):
    if l is None:
        return "?"
    if not l:
        return "0"
    parts = []
    for k, v in l.items():
        if isinstance(k, tuple):
            name = "%s(%s, %s)" % (k[0], fmt(dict(k[1])), fmt(dict(k[2])))
        else:
            name = {"O": "offset", "P": "pos", "T": "len", "N": "n", "1": ""}.get(k, k)
        if k == "1":
            parts.append(str(v))
        elif v == 1:
            parts.append(name)
        else:
            parts.append("%s*%s" % (v, name))
    return " + ".join(parts)


def _seek_env(fn):
    env = {"offset": {"O": 1}, "__len__": True}
    for p in POS_NAMES:
        env[p] = {"P": 1}
    for t in ("self.n_frames", "len(self._handle.root.coordinates)", "len(self)", "self._n_frames", "len(self.offsets)"):
        env[t] = {"T": 1}
    return env


def _whence_of(test):
    """(whence value, set of offset constraints) for `whence == k and offset >= 0` style tests."""
    w = None
    for n in ast.walk(test):
        if isinstance(n, ast.Compare) and dotted(n.left) == "whence" and isinstance(n.ops[0], ast.Eq):
            w = const(n.comparators[0])
    return w


def check(ctx):
    ctx.rule("C18-R1", "each seek(): whence==0 -> offset; whence==1 -> position+offset; whence==2 -> length+offset or NotImplementedError; otherwise an error is raised")
    ctx.rule("C18-R2", "array-backed read(): the new position, evaluated symbolically, is min(position+n, length) (never beyond the end)")
    ctx.rule("C18-R3", "sequential readers advance the position once per frame returned: the increment post-dominates every raise of _read; XDR readers add len(returned frames)")
    ctx.rule("C18-R4", "seek()/len() re-open the file with the opener the constructor used and reset every counter the constructor initialises")
    ctx.rule("C18-R5", "the position field is assigned in the constructor and is not class-level or module-level state")
    r6_len_is_read_total(ctx)
    r7_reads_return_fresh_arrays(ctx)
    r8_len_counts_every_line(ctx)
    ctx.rule("C18-R6", "the offset scan used by len() saves the C file position first and restores it in a finally block")
    ctx.rule("C18-R7", "read() / _read() / read_as_traj() never return (a view of) an array-like field of the reader object")

    _r1(ctx)
    _r2(ctx)
    _r3(ctx)
    _r4(ctx)
    _r5(ctx)
    _r6(ctx)
    _len_cache(ctx)
    _lines_per_frame(ctx)


# ---------------------------------------------------------------------------------------------
# R1: path interpreter for seek().  The position is a linear form over the *initial* position P, the offset O and the
# length T; locals hold linear forms or None; tests on whence / the sign of offset / `x is None` are decided from the case
# under analysis, every other test forks.  Helper methods self._x() are interpreted in place.  Which names the
# locals carry and how the branches are laid out does not matter.
# ---------------------------------------------------------------------------------------------
POS_EFFECTS = {
    # callee -> ("add", k) | ("set", 0): summaries of what a call does to the position (R3 decides the first for _read)
    "mdcrd": {"self._read": ("add", 1)}, "xyz": {"self._read": ("add", 1)}, "lammpstrj": {"self._read": ("add", 1)},
    "dcd": {"read_next_timestep": ("add", 1), "dcd_rewind": ("set", 0)},
}
POS_FIELDS = ("self._frame_index", "self.frame_counter")


class _Undec(Exception):
    pass


class _SeekState:
    def __init__(self):
        self.env = {}
        self.none = set()
        self.bools = {}         # local flags holding a constant True / False
        self.P = {"P": 1}
        self.conds = []

    def copy(self):
        o = _SeekState()
        o.env = dict(self.env)
        o.none = set(self.none)
        o.bools = dict(self.bools)
        o.P = dict(self.P)
        o.conds = list(self.conds)
        return o

    def full_env(self):
        e = {"offset": {"O": 1}, "__len__": True}
        for t in ("self.n_frames", "len(self._handle.root.coordinates)", "len(self._handle.root.XYZList)", "len(self)", "self._n_frames", "len(self.offsets)"):
            e[t] = {"T": 1}
        e.update(self.env)
        for p in POS_FIELDS + ("self.tell()",):
            e[p] = dict(self.P)
        return e


def _clean(l):
    return {k: v for k, v in l.items() if v != 0}


class _SeekInterp:
    def __init__(self, ctx, key, w, sign):
        self.ctx, self.key, self.w, self.sign = ctx, key, w, sign
        self.effects = POS_EFFECTS.get(key, {})
        self.depth = 0

    # ---- tests
    def test(self, e, st):
        """True / False / None (unknown); unknown comparisons of linear forms are returned as ('cmp', l, op, r)."""
        if isinstance(e, ast.BoolOp):
            vals = [self.test(v, st) for v in e.values]
            if isinstance(e.op, ast.And):
                if any(v is False for v in vals):
                    return False
                if all(v is True for v in vals):
                    return True
                return None
            if any(v is True for v in vals):
                return True
            if all(v is False for v in vals):
                return False
            return None
        if isinstance(e, ast.UnaryOp) and isinstance(e.op, ast.Not):
            v = self.test(e.operand, st)
            return None if v is None else (not v)
        if isinstance(e, ast.Name) and e.id in st.bools:
            return st.bools[e.id]
        if isinstance(e, ast.Name) and e.id in st.none:
            return False
        if isinstance(e, ast.Constant) and isinstance(e.value, bool):
            return e.value
        if isinstance(e, ast.Compare) and len(e.ops) == 1:
            l, op, r = e.left, e.ops[0], e.comparators[0]
            ls, rs = src(l), src(r)
            if "mode" in ls and isinstance(r, ast.Constant) and isinstance(r.value, str):
                if isinstance(op, ast.Eq):
                    return r.value == "r"
                if isinstance(op, ast.NotEq):
                    return r.value != "r"
            if ls == "whence" and isinstance(r, ast.Constant) and isinstance(op, (ast.Eq, ast.NotEq)):
                v = (self.w == r.value)
                return v if isinstance(op, ast.Eq) else not v
            if ls == "offset" and isinstance(r, ast.Constant) and r.value == 0:
                sg = {"neg": -1, "zero": 0, "pos": 1}[self.sign]
                return {ast.Lt: sg < 0, ast.LtE: sg <= 0, ast.Gt: sg > 0, ast.GtE: sg >= 0, ast.Eq: sg == 0, ast.NotEq: sg != 0}.get(type(op))
            if isinstance(op, (ast.Is, ast.IsNot)) and isinstance(r, ast.Constant) and r.value is None and isinstance(l, ast.Name):
                if l.id in st.none:
                    return isinstance(op, ast.Is)
                if l.id in st.env or l.id in st.bools:
                    return isinstance(op, ast.IsNot)
                return None
            if isinstance(op, (ast.Is, ast.IsNot, ast.Eq, ast.NotEq)) and isinstance(r, ast.Constant) and isinstance(r.value, bool) and isinstance(l, ast.Name) and l.id in st.bools:
                v = st.bools[l.id] == r.value
                return v if isinstance(op, (ast.Is, ast.Eq)) else not v
        return None

    def cond_of(self, e, st, outcome):
        """Record a forked comparison of linear forms (used to recognise clamps and out-of-bounds refusals)."""
        out = []
        parts = e.values if isinstance(e, ast.BoolOp) else [e]
        for c in parts:
            if isinstance(c, ast.Compare) and len(c.ops) == 1:
                env = st.full_env()
                a, b = lin(c.left, env), lin(c.comparators[0], env)
                if a is not None and b is not None:
                    out.append((_freeze(a), type(c.ops[0]).__name__, _freeze(b), outcome, isinstance(e, ast.BoolOp) and type(e.op).__name__ or ""))
                    continue
            out.append(("env", src(c), None, outcome, ""))
        return out

    # ---- effects of calls inside a statement
    def call_effects(self, node, st, times=None):
        for c in ast.walk(node):
            if isinstance(c, ast.Call):
                nm = call_name(c) or ""
                eff = self.effects.get(nm) or self.effects.get(nm.split(".")[-1])
                if eff:
                    if eff[0] == "add":
                        if times is None:
                            st.P = _clean({**st.P, "1": st.P.get("1", 0) + eff[1]})
                        else:
                            P = dict(st.P)
                            for k, v in times.items():
                                P[k] = P.get(k, 0) + v * eff[1]
                            st.P = _clean(P)
                    else:
                        st.P = {} if eff[1] == 0 else {"1": eff[1]}

    def touches_position(self, node):
        for c in ast.walk(node):
            if isinstance(c, ast.Call):
                nm = call_name(c) or ""
                if nm in self.effects or nm.split(".")[-1] in self.effects:
                    return True
                if nm.startswith("self.") and nm.count(".") == 1 and self.helper(nm[5:]) is not None:
                    return True
            if isinstance(c, (ast.Assign, ast.AugAssign)):
                t = c.targets[0] if isinstance(c, ast.Assign) else c.target
                if dotted(t) in POS_FIELDS:
                    return True
        return False

    def helper(self, name):
        if name in ("_read", "read", "seek", "tell", "close", "flush", "_validate", "_initialize_headers"):
            return None
        return F.method(self.ctx, self.key, name, required=False)

    # ---- statements
    def block(self, stmts, st):
        live, done = [st], []
        for s in stmts:
            nxt = []
            for x in live:
                for (y, status) in self.step(s, x):
                    (nxt if status == "fall" else done).append((y, status) if status != "fall" else y)
            live = nxt
            if len(live) + len(done) > 400:
                raise _Undec("too many paths")
        return [(x, "fall") for x in live] + done

    def assign(self, target, value, st):
        if isinstance(target, ast.Tuple) and isinstance(value, ast.Tuple) and len(target.elts) == len(value.elts):
            for t, v in zip(target.elts, value.elts):
                self.assign(t, v, st)
            return
        d = dotted(target)
        if d in POS_FIELDS:
            l = lin(value, st.full_env())
            if l is None:
                raise _Undec("cannot evaluate `%s = %s`" % (d, src(value)))
            st.P = _clean(l)
            return
        if isinstance(target, ast.Name):
            st.env.pop(target.id, None)
            st.none.discard(target.id)
            st.bools.pop(target.id, None)
            if isinstance(value, ast.Constant) and value.value is None:
                st.none.add(target.id)
            elif isinstance(value, ast.Constant) and isinstance(value.value, bool):
                st.bools[target.id] = value.value
            else:
                l = lin(value, st.full_env())
                if l is not None:
                    st.env[target.id] = _clean(l)

    def step(self, s, st):
        if isinstance(s, ast.Raise):
            return [(st, "raise:" + (src(s.exc) if s.exc is not None else ""))]
        if isinstance(s, ast.Return):
            return [(st, "return")]
        if isinstance(s, (ast.Pass, ast.Assert, ast.Global, ast.Nonlocal, ast.Import, ast.ImportFrom)):
            return [(st, "fall")]
        if isinstance(s, ast.If):
            v = self.test(s.test, st)
            if v is True:
                return self.block(s.body, st)
            if v is False:
                return self.block(s.orelse, st)
            a, b = st.copy(), st.copy()
            a.conds += self.cond_of(s.test, st, True)
            b.conds += self.cond_of(s.test, st, False)
            return self.block(s.body, a) + self.block(s.orelse, b)
        if isinstance(s, ast.Assign) and len(s.targets) == 1:
            self.call_effects(s.value, st)
            self.inline_helpers(s.value, st)
            self.assign(s.targets[0], s.value, st)
            return [(st, "fall")]
        if isinstance(s, ast.AnnAssign):
            if s.value is not None:
                self.assign(s.target, s.value, st)
            return [(st, "fall")]
        if isinstance(s, ast.AugAssign):
            d = dotted(s.target)
            l = lin(s.value, st.full_env())
            if d in POS_FIELDS:
                if l is None or not isinstance(s.op, (ast.Add, ast.Sub)):
                    raise _Undec("cannot evaluate `%s`" % src(s))
                sg = 1 if isinstance(s.op, ast.Add) else -1
                P = dict(st.P)
                for k, v in l.items():
                    P[k] = P.get(k, 0) + sg * v
                st.P = _clean(P)
            elif isinstance(s.target, ast.Name):
                cur = st.env.get(s.target.id)
                if cur is not None and l is not None and isinstance(s.op, (ast.Add, ast.Sub)):
                    sg = 1 if isinstance(s.op, ast.Add) else -1
                    out = dict(cur)
                    for k, v in l.items():
                        out[k] = out.get(k, 0) + sg * v
                    st.env[s.target.id] = _clean(out)
                else:
                    st.env.pop(s.target.id, None)
            return [(st, "fall")]
        if isinstance(s, ast.Expr):
            res = self.inline_helpers(s.value, st, stmt=True)
            if res is not None:
                return res
            self.call_effects(s.value, st)
            return [(st, "fall")]
        if isinstance(s, ast.For):
            if not self.touches_position(s):
                return [(st, "fall")]
            it = s.iter
            k = None
            if isinstance(it, ast.Call) and call_name(it) == "range" and len(it.args) == 1:
                k = lin(it.args[0], st.full_env())
            simple = all(isinstance(b, (ast.Expr, ast.Assign, ast.Pass)) for b in s.body) and not any(
                isinstance(n, (ast.Assign, ast.AugAssign)) and dotted(n.targets[0] if isinstance(n, ast.Assign) else n.target) in POS_FIELDS
                for b in s.body for n in ast.walk(b))
            if k is None or not simple or s.orelse:
                raise _Undec("loop `for %s in %s` moves the position in a way that is not a counted repetition" % (src(s.target), src(it)))
            for b in s.body:
                self.call_effects(b, st, times=k)
            return [(st, "fall")]
        if isinstance(s, ast.While):
            if self.touches_position(s):
                raise _Undec("while loop moves the position")
            return [(st, "fall")]
        if isinstance(s, ast.With):
            return self.block(s.body, st)
        if isinstance(s, ast.Try):
            out = []
            for (x, status) in self.block(s.body + s.orelse, st):
                if status == "fall":
                    out += self.block(s.finalbody, x)
                else:
                    fin = self.block(s.finalbody, x)
                    out += [(y, status if stt == "fall" else stt) for (y, stt) in fin]
            return out
        if self.touches_position(s):
            raise _Undec("statement `%s` not interpreted" % src(s)[:60])
        return [(st, "fall")]

    def inline_helpers(self, e, st, stmt=False):
        """self._helper() as a statement: interpret its body in place."""
        if not (isinstance(e, ast.Call) and (call_name(e) or "").startswith("self.") and (call_name(e) or "").count(".") == 1):
            return None
        h = self.helper(call_name(e)[5:])
        if h is None or not self.touches_position(h):
            return None
        params = [a_.arg for a_ in h.args.args][1:]
        plain = all(not isinstance(a_, ast.Starred) for a_ in e.args) and all(k_.arg in params for k_ in e.keywords) and len(e.args) <= len(params) \
            and not (h.args.vararg or h.args.kwarg or h.args.kwonlyargs or h.args.defaults)
        bound = dict(zip(params, e.args), **{k_.arg: k_.value for k_ in e.keywords}) if plain else {}
        if not plain or set(bound) != set(params) or self.depth > 3 or not stmt:
            raise _Undec("helper call `%s` with arguments / as a value is not interpreted" % src(e)[:60])
        # the arguments are linear expressions of the caller's state (a frame count handed to a helper that was extracted from the method)
        argv = {}
        for nm_, a_ in bound.items():
            l_ = lin(a_, st.full_env())
            if l_ is None:
                raise _Undec("helper call `%s`: argument `%s` is not a linear expression of the position" % (src(e)[:60], src(a_)[:30]))
            argv[nm_] = _clean(l_)
        self.depth += 1
        try:
            saved_env, saved_none = st.env, st.none
            st.env, st.none = dict(argv), set()
            res = self.block(h.body, st)
            out = []
            for (x, status) in res:
                x.env, x.none = dict(saved_env), set(saved_none)
                out.append((x, "fall" if status == "return" else status))
            return out
        finally:
            self.depth -= 1


def _clamp_ok(final, want, conds):
    """final is `want` limited to [0, T]: by min/max forms or by an explicit test on the path."""
    fw, T, Z = _freeze(want), _freeze({"T": 1}), _freeze({})
    if final == want:
        return True
    if len(final) == 1:
        (k, v), = final.items()
        if isinstance(k, tuple) and v == 1:
            args = set(k[1:])
            if k[0] == "min" and args == {fw, T}:
                return True
            if k[0] == "max" and args == {fw, Z}:
                return True
            inner_min = _freeze({("min", fw, T): 1})
            inner_min2 = _freeze({("min", T, fw): 1})
            inner_max = _freeze({("max", fw, Z): 1})
            inner_max2 = _freeze({("max", Z, fw): 1})
            if k[0] == "max" and Z in args and (args & {inner_min, inner_min2}):
                return True
            if k[0] == "min" and T in args and (args & {inner_max, inner_max2}):
                return True
    for (a, op, b, outcome, _j) in conds:
        if a == "env" or not outcome:
            continue
        if final == {"T": 1} and ((a == fw and b == T and op in ("Gt", "GtE")) or (b == fw and a == T and op in ("Lt", "LtE"))):
            return True
        if final == {} and ((a == fw and b == Z and op in ("Lt", "LtE")) or (b == fw and a == Z and op in ("Gt", "GtE"))):
            return True
    return False


def _refusal_ok(want, conds):
    """a raise on a path whose forked tests include an out-of-range test on the target or a test on the environment."""
    fw, T, Z = _freeze(want), _freeze({"T": 1}), _freeze({})
    for (a, op, b, outcome, join) in conds:
        if a == "env":
            if outcome and not any(t in (op or "") for t in ()):
                return True
            continue
        true_side = outcome or join == "Or"
        if (a == fw and b in (T, Z)) or (b == fw and a in (T, Z)):
            if true_side:
                return True
    return False


def _r1(ctx):
    want = {0: {"O": 1}, 1: {"O": 1, "P": 1}, 2: {"O": 1, "T": 1}}
    for key in SEEKERS:
        rel, cls = F.rel_cls(key)
        fn = F.method(ctx, key, "seek")
        q = cls + ".seek"
        for w in (0, 1, 2, 7):
            for sign in ("neg", "zero", "pos"):
                desc = "seek(offset %s, whence=%s)" % ({"neg": "< 0", "zero": "== 0", "pos": "> 0"}[sign], w if w != 7 else "other")
                it = _SeekInterp(ctx, key, w, sign)
                try:
                    paths = it.block(fn.body, _SeekState())
                except _Undec as e:
                    ctx.undecided("C18-R1", fn, rel, q, desc, str(e))
                    continue
                valid = (w in (0, 1) and sign != "neg") or (w == 1) or (w == 2 and sign != "pos")
                bad = None
                n_set = n_raise = 0
                for (st, status) in paths:
                    if status.startswith("raise:"):
                        n_raise += 1
                        exc = status[6:]
                        if not valid:
                            continue
                        if w == 2 and "NotImplementedError" in exc:
                            continue
                        if _refusal_ok(want[w], [c for c in st.conds]):
                            continue
                        bad = bad or "%s is refused with `%s` although the arguments are valid" % (desc, exc[:60])
                    else:
                        n_set += 1
                        if w == 7:
                            bad = bad or "an unknown whence is accepted silently (position becomes %s)" % fmt(st.P)
                        elif not valid:
                            if not (_clamp_ok(st.P, want[w], st.conds) and st.P in ({}, {"T": 1})):
                                bad = bad or "%s is accepted: the position becomes %s, outside [0, len]; an error is expected" % (desc, fmt(st.P))
                        elif not _clamp_ok(st.P, want[w], st.conds):
                            path = "; ".join("%s %s %s is %s" % (fmt(dict((k, v) for k, v in c[0])) if c[0] != "env" else c[1], c[1] if c[0] != "env" else "", fmt(dict(c[2])) if c[2] is not None else "", c[3]) for c in st.conds)
                            bad = bad or "the position becomes %s, expected %s%s" % (fmt(st.P), fmt(want[w]), (" (path: %s)" % path[:160]) if path else "")
                ctx.decide(bad is None, "C18-R1", fn, rel, q, desc, "%d path(s): %d set the position to %s, %d refuse" % (
                    len(paths), n_set, fmt(want.get(w, {})) if w != 7 else "-", n_raise), bad or "")


def _norm(text):
    try:
        return src(ast.parse(text, mode="eval").body)
    except SyntaxError:
        return text


def _window_bound(fn):
    """(bound, call): read() clamps its window with min(<position> + n_frames, <bound>); `bound` with single-definition locals inlined."""
    from ..pyfront import inline_locals
    for c in walk_no_nested(fn):
        if isinstance(c, ast.Call) and call_name(c) == "min" and len(c.args) == 2:
            a = [inline_locals(fn, x) for x in c.args]
            arms = [k for k in (0, 1) if "n_frames" in a[k] and any(p in a[k] for p in POS_FIELDS)]
            if len(arms) == 1:
                return _norm(a[1 - arms[0]]), c
    return None, None


class _SliceFields(ast.NodeTransformer):
    """slice(a, b, c).start -> a, .stop -> b, .step -> c"""
    def visit_Attribute(self, node):
        self.generic_visit(node)
        v = node.value
        if isinstance(v, ast.Call) and call_name(v) == "slice" and node.attr in ("start", "stop", "step"):
            k = {"start": 0, "stop": 1, "step": 2}[node.attr]
            args = list(v.args)
            if len(args) == 1:
                args = [ast.Constant(0), args[0]]
            if k < len(args):
                return args[k]
        return node


def read_cursor_update(fn):
    """(new position as a linear / min form over P = position, N = n_frames, T = number of frames, or None; the update statement or None)"""
    from ..pyfront import inline_locals
    bound, _mc = _window_bound(fn)
    env = {"self._frame_index": {"P": 1}, "n_frames": {"N": 1}, "self.n_frames": {"T": 1}}
    if bound is not None:
        env[bound] = {"T": 1}

    def value(e):
        try:
            t = _SliceFields().visit(ast.parse(inline_locals(fn, e), mode="eval").body)
        except SyntaxError:
            return None
        return lin(ast.parse(src(t), mode="eval").body, env)
    new = site = None
    for n in walk_no_nested(fn):
        if isinstance(n, ast.AugAssign) and dotted(n.target) == "self._frame_index" and isinstance(n.op, ast.Add):
            l = value(n.value)
            new = None
            if l is not None:
                new = dict(l)
                new["P"] = new.get("P", 0) + 1
                new = {k: v for k, v in new.items() if v != 0}
            site = n
        if isinstance(n, ast.Assign) and dotted(n.targets[0]) == "self._frame_index":
            new = value(n.value)
            site = n
    return new, site


def is_clamped_advance(new):
    """new == min(P + N, T)"""
    if new is None or len(new) != 1:
        return False
    (k, v), = new.items()
    if isinstance(k, tuple) and k[0] == "min" and v == 1 and (k[1] == _freeze({"T": 1}) or k[2] == _freeze({"T": 1})):
        other = dict(k[2] if k[1] == _freeze({"T": 1}) else k[1])
        return other == {"P": 1, "N": 1}
    return False


def _r2(ctx):
    from ..pyfront import inline_locals
    for key in ("h5", "nc", "lh5"):
        rel, cls = F.rel_cls(key)
        fn = F.method(ctx, key, "read")
        q = cls + ".read"
        bound, _mc = _window_bound(fn)
        env = {"self._frame_index": {"P": 1}, "n_frames": {"N": 1}, "self.n_frames": {"T": 1}}
        if bound is not None:
            env[bound] = {"T": 1}

        def value(e):
            try:
                t = _SliceFields().visit(ast.parse(inline_locals(fn, e), mode="eval").body)
            except SyntaxError:         # a local with several definitions reaches the expression: rendered name{def1 | def2}, not evaluable
                return None, e
            return lin(ast.parse(src(t), mode="eval").body, env), t
        # the window read: slice(<position>, <stop>, <step>)
        sl = None
        for n in walk_no_nested(fn):
            if isinstance(n, ast.Call) and call_name(n) == "slice" and len(n.args) >= 2 and value(n.args[0])[0] == {"P": 1}:
                sl = n
        new = None
        site = None
        for n in walk_no_nested(fn):
            if isinstance(n, ast.AugAssign) and dotted(n.target) == "self._frame_index" and isinstance(n.op, ast.Add):
                l, _t = value(n.value)
                if l is not None:
                    new = dict(l)
                    new["P"] = new.get("P", 0) + 1
                    new = {k: v for k, v in new.items() if v != 0}
                site = n
            if isinstance(n, ast.Assign) and dotted(n.targets[0]) == "self._frame_index":
                new, _t = value(n.value)
                site = n
        if site is None:
            ctx.undecided("C18-R2", fn, rel, q, "position update", "no update of self._frame_index in read()")
            continue
        if new is None:
            v_ = value(site.value)[1] if isinstance(site, ast.AugAssign) else None
            counts_returned = v_ is not None and ((isinstance(v_, ast.Call) and call_name(v_) == "len") or src(v_).endswith(".shape[0]"))
            strided = sl is not None and len(sl.args) >= 3 and not (isinstance(sl.args[2], ast.Constant) and sl.args[2].value in (None, 1))
            if counts_returned and strided:
                ctx.violated("C18-R2", site, rel, q, "new position",
                             "the position advances by `%s`, the number of frames *returned*, while the window read is `%s` with step `%s`: with stride s the next read starts inside the "
                             "span already consumed (chunks overlap, tell() lags behind)" % (src(site.value), src(sl.args[1])[:60], src(sl.args[2])))
            else:
                ctx.undecided("C18-R2", site, rel, q, "position update", "cannot evaluate `%s` symbolically" % src(site))
            continue
        bounded = False
        if len(new) == 1:
            (k, v), = new.items()
            if isinstance(k, tuple) and k[0] == "min" and v == 1 and (k[1] == _freeze({"T": 1}) or k[2] == _freeze({"T": 1})):
                other = dict(k[2] if k[1] == _freeze({"T": 1}) else k[1])
                bounded = other == {"P": 1, "N": 1}
        if bounded:
            ctx.holds("C18-R2", site, rel, q, "new position", "= %s <= len" % fmt(new))
        else:
            ctx.violated("C18-R2", site, rel, q, "new position",
                         "new position = %s is not bounded by the number of frames: e.g. pos=3, n=unbounded, len=10 gives %s"
                         % (fmt(new), "13" if new.get("P") == 1 else "?"))


def _r3(ctx):
    # by value: read / seek / tell of the text formats evaluated on a model file (the machinery of C02-R8); after every read tell() is the number of
    # frames consumed.  ARC offers no tell(): its counter is observable only through the times of read_as_traj, decided in C02-R8.
    from .c02 import _r8_text_readers
    _r8_text_readers(ctx, rule="C18-R3", cursor_only=True)
    for key in ():      # the statement-counting form of this rule (one `+= 1` in _read, after every raise) is replaced by the evaluation above
        rel, cls = F.rel_cls(key)
        fn = F.method(ctx, key, "_read")
        q = cls + "._read"
        cfg = CFG(fn)
        incs = [n for n in cfg.nodes() if cfg.kind[n] == "stmt" and isinstance(cfg.stmt[n], ast.AugAssign)
                and dotted(cfg.stmt[n].target) == "self._frame_index"]
        if len(incs) != 1:
            ctx.violated("C18-R3", fn, rel, q, "increment", "%d increments of the position in _read (expected exactly one)" % len(incs))
            continue
        inc = incs[0]
        st = cfg.stmt[inc]
        one = isinstance(st.op, ast.Add) and const(st.value) == 1
        raises_after = [m for m in cfg.reachable(inc) if m != inc and cfg.kind[m] == "stmt" and isinstance(cfg.stmt[m], ast.Raise)]
        on_all = cfg.exit not in cfg.reachable(cfg.entry, removed={inc})
        # calls that may raise EOF after the increment (readline-based parsing)
        reads_after = []
        for m in cfg.reachable(inc):
            if m == inc:
                continue
            for e in cfg.own_exprs(m):
                if any(isinstance(c, ast.Call) and (call_name(c) or "").endswith(("readline", "_read")) for c in ast.walk(e)):
                    reads_after.append(m)
        ok = one and not raises_after and on_all and not reads_after
        ctx.decide(ok, "C18-R3", st, rel, q, "position += 1 per parsed frame", "exactly one increment, after every raise, on every normal path",
                   "the position is advanced %s" % ("by something other than 1" if not one else
                                                    "before a raise / further parsing of the same frame (line %d): an incomplete frame is counted"
                                                    % cfg.stmt[(raises_after + reads_after)[0]].lineno if (raises_after or reads_after) else
                                                    "not on every normal path"))
    for key in ("xtc", "trr"):
        rel, cls = F.rel_cls(key)
        fn = F.method(ctx, key, "_read")
        q = cls + "._read"
        inc = [n for n in walk_no_nested(fn) if isinstance(n, ast.AugAssign) and dotted(n.target) == "self.frame_counter"]
        if len(inc) != 1:
            ctx.undecided("C18-R3", fn, rel, q, "increment", "%d increments found" % len(inc))
            continue
        v = inc[0].value
        # the EOF trim: xyz = xyz[:K-1]
        trim = None
        for n in walk_no_nested(fn):
            if isinstance(n, ast.Assign) and dotted(n.targets[0]) == "xyz" and isinstance(n.value, ast.Subscript) and dotted(n.value.value) == "xyz":
                trim = src(n.value.slice)
        if isinstance(v, ast.Call) and call_name(v) == "len" and dotted(v.args[0]) == "xyz":
            ctx.holds("C18-R3", inc[0], rel, q, "frame_counter += len(xyz)", "the increment is the length of the returned (trimmed) array")
        elif trim is not None and isinstance(v, ast.Name) and (v.id in trim):
            ctx.violated("C18-R3", inc[0], rel, q, "frame_counter += %s" % src(v),
                         "at end of file the arrays are trimmed to `%s` but the position is advanced by `%s`: the failed read is counted "
                         "(tell() ends one past the number of frames)" % (trim, src(v)))
        else:
            ctx.undecided("C18-R3", inc[0], rel, q, "frame_counter += %s" % src(v), "increment amount not recognised")
    # xtc / trr: with cached offsets (efficient striding) the position is moved by self.seek(stride, 1) only:
    # every iteration that returns a frame must then pass such a seek (or a counter assignment) before the next one
    for key in ("xtc", "trr"):
        rel, cls = F.rel_cls(key)
        fn = F.method(ctx, key, "_read")
        q = cls + "._read"
        cfg = CFG(fn)

        def atom(e):
            d = dotted(e)
            if d == "efficient_striding":
                return "eff"
            if isinstance(e, ast.Compare) and src(e).replace(" ", "") == "stride>1":
                return "strided"
            return None
        loops = [n for n in cfg.nodes() if cfg.kind[n] == "test" and isinstance(cfg.stmt[n], ast.While)]
        incs = [n for n in cfg.nodes() if cfg.kind[n] == "stmt" and isinstance(cfg.stmt[n], ast.AugAssign) and dotted(cfg.stmt[n].target) in ("n_read_frames", "i")
                and const(cfg.stmt[n].value) == 1]
        adv = {n for n in cfg.nodes() if any(isinstance(c, ast.Call) and call_name(c) == "self.seek" for e in cfg.own_exprs(n) for c in ast.walk(e))
               or (cfg.kind[n] == "stmt" and isinstance(cfg.stmt[n], (ast.Assign, ast.AugAssign)) and
                   dotted(cfg.stmt[n].targets[0] if isinstance(cfg.stmt[n], ast.Assign) else cfg.stmt[n].target) == "self.frame_counter")}
        if not loops or not incs:
            ctx.undecided("C18-R3", fn, rel, q, "efficient striding", "frame loop / per-frame counter not recognised")
            continue
        head = loops[0]
        first_inc = min(incs, key=lambda n: cfg.stmt[n].lineno)
        reach = cfg.reachable_under(first_inc, {"eff": True, "strided": True}, atom, removed=adv)
        ok = head not in reach and cfg.exit not in reach
        ctx.decide(ok, "C18-R3", cfg.stmt[first_inc], rel, q, "strided read with cached offsets advances the position for every frame returned", "",
                   "with cached offsets the position is only moved by self.seek(stride, whence=1); on the path where that seek is skipped (last stride window) a frame "
                   "is returned without moving the position: tell() is stale and iterload(chunk, skip>0, stride>1) re-reads the last frame for ever")
    # dtr: one increment per loop iteration that returns a frame
    rel, cls = F.rel_cls("dtr")
    fn = F.method(ctx, "dtr", "read")
    inc = [n for n in walk_no_nested(fn) if isinstance(n, ast.AugAssign) and dotted(n.target) == "self.frame_counter"]
    ctx.decide(len(inc) == 1 and const(inc[0].value) == 1, "C18-R3", inc[0] if inc else fn, rel, cls + ".read", "frame_counter += 1 per frame read",
               "one increment per frame", "unexpected position arithmetic in DTR read")


def _nodes_with_helpers(ctx, key, fn, depth=0, seen=None):
    """nodes of fn and of the private methods self._x() it calls (a reopen written as a helper is still the reopen)."""
    seen = seen if seen is not None else set()
    out = []
    for n in walk_no_nested(fn):
        out.append(n)
        if isinstance(n, ast.Call) and depth < 3:
            nm = call_name(n) or ""
            if nm.startswith("self._") and nm.count(".") == 1 and nm[5:] not in ("_read", "_validate") and nm not in seen:
                h = F.method(ctx, key, nm[5:], required=False)
                if h is not None:
                    seen.add(nm)
                    out += _nodes_with_helpers(ctx, key, h, depth + 1, seen)
    return out


def _opener_calls(fn, nodes=None):
    res = []
    for n in (nodes if nodes is not None else walk_no_nested(fn)):
        if isinstance(n, ast.Call):
            d = call_name(n)
            if d in ("open", "open_maybe_zipped", "gzip.open", "bz2.open", "io.open") or (d or "").endswith(("xdrfile_open", "open_dcd_read", "dcd_rewind")):
                res.append((d, n))
    return res


def _r4(ctx):
    for key in ("mdcrd", "xyz", "lammpstrj"):
        rel, cls = F.rel_cls(key)
        init = F.method(ctx, key, "__init__")
        ctor_openers = {d for d, n in _opener_calls(init) if (len(n.args) < 2 or const(n.args[1]) in ("r", "rb", None))}
        # counters initialised in the constructor
        counters = set()
        for n in walk_no_nested(init):
            if isinstance(n, ast.Assign) and const(n.value) in (0,) and dotted(n.targets[0]) and dotted(n.targets[0]).startswith("self._"):
                counters.add(dotted(n.targets[0]))
        for mname in ("seek", "__len__"):
            fn = F.method(ctx, key, mname, required=False)
            if fn is None:
                continue
            q = "%s.%s" % (cls, mname)
            nodes = _nodes_with_helpers(ctx, key, fn)
            ops = _opener_calls(fn, nodes)
            for d, n in ops:
                ctx.decide(d in ctor_openers, "C18-R4", n, rel, q, "reopen with %s" % d, "same opener as the constructor's read branch",
                           "the file is re-opened with %s but the constructor opens it with %s: compressed files (.gz/.bz2) opened "
                           "fine are then read as raw bytes" % (d, "/".join(sorted(ctor_openers))))
            if mname == "seek" and ops:
                # every counter of the constructor is reset in the reopen branch
                body_assigns = {dotted(a.targets[0]) for a in nodes if isinstance(a, ast.Assign) and dotted(a.targets[0])}
                # counters that the constructor also advances while consuming the header
                for c in sorted(counters):
                    if c in ("self._frame_index", "self._line_counter"):
                        ctx.decide(c in body_assigns, "C18-R4", fn, rel, q, "reset %s" % c, "reset on reopen",
                                   "%s is not reset when the file is re-opened for a backward seek" % c)
    # mdcrd: the header line consumed by the constructor is consumed again after reopening
    rel, cls = F.rel_cls("mdcrd")
    fn = F.method(ctx, "mdcrd", "seek")
    init = F.method(ctx, "mdcrd", "__init__")
    hdr_init = sum(1 for n in walk_no_nested(init) if isinstance(n, ast.Call) and call_name(n) == "self._fh.readline")
    hdr_seek = sum(1 for n in _nodes_with_helpers(ctx, "mdcrd", fn) if isinstance(n, ast.Call) and call_name(n) == "self._fh.readline")
    ctx.decide(hdr_init == hdr_seek, "C18-R4", fn, rel, cls + ".seek", "header consumed after reopen",
               "%d header line(s) skipped in both" % hdr_init, "constructor skips %d header line(s), reopen skips %d" % (hdr_init, hdr_seek))


def _r5(ctx):
    for key in SEEKERS + ["arc", "gro"]:
        rel, cls = F.rel_cls(key)
        mod = ctx.py.mod(rel)
        pos = F.CLASSES[key][2]
        c = mod.cls(cls)
        ctor = mod.functions.get(cls + ".__cinit__") or mod.functions.get(cls + ".__init__")
        q = cls
        if pos is None:
            # DCD: position lives in the C handle that the constructor creates
            ok = any(isinstance(n, ast.Assign) and dotted(n.targets[0]) == "self.fh" for n in walk_no_nested(ctor))
            ctx.decide(ok, "C18-R5", ctor, rel, q, "cursor in per-instance C handle", "self.fh created by the constructor", "no per-instance handle")
            continue
        attr = pos.split(".", 1)[1]
        class_level = [s for s in c.body if isinstance(s, ast.Assign) and any(dotted(t) == attr for t in s.targets)]
        in_ctor = any(isinstance(n, ast.Assign) and any(dotted(t) == pos for t in n.targets) for n in walk_no_nested(ctor))
        # for cdef classes a `cdef T name` declaration in the class body is an instance slot, not shared state
        globals_used = [n for f in mod.methods(cls).values() for n in walk_no_nested(f) if isinstance(n, ast.Global)]
        mutable_class = [s for s in c.body if isinstance(s, ast.Assign) and isinstance(s.value, (ast.List, ast.Dict, ast.Set))
                         and any(dotted(t) in ("_offsets", "offsets", "_positions", "_cache") for t in s.targets)]
        ok = in_ctor and not class_level and not globals_used and not mutable_class
        ctx.decide(ok, "C18-R5", ctor, rel, q, "%s is instance state" % pos, "assigned in the constructor; no class/module level cursor state",
                   "cursor state is shared between file objects: %s" % (
                       "class-level assignment of %s" % attr if class_level else "global statement" if globals_used else
                       "class-level mutable cache" if mutable_class else "%s not initialised in the constructor" % pos))


def _r6(ctx):
    for key in ("xtc", "trr"):
        rel, cls = F.rel_cls(key)
        mod = ctx.py.mod(rel)
        fn = F.method(ctx, key, "_calc_len_and_offsets")
        q = cls + "._calc_len_and_offsets"
        saved = None
        tells = sorted((n for n in walk_no_nested(fn) if isinstance(n, ast.Assign) and isinstance(n.value, ast.Call)
                        and (call_name(n.value) or "").endswith("xdr_tell")), key=lambda n: n.lineno)
        if tells:
            saved = dotted(tells[0].targets[0])
        seeks = [n for n in walk_no_nested(fn) if isinstance(n, ast.Call) and (call_name(n) or "").endswith("xdr_seek")]
        ok = saved is not None
        why = ""
        for s in seeks:
            # every seek is either the restoring one (in a finalbody) or inside a try whose finalbody restores
            x = s
            protected = False
            while x in mod.parents and x is not fn:
                p = mod.parents[x]
                if isinstance(p, ast.Try):
                    if any(x is st or _contains(st, x) for st in p.finalbody):
                        protected = True   # this is the restoring seek itself
                    elif any(isinstance(c, ast.Call) and (call_name(c) or "").endswith("xdr_seek") and len(c.args) >= 2 and dotted(c.args[1]) == saved
                             for st in p.finalbody for c in ast.walk(st)):
                        protected = True
                x = p
            if not protected:
                ok = False
                why = "xdr_seek at line %d is not covered by a finally block that seeks back to %s" % (s.lineno, saved)
        ctx.decide(ok and bool(seeks), "C18-R6", fn, rel, q, "file position restored in finally", "%d seeks, all under try/finally restoring %s" % (len(seeks), saved),
                   why or "the C file position is not saved before the offset scan")


def _len_cache(ctx):
    """R6b: the value len() returns is computed from the whole file; a cache for it is only filled by __len__ / the offset scan / the constructor."""
    for key in ("xyz", "xtc", "trr", "mdcrd", "lammpstrj"):
        rel, cls = F.rel_cls(key)
        mod = ctx.py.mod(rel)
        ln = mod.functions.get(cls + ".__len__")
        if ln is None:
            continue
        rets = [n for n in walk_no_nested(ln) if isinstance(n, ast.Return) and n.value is not None]
        attrs = set()
        for r in rets:
            for x in ast.walk(r.value):
                d = dotted(x) if isinstance(x, ast.Attribute) else None
                if d and d.startswith("self.") and d.count(".") == 1:
                    attrs.add(d)
        for a in sorted(attrs):
            writers = []
            for mname, fn in mod.methods(cls).items():
                for n in walk_no_nested(fn):
                    if isinstance(n, (ast.Assign, ast.AugAssign)):
                        tg = n.targets if isinstance(n, ast.Assign) else [n.target]
                        for t in tg:
                            ts = [t] if not isinstance(t, ast.Tuple) else t.elts
                            if any(dotted(x) == a for x in ts):
                                writers.append((mname, n))
            allowed = ("__len__", "__init__", "__cinit__", "_calc_len_and_offsets", "offsets.getter", "offsets", "offsets.setter", "close")
            bad = [(m, n) for (m, n) in writers if m not in allowed and not (isinstance(n.value, ast.Constant))]
            ctx.decide(not bad, "C18-R6", bad[0][1] if bad else ln, rel, cls + ".__len__", "%s is only filled from a whole-file scan" % a, "writers: %s" % sorted({m for m, _ in writers}),
                       "the frame count that len() returns is also assigned in %s (`%s`): after a partial read the cached length depends on where reading started"
                       % (bad[0][0] if bad else "", src(bad[0][1])[:60] if bad else ""))


def _lines_per_frame(ctx):
    """R3b: any loop that skips a frame by counting lines must use the writer's/reader's line arithmetic: ceil(3*n_atoms / 10) lines per mdcrd frame."""
    rel, cls = F.rel_cls("mdcrd")
    mod = ctx.py.mod(rel)
    found = False
    for mname, fn in mod.methods(cls).items():
        for n in walk_no_nested(fn):
            if isinstance(n, ast.For) and isinstance(n.iter, ast.Call) and call_name(n.iter) == "range" and len(n.iter.args) == 1 and "_n_atoms" in src(n.iter.args[0]) \
                    and any(isinstance(c, ast.Call) and call_name(c) == "self._fh.readline" for c in ast.walk(n)):
                found = True
                expr = n.iter.args[0]
                bad = None
                for natoms in range(1, 64):
                    try:
                        code = compile(ast.Expression(body=_subst(expr, natoms)), "<lines>", "eval")
                        v = eval(code, {"__builtins__": {}}, {})
                    except Exception:
                        v = None
                    want = -(-3 * natoms // 10)
                    if v != want:
                        bad = (natoms, v, want)
                        break
                ctx.decide(bad is None, "C18-R3", n, rel, "%s.%s" % (cls, mname), "lines per frame == ceil(3*n_atoms/10)", src(expr),
                           "`%s` lines are skipped per frame, but a frame of %s atoms occupies %s lines (got %s): seek() lands in the middle of a frame"
                           % (src(expr), bad[0] if bad else "", bad[2] if bad else "", bad[1] if bad else ""))
    if not found:
        ctx.holds("C18-R3", mod.cls(cls), rel, cls, "no line-counting frame skip", "frames are skipped with the frame parser itself (_read)")


def _subst(expr, natoms):
    import copy

    class T(ast.NodeTransformer):
        def visit_Attribute(self, node):
            if dotted(node) == "self._n_atoms":
                return ast.copy_location(ast.Constant(natoms), node)
            return self.generic_visit(node)
    e = T().visit(copy.deepcopy(expr))
    ast.fix_missing_locations(e)
    return e


def _contains(root, node):
    return any(n is node for n in ast.walk(root))


def r6_len_is_read_total(ctx):
    """Array-backed readers: len() returns the quantity that bounds the read window (both sides of the cursor invariant 0 <= position <= len)."""
    from ..pyfront import inline_locals
    for key in ("h5", "nc", "lh5"):
        rel, cls = F.rel_cls(key)
        rd = F.method(ctx, key, "read")
        ln = F.method(ctx, key, "__len__")
        t, _c = _window_bound(rd)
        rets = [n for n in walk_no_nested(ln) if isinstance(n, ast.Return) and n.value is not None]
        if t is None or not rets:
            ctx.undecided("C18-R6", rd, rel, cls + ".read", "total number of frames", "the bound of the read window min(position + n_frames, <bound>) / the return of __len__ was not found")
            continue
        got = sorted({_norm(inline_locals(ln, r.value)) for r in rets})
        same = {t, "self.n_frames"} if key == "nc" else {t}   # netCDF: n_frames is the property both sides read
        ok = all(g in same for g in got)
        ctx.decide(ok, "C18-R6", rets[0], rel, cls + ".__len__", "len() returns `%s`, the bound read() clamps its window to" % t, "",
                   "len() returns %s while read() clamps its window to `%s`: the two can disagree (another variable, another backend), and tell() <= len() is no longer guaranteed" % (got, t))


# ---------------------------------------------------------------------------------------------------
def r7_reads_return_fresh_arrays(ctx):
    """What read() hands out must not be (a view of) an array the reader object keeps: a scratch buffer that the next frame is parsed into, or a
    cache that a later in-place unit conversion of the caller rescales.  For every reader class the return values of read / _read / read_as_traj
    (through the class's own helper methods) are evaluated in the freshness lattice; an alias of `self.<field>` is reported when that field is
    array-like state of the object (assigned from numpy calls, subscripts, list / dict literals) rather than the file handle."""
    from ..flow import Fresh, Defs as _Defs, FRESH as _FRESH
    n_ret = 0
    for key in sorted(F.CLASSES):
        rel, cls = F.rel_cls(key)
        try:
            mod = ctx.py.mod(rel)
        except Exception:
            continue
        methods = mod.methods(cls)
        if not methods:
            continue
        # array-like fields of the object
        arrayish = set()
        for mname, fn in methods.items():
            for n in walk_no_nested(fn):
                if isinstance(n, ast.Assign):
                    for t in n.targets:
                        for tt in (t.elts if isinstance(t, (ast.Tuple, ast.List)) else [t]):
                            d = dotted(tt)
                            if d and d.startswith("self.") and d.count(".") == 1:
                                v = n.value
                                cn = call_name(v) if isinstance(v, ast.Call) else None
                                if (cn and cn.startswith(("np.", "numpy."))) or isinstance(v, (ast.Dict, ast.List, ast.Subscript, ast.ListComp)):
                                    arrayish.add(d)
        summaries = {}

        class MFresh(Fresh):
            def eval(self, e, node, _seen=None):
                if isinstance(e, ast.Call):
                    cn = call_name(e) or ""
                    if cn.startswith("self.") and cn[5:] in summaries:
                        return set(summaries[cn[5:]])
                res = Fresh.eval(self, e, node, _seen)
                if isinstance(e, ast.Name) and node is not None and len(_seen or ()) < 12:
                    # a local list that is filled by append / extend carries what was put into it
                    rd = self.defs.reaching(node, e.id)
                    if rd and all(df.kind == "assign" and isinstance(df.value, (ast.List, ast.ListComp)) for df in rd):
                        for n2 in self.cfg.nodes():
                            for ex_ in self.cfg.own_exprs(n2):
                                for c in ast.walk(ex_):
                                    if isinstance(c, ast.Call) and isinstance(c.func, ast.Attribute) and c.func.attr in ("append", "extend") and dotted(c.func.value) == e.id and c.args:
                                        res = res | self.eval(c.args[0], n2, (_seen or set()) | {("fill", id(c))}) if ("fill", id(c)) not in (_seen or set()) else res
                return res

        def ret_tags(fn):
            cfg = CFG(fn)
            defs = _Defs(cfg)
            fr = MFresh(cfg, defs, roots=lambda d: d.startswith("self."))
            tags = set()
            for n in cfg.nodes():
                st = cfg.stmt[n]
                if cfg.kind[n] == "stmt" and isinstance(st, ast.Return) and st.value is not None:
                    tags |= fr.eval(st.value, n)
            return tags
        for _ in range(3):
            for mname, fn in methods.items():
                if "." in mname:
                    continue
                try:
                    summaries[mname] = ret_tags(fn)
                except Exception:
                    summaries[mname] = set()
        for mname in ("read", "read_as_traj"):
            fn = methods.get(mname)
            if fn is None:
                continue
            n_ret += 1
            al = sorted({t[1] for t in summaries.get(mname, ()) if isinstance(t, tuple) and t[0] == "ALIAS" and any(t[1] == a or t[1].startswith(a + ".") or t[1].startswith(a + "[") for a in arrayish)})
            ctx.decide(not al, "C18-R7", fn, rel, "%s.%s" % (cls, mname), "arrays handed out are not (views of) arrays kept on the reader (%d array-like fields)" % len(arrayish), "",
                       "%s() can return (a view of) `%s`, which the object keeps: the next read parses into it / an in-place conversion by the caller changes what the next read returns" % (mname, "`, `".join(al)))
    if n_ret < 12:
        raise AnalysisError("C18-R7: only %d read methods evaluated" % n_ret)


def r8_len_counts_every_line(ctx):
    """xyz: len() = (number of lines) // (n_atoms + 2), because read() consumes exactly n_atoms + 2 lines per frame whatever they contain
    (the comment line may be empty).  The line count must therefore not be filtered by the content of the lines."""
    rel, cls = F.rel_cls("xyz")
    fn = F.method(ctx, "xyz", "__len__")
    q = cls + ".__len__"
    gens = [n for n in walk_no_nested(fn) if isinstance(n, (ast.GeneratorExp, ast.ListComp)) and any(dotted(g.iter) in ("fh", "f", "self._fh") or isinstance(g.iter, ast.Name) for g in n.generators)]
    loops = [n for n in walk_no_nested(fn) if isinstance(n, ast.For)]
    if not gens and not loops:
        ctx.undecided("C18-R6", fn, rel, q, "line count", "the way len() counts the lines of the file is not recognised")
        return
    filt = [g for n in gens for g in n.generators if g.ifs]
    cond = [c for lp in loops for c in ast.walk(lp) if isinstance(c, (ast.Continue, ast.If))]
    ctx.decide(not filt and not cond, "C18-R6", (gens or loops)[0], rel, q, "len() counts every line of the file (a frame is n_atoms + 2 lines whatever they contain)", "",
               "the line count skips lines by content (`%s`): a file whose comment lines are empty has fewer counted lines than frames x (n_atoms + 2), and len() under-reports while read() still finds every frame"
               % (src(filt[0].ifs[0]) if filt else "conditional in the counting loop"))
    div = [n for n in walk_no_nested(fn) if isinstance(n, ast.BinOp) and isinstance(n.op, ast.FloorDiv)]
    ok = len(div) == 1 and re.sub(r"\s", "", src(div[0].right)) in ("(n_atoms+2)", "n_atoms+2", "(2+n_atoms)")
    ctx.decide(ok, "C18-R6", div[0] if div else fn, rel, q, "frames = lines // (n_atoms + 2)", "", "the divisor of the line count is `%s`" % (src(div[0].right) if div else None))
