"""C19  Incremental writing equals one-shot writing and survives a crash (ordering discipline).

R1 validate before mutating: no schema-rejecting raise is reachable after a persistent mutation of the same write()
R2 schema checks exist on non-first writes (atom count, cell presence) in every stateful writer
R3 position-blind defaults: a default synthesised from the per-call frame count is offset by the writer's position
R4 counters / first-write flags move after the data was written
R5 once-only headers: header emission is guarded by a flag that the same branch (or the callee) clears
R6 durability points: HDF5.write flushes on every normal exit; every flush reaches the backend sync; the reporter flushes after write
"""
from __future__ import annotations

import ast

from ..core import AnalysisError
from ..cfg import CFG
from ..flow import Defs, deps
from ..pyfront import params, dotted, call_name, kwarg, params, src, walk_no_nested, const
from .. import formats as F

EXPLANATION = (
    "CFG reachability over every streaming write(): persistent mutations (node.append, variables[...][...] =, fh.write, "
    "print(file=), extern write_* calls, helper methods summarised as mutating) are ordered against the raises that reject "
    "the call's arguments for schema reasons; sibling table of schema checks across the stateful writers; dependence of "
    "synthesised defaults on the writer position; must-pass-through of flush in HDF5.write and of the backend sync in every flush.")
NOT_DECIDED = ["behaviour at an actual crash point (process kill) - only the ordering discipline it relies on",
               "that the back-end libraries (PyTables, netCDF4, xdrfile) persist data on flush/sync",
               "equality of file content between k calls and one call (run-time)"]
ASSUMPTIONS = ["PyTables EArray.append and netCDF variable assignment validate the per-frame shape themselves (atom count) before storing"]
FLOORS = {"C19-R1": 11, "C19-R2": 9, "C19-R3": 3, "C19-R4": 4, "C19-R5": 6, "C19-R6": 6, "C19-R7": 24, "C19-R8": 78}

WRITERS = ["h5", "nc", "xtc", "trr", "dcd", "dtr", "mdcrd", "xyz", "lammpstrj", "gro", "pdb", "lh5", "rst7", "ncrst"]
IO_ERRORS = ("IOError", "OSError", "RuntimeError", "MemoryError", "NotImplementedError", "ImportError")
SCHEMA_HANDLERS = ("NoSuchNodeError", "KeyError", "AssertionError", "IndexError")
STATE_WORDS = ("n_atoms", "_n_atoms", "with_unitcell", "_w_has_box", "_needs_initialization", "_needs_write_initialization",
               "variables", "frame_counter", "_frame_index")


def _mutating_helpers(ctx, key):
    """Methods of the class (other than write) that perform a persistent mutation -> summarised."""
    rel, cls = F.rel_cls(key)
    m = ctx.py.mod(rel)
    res = set()
    changed = True
    while changed:
        changed = False
        for mname, fn in m.methods(cls).items():
            if mname in res or mname in ("write", "close", "__init__", "__cinit__", "flush", "__exit__", "__del__", "__dealloc__") or "." in mname:
                continue
            if "initialize" in mname or "header" in mname or "footer" in mname:
                continue   # first-write structure / header text, not frame data
            for n in walk_no_nested(fn):
                if isinstance(n, (ast.Call, ast.Assign, ast.AugAssign, ast.Expr)) and _is_mutation(n, res, m):
                    res.add(mname)
                    changed = True
                    break
    return res


def _is_mutation(n, helpers, mod):
    """Is this ast node a persistent mutation of the file?"""
    if isinstance(n, ast.Call):
        d = call_name(n)
        if d is None:
            # e.g. self._get_node(...).append(x)
            if isinstance(n.func, ast.Attribute) and n.func.attr == "append" and "get_node" in src(n.func.value):
                return True
            return False
        tail = d.split(".")[-1]
        if d in ("self._fh.write", "self._file.write", "self._handle.write", "self._fh.writelines", "self._file.writelines"):
            return True
        if d == "print" and kwarg(n, "file") is not None and "self." in src(kwarg(n, "file")):
            return True
        if tail == "append" and ("_get_node" in src(n.func) or "_handle" in src(n.func)):
            return True
        if mod.pyx is not None and tail.startswith("write_") and not d.startswith("self."):
            return True   # extern write_xtc / write_trr / write_timestep
        if d.startswith("self.") and d.count(".") == 1 and tail in helpers:
            return True
        if tail in ("create_earray", "create_array", "createVariable", "createDimension", "create_carray"):
            return False   # structure creation on first write, not frame data
        return False
    if isinstance(n, (ast.Assign, ast.AugAssign)):
        tg = n.targets if isinstance(n, ast.Assign) else [n.target]
        for t in tg:
            if isinstance(t, ast.Subscript) and "self._handle" in src(t.value):
                return True
    return False


def _governing(mod, n, fn):
    """(list of enclosing If tests with polarity, enclosing except handler type names)."""
    tests, handlers = [], []
    x = n
    while x in mod.parents and x is not fn:
        p = mod.parents[x]
        if isinstance(p, ast.If):
            tests.append(p.test)
        if isinstance(p, ast.ExceptHandler):
            t = p.type
            names = []
            if t is not None:
                for e in ([t] if not isinstance(t, ast.Tuple) else t.elts):
                    d = dotted(e)
                    if d:
                        names.append(d.split(".")[-1])
            handlers.extend(names or ["<bare>"])
        x = p
    return tests, handlers


def _exc_name(r):
    e = r.exc
    if e is None:
        return None
    if isinstance(e, ast.Call):
        e = e.func
    d = dotted(e)
    return d.split(".")[-1] if d else None


def _schema_test(t, fn_params, defs=None, node=None):
    s = src(t)
    if " is None" in s or " is not None" in s:
        for p in fn_params:
            if p in s:
                return True
    if ".shape" in s or any(w in s for w in STATE_WORDS):
        return True
    for p in fn_params:
        if "len(%s)" % p in s:
            return True
    if defs is not None and node is not None:
        # one level through locals such as `missing`
        for nm in [x.id for x in ast.walk(t) if isinstance(x, ast.Name)]:
            for df in defs.reaching(node, nm):
                if df.kind == "assign":
                    tests, _ = [], []
                    # the local is assigned under schema-ish conditions?
                    return_any = False
                    st = df.stmt
                    # climb
                    return_any = True
                    if return_any:
                        # look at the governing tests of that assignment
                        pass
    return False


def check(ctx):
    ctx.rule("C19-R1", "in every write(): no raise that rejects the call's arguments for schema reasons (None-ness / shape / atom count / "
                       "node existence, or handlers of NoSuchNodeError/KeyError/AssertionError) is reachable in the CFG from a persistent mutation")
    ctx.rule("C19-R2", "stateful writers compare atom count and unit-cell presence with the schema fixed by the first write")
    ctx.rule("C19-R3", "a default time/step synthesised from the per-call frame count depends on the writer's frame counter")
    ctx.rule("C19-R4", "position counters are advanced only after the frame data was handed to the backend")
    ctx.rule("C19-R5", "header / initialisation calls are guarded by a first-write flag which is cleared on the same path")
    ctx.rule("C19-R8", "HDF5 / NetCDF: write() evaluated on model array stores - k calls leave the arrays and the frame counter of one call; a ragged later write is refused and changes nothing")
    ctx.rule("C19-R7", "in the frame loop of a text writer every use of per-frame data is indexed by the loop variable; nothing reduced over the frames of one call is used inside the loop")
    _r7(ctx)
    _r8_array_stores(ctx)
    _r8_xdr(ctx)
    _r8_dcd(ctx)
    _r8_pdb_block(ctx)
    _r8_ensure_type(ctx)
    ctx.rule("C19-R6", "HDF5.write passes flush() on every normal exit; flush() reaches the backend sync; the reporter flushes after write")

    for key in WRITERS:
        rel, cls = F.rel_cls(key)
        mod = ctx.py.mod(rel)
        fn = F.method(ctx, key, "write")
        q = cls + ".write"
        helpers = _mutating_helpers(ctx, key)
        cfg = CFG(fn)
        defs = Defs(cfg)
        ps = [p for p in params(fn) if p != "self"]
        muts = []

        def is_mut(c, n, defs=defs):
            if _is_mutation(c, helpers, mod):
                return True
            # node.append(x) where node was looked up with self._get_node(...) earlier
            if isinstance(c, ast.Call) and isinstance(c.func, ast.Attribute) and c.func.attr == "append":
                rname = dotted(c.func.value)
                if rname and any(df.kind == "assign" and isinstance(df.value, (ast.List, ast.Dict)) for df in defs.reaching(n, rname)):
                    return False   # a local list being filled, not a file node
                ds = deps(c.func.value, n, defs)
                if any("_get_node" in d or "_handle" in d for d in ds):
                    return True
            # variables["time"][0] = t where `variables` is a local name for self._handle.variables
            if isinstance(c, (ast.Assign, ast.AugAssign)):
                for t in (c.targets if isinstance(c, ast.Assign) else [c.target]):
                    if isinstance(t, ast.Subscript):
                        root = t.value
                        while isinstance(root, (ast.Subscript, ast.Attribute)):
                            root = root.value
                        if isinstance(root, ast.Name) and root.id != "self" and any("self._handle" in d or "_get_node" in d for d in deps(root, n, defs)):
                            return True
            return False
        for n in cfg.nodes():
            for e in cfg.own_exprs(n):
                for c in ast.walk(e):
                    if is_mut(c, n):
                        muts.append((n, c))
                        break
        raises = []
        for n in cfg.nodes():
            st = cfg.stmt[n]
            if cfg.kind[n] == "stmt" and isinstance(st, ast.Raise):
                en = _exc_name(st)
                tests, handlers = _governing(mod, st, fn)
                schema = False
                if en in IO_ERRORS:
                    schema = False
                elif handlers:
                    schema = any(h in SCHEMA_HANDLERS for h in handlers)
                else:
                    schema = any(_schema_test(t, ps) for t in tests)
                    if not schema:
                        # locals assigned under schema-ish conditions (e.g. `missing`)
                        for t in tests:
                            for nm in [x.id for x in ast.walk(t) if isinstance(x, ast.Name)]:
                                for df in defs.reaching(n, nm):
                                    if df.stmt is not None:
                                        tt, _ = _governing(mod, df.stmt, fn)
                                        if any(_schema_test(x, ps) for x in tt):
                                            schema = True
                    if en == "AssertionError" and not tests:
                        schema = True
                raises.append((n, st, schema, en))
        if not muts:
            ctx.undecided("C19-R1", fn, rel, q, "mutations", "no persistent mutation recognised in write()")
            continue
        bad = []
        for (rn, rst, schema, en) in raises:
            if not schema:
                continue
            for (mn, mc) in muts:
                if rn in cfg.reachable(mn) and rn != mn:
                    bad.append((rst, mc, en))
                    break
        if bad:
            seen = set()
            for (rst, mc, en) in bad:
                k = (rst.lineno)
                if k in seen:
                    continue
                seen.add(k)
                tests, handlers = _governing(mod, rst, fn)
                why = ("handler of %s" % "/".join(handlers)) if handlers else ("condition `%s`" % (src(tests[0])[:70] if tests else "unconditional"))
                ctx.violated("C19-R1", rst, rel, q, "raise %s (%s) after %s" % (en, why, _mdesc(mc)),
                             "the data of this call may already be in the file (mutation at line %d) when the call is refused: "
                             "a refused ragged write leaves extra frames" % mc.lineno)
        else:
            ctx.holds("C19-R1", fn, rel, q, "%d mutations, %d schema raises" % (len(muts), sum(1 for r in raises if r[2])),
                      "every schema-rejecting raise precedes every persistent mutation")
        # the first-write initialisation fixes the schema of the file (atom count, presence of time / cell) from *this* call's arguments:
        # a refusal that looks at the arguments only must come before it, or a refused first write decides the layout of the file
        # (the PDB header carries no schema - only the REMARK and CRYST1 text of the first call - and its writer checks topology against
        #  positions afterwards; that is an invalid call rather than a ragged one and is left out of this clause)
        init_sites = {"h5": "_initialize_headers", "nc": "_initialize_headers", "dcd": "_initialize_write", "dtr": "_initialize_write", "lh5": "_initialize_headers"}
        if key in init_sites:
            inits = [(n, c) for n in cfg.nodes() for e in cfg.own_exprs(n) for c in ast.walk(e) if isinstance(c, ast.Call) and call_name(c) == "self." + init_sites[key]]
            late = []
            for (rn, rst, schema, en) in raises:
                if not schema:
                    continue
                tests, handlers = _governing(mod, rst, fn)
                uses_state = any(isinstance(a, ast.Attribute) and isinstance(a.value, ast.Name) and a.value.id == "self" for t in tests for a in ast.walk(t))
                if not uses_state:
                    # through locals: `missing = ... self.<state> ...`
                    for t in tests:
                        if any(d.startswith("self.") or ".self." in d for d in deps(t, rn, defs)):
                            uses_state = True
                if not uses_state:
                    # through control dependence: `missing = "time"` assigned under a test of the file's state
                    for t in tests:
                        for nm in [x.id for x in ast.walk(t) if isinstance(x, ast.Name)]:
                            for df in defs.reaching(rn, nm):
                                if df.stmt is not None:
                                    tt, _ = _governing(mod, df.stmt, fn)
                                    if any(isinstance(a, ast.Attribute) and isinstance(a.value, ast.Name) and a.value.id == "self" for x in tt for a in ast.walk(x)):
                                        uses_state = True
                in_try = False
                x_ = rst
                while x_ in mod.parents and x_ is not fn:
                    p_ = mod.parents[x_]
                    if isinstance(p_, ast.Try) and x_ in p_.body:
                        in_try = True       # raised after probing the file inside the try (e.g. `self._get_node(...)` then raise)
                    x_ = p_
                if uses_state or handlers or in_try:
                    continue
                for (inn, ic) in inits:
                    if rn in cfg.reachable(inn) and rn != inn:
                        late.append((rst, ic, tests))
                        break
            if inits:
                ctx.decide(not late, "C19-R1", late[0][0] if late else fn, rel, q, "refusals that depend on the arguments alone precede %s (%d initialisation site%s)" % (init_sites[key], len(inits), "" if len(inits) == 1 else "s"), "",
                           "`%s` is tested after the first-write initialisation at line %d: when the refused call is the first one, the headers (atom count, presence of time / cell) are created from the refused "
                           "arguments and every later valid write is measured against them" % (src(late[0][2][0])[:90] if late and late[0][2] else "", late[0][1].lineno if late else 0))

        # ---- R4 counters after success ----------------------------------------------------------
        pos = F.CLASSES[key][2]
        if pos:
            for target_fn, tq in [(fn, q)] + [(mod.functions.get(cls + "." + h), cls + "." + h) for h in sorted(helpers)]:
                if target_fn is None:
                    continue
                c2 = CFG(target_fn) if target_fn is not fn else cfg
                for n in c2.nodes():
                    st = c2.stmt[n]
                    if c2.kind[n] == "stmt" and ((isinstance(st, ast.AugAssign) and dotted(st.target) == pos) or
                                                 (isinstance(st, ast.Assign) and any(dotted(t) == pos for t in st.targets))):
                        later = []
                        for m2 in c2.reachable(n):
                            if m2 == n:
                                continue
                            d2 = defs if c2 is cfg else Defs(c2)
                            for e in c2.own_exprs(m2):
                                if any(is_mut(c, m2, d2) for c in ast.walk(e)):
                                    later.append(m2)
                        # a mutation reachable only through the loop back edge of the same frame loop is the next frame
                        ctx.decide(not later, "C19-R4", st, rel, tq, "%s advance" % pos,
                                   "no frame data is written after the counter moved",
                                   "the position counter is advanced before frame data is written (line %s): a failing write leaves "
                                   "the counter ahead of the file" % (c2.stmt[later[0]].lineno if later else "?"))

    _r2(ctx)
    _append_order(ctx)
    _r3(ctx)
    _r5(ctx)
    _first_write_flags(ctx)
    _r6(ctx)


def _mdesc(c):
    if isinstance(c, ast.Call):
        return (call_name(c) or src(c.func))[:40] + "(...)"
    return src(c)[:50]


# -------------------------------------------------------------------------------------------------
STATEFUL = {
    # key: (needs atom-count check in Python?, reason if not)
    "xtc": (True, ""), "trr": (True, ""), "dcd": (True, ""), "dtr": (True, ""), "mdcrd": (True, ""),
    "h5": (False, "PyTables EArray.append rejects a frame block whose trailing shape differs"),
    "nc": (True, ""),      # slice assignment into a netCDF variable *broadcasts* a one-atom block: the backend cannot be relied upon
}
CELL_STATE = {"xtc": "with_unitcell", "trr": "with_unitcell", "dcd": "with_unitcell", "mdcrd": "_w_has_box",
              "h5": "get_node", "nc": "variables"}


def _r2(ctx):
    for key, (need_atoms, reason) in STATEFUL.items():
        rel, cls = F.rel_cls(key)
        mod = ctx.py.mod(rel)
        fn = F.method(ctx, key, "write")
        q = cls + ".write"
        ps = [p for p in params(fn) if p != "self"]
        atom_chk = None
        atom_own = False
        cell_chk = None
        cfg = CFG(fn)
        defs = Defs(cfg)
        for n in walk_no_nested(fn):
            if isinstance(n, ast.Raise):
                tests, handlers = _governing(mod, n, fn)
                s = " && ".join(src(t) for t in tests)
                nd = cfg.node_of.get(n)
                if nd is not None:
                    # resolve locals such as `in_file = name in self._handle.root`
                    for t in tests:
                        s += " && " + " ".join(sorted(deps(t, nd, defs)))
                if ("n_atoms" in s) and ("shape[1]" in s or "n_atoms" in s.replace("self.n_atoms", "").replace("self._n_atoms", "")):
                    # prefer the raise that sits in the *body* of the test on the atom count (not one in a later else of the same chain)
                    x_, own = n, False
                    while x_ in mod.parents and x_ is not fn:
                        p_ = mod.parents[x_]
                        if isinstance(p_, ast.If):
                            own = x_ in p_.body and "n_atoms" in src(p_.test)
                            break
                        x_ = p_
                    if own or atom_chk is None:
                        atom_chk = n
                        atom_own = own
                cs = CELL_STATE.get(key)
                state_words = (cs, "self._handle", "_get_node") if cs else ()
                if cs and (any(w in s for w in state_words) or any(h in ("NoSuchNodeError", "KeyError", "AssertionError") for h in handlers)) and \
                        (" is None" in s or " is not None" in s or handlers or "missing" in s):
                    cell_chk = n
        if need_atoms and atom_chk is not None and CELL_STATE.get(key):
            # the atom-count refusal must not hang in an `elif` behind the tests of the cell-presence state: once that state is True or False
            # one of those branches is always taken and the atom count is never looked at
            cs_ = CELL_STATE[key]
            behind = []
            x_ = atom_chk
            while x_ in mod.parents and x_ is not fn:
                p_ = mod.parents[x_]
                if isinstance(p_, ast.If) and x_ in p_.orelse and cs_ in src(p_.test) and " is None" not in src(p_.test) and "is not None" not in src(p_.test):
                    behind.append(src(p_.test))
                x_ = p_
            ctx.decide(not behind, "C19-R2", atom_chk, rel, q, "the atom-count refusal is reached whatever the cell-presence state is", "",
                       "the atom-count check is an `elif` after `%s`: after the first write that state is always True or False, so one of the earlier branches is taken and a block with another atom count is appended" % "`, `".join(behind))
        if need_atoms:
            ctx.decide(atom_chk is not None, "C19-R2", atom_chk or fn, rel, q, "atom count vs first write",
                       "a later write with a different atom count raises", "no write-time check compares the atom count with the first write: "
                       "a second write with a different number of atoms is accepted and the file becomes ragged")
        else:
            ctx.note("C19-R2", fn, rel, q, "atom count vs first write", "delegated: " + reason)
        if key in CELL_STATE:
            ctx.decide(cell_chk is not None, "C19-R2", cell_chk or fn, rel, q, "cell presence vs first write",
                       "adding or dropping the unit cell in a later write raises", "no check refuses adding/dropping unit cell information after the first write")
        if key == "dtr":
            ctx.holds("C19-R2", fn, rel, q, "cell/time presence", "dtr requires cell and times in every call (unconditional raise)")


def _append_order(ctx):
    """HDF5: the atom count is validated only by PyTables when `coordinates` is appended, so coordinates must be the first array that grows."""
    rel, cls = F.rel_cls("h5")
    fn = F.method(ctx, "h5", "write")
    q = cls + ".write"
    # by evaluation on a model of the PyTables file (sa/h5model.py)
    from .. import h5model as H
    from ..pysym import Unsupported as PUnsupported
    try:
        arr = H.arrays()
        for first in (True, False):
            res = H.run_write(ctx, arr, nodes_present=None if first else ["coordinates", "time", "cell_lengths", "cell_angles"], first_write=first)
            order = [l_[1] for l_ in res["log"] if l_[0] == "append"]
            ctx.decide(res["raised"] is None and order[:1] == ["coordinates"] and sorted(order) == sorted(arr), "C19-R2", fn, rel, q,
                       "coordinates is the first array appended" + ("" if first else " (later write)"), "order: %s" % order[:4],
                       ("the write is refused: %s" % res["raised"][:80]) if res["raised"] else
                       "arrays are appended in the order %s: the atom count is only validated by PyTables when `coordinates` is appended, so a write with a "
                       "different number of atoms is refused after %s have already grown (ragged file)" % (order, order[:order.index("coordinates")] if "coordinates" in order else order))
        # a write that would make the file ragged is refused before anything is appended
        base = ["coordinates", "time", "cell_lengths", "cell_angles"]
        extra = H.arrays(fields=("velocities", "alchemicalLambda"))
        cases = [("a field the file does not hold (velocities)", dict(arr, velocities=extra["velocities"]), base),
                 ("a field the file does not hold (alchemicalLambda)", dict(arr, alchemicalLambda=extra["alchemicalLambda"]), base),
                 ("a field of the file left out (time)", {k_: v_ for k_, v_ in arr.items() if k_ != "time"}, base),
                 ("a field of the file left out (lambda)", dict(arr), base + ["lambda"]),
                 ("the cell left out", {k_: v_ for k_, v_ in arr.items() if not k_.startswith("cell")}, base)]
        for what, given, present in cases:
            res = H.run_write(ctx, given, nodes_present=present, first_write=False)
            n_app = sum(1 for l_ in res["log"] if l_[0] == "append")
            ctx.decide(res["raised"] is not None and n_app == 0, "C19-R2", fn, rel, q, "later write with %s: refused, nothing appended" % what, (res["raised"] or "")[:40],
                       ("accepted (%d arrays appended): the file becomes ragged" % n_app) if res["raised"] is None else
                       "refused only after %d arrays have grown: the file is left ragged" % n_app)
    except PUnsupported as e:
        ctx.undecided("C19-R2", fn, rel, q, "append order", "write() not evaluable: %s" % e)
    # NetCDF: first deposit statement is the coordinates variable
    rel, cls = F.rel_cls("nc")
    fn = F.method(ctx, "nc", "write")
    deposits = [n for n in walk_no_nested(fn) if isinstance(n, ast.Assign) and isinstance(n.targets[0], ast.Subscript) and "self._handle.variables[" in src(n.targets[0])]
    first = src(deposits[0].targets[0]) if deposits else ""
    ctx.decide("'coordinates'" in first, "C19-R2", deposits[0] if deposits else fn, rel, cls + ".write", "coordinates is the first variable deposited", "",
               "the first variable written is `%s`; the atom dimension is validated only when coordinates are deposited" % first[:50])


FIRST_WRITE = [("mdcrd", ("_w_has_box", "_n_atoms")), ("pdb", ("_header_written",)), ("h5", ("_needs_initialization",)), ("nc", ("_needs_initialization",)),
               ("dcd", ("_needs_write_initialization",)), ("dtr", ("_needs_write_initialization",)), ("xtc", ("frame_counter",)), ("trr", ("frame_counter",))]


def _first_write_flags(ctx):
    """The state that write() tests to recognise the first call must be initialised to a constant by the constructor."""
    for key, attrs in FIRST_WRITE:
        rel, cls = F.rel_cls(key)
        mod = ctx.py.mod(rel)
        w = F.method(ctx, key, "write")
        ctor = mod.functions.get(cls + ".__cinit__") or mod.functions.get(cls + ".__init__")
        # the guard: first `if` of write() whose test reads one of the state attributes and whose true/false branch writes a header / fixes the schema
        guard = None
        for n in walk_no_nested(w):
            if isinstance(n, ast.If):
                used = [a for a in attrs if ("self." + a) in src(n.test)]
                if used and any(isinstance(x, (ast.Assign, ast.Call)) for st in n.body for x in ast.walk(st)):
                    guard = (n, used)
                    break
        q = cls + ".write"
        if guard is None:
            # the once-only rule above (header guarded by its flag) reports the missing guard itself
            ctx.note("C19-R5", w, rel, q, "first-write guard", "no test of %s found in write()" % (attrs,))
            continue
        for a in guard[1]:
            inits = [n for n in walk_no_nested(ctor) if isinstance(n, ast.Assign) and any(dotted(t) == "self." + a for t in n.targets)]
            # h5: _needs_initialization is set in the constructor's mode branches
            consts = [isinstance(n.value, ast.Constant) for n in inits]
            cdef_default = mod.pyx is not None and not inits   # cdef attributes start at 0
            ok = (bool(inits) and all(consts)) or cdef_default or any("len(" in src(n.value) for n in inits)
            ctx.decide(ok, "C19-R5", inits[0] if inits else ctor, rel, q, "first-write state self.%s starts from a constant" % a, "",
                       "write() recognises the first call by `%s`, but the constructor initialises self.%s from `%s`: when that value is supplied the "
                       "header / schema initialisation is skipped" % (src(guard[0].test)[:50], a, src(inits[0].value) if inits else "?"))


def _r3(ctx):
    for key in ("xtc", "trr", "h5", "nc", "dcd", "dtr", "gro", "mdcrd", "xyz", "lammpstrj"):
        rel, cls = F.rel_cls(key)
        fn = F.method(ctx, key, "write")
        q = cls + ".write"
        pos = F.CLASSES[key][2]
        found = False
        for n in walk_no_nested(fn):
            if isinstance(n, ast.Assign) and isinstance(n.value, ast.Call) and call_name(n.value) in ("np.arange", "numpy.arange", "range"):
                tgt = dotted(n.targets[0])
                if tgt in ("time", "step", "times"):
                    found = True
                    s = src(n.value)
                    # the writer's own frame count must enter the default; a class without a write-side counter cannot synthesise one
                    ok = pos is not None and pos.split(".")[-1] in s and key not in ("gro", "mdcrd", "xyz", "lammpstrj")
                    ctx.decide(ok, "C19-R3", n, rel, q, "default %s" % tgt, "offset by the writer position",
                               "`%s = %s` restarts at 0 in every call: writing the frames in k calls gives %s 0..,0.. instead of 0..n" % (tgt, s, tgt))
        if not found:
            ctx.holds("C19-R3", fn, rel, q, "no synthesised default", "time/step are stored only when supplied")


def _r5(ctx):
    sites = [("pdb", "write", "_write_header", "_header_written"),
             ("h5", "write", "_initialize_headers", "_needs_initialization"),
             ("nc", "write", "_initialize_headers", "_needs_initialization"),
             ("dcd", "write", "_initialize_write", "_needs_write_initialization"),
             ("dtr", "write", "_initialize_write", "_needs_write_initialization"),
             ("lh5", "write", "_initialize_headers", "_needs_initialization")]
    for key, meth, callee, flag in sites:
        rel, cls = F.rel_cls(key)
        mod = ctx.py.mod(rel)
        fn = F.method(ctx, key, meth)
        q = "%s.%s" % (cls, meth)
        calls = [n for n in walk_no_nested(fn) if isinstance(n, ast.Call) and call_name(n) == "self." + callee]
        if not calls:
            ctx.undecided("C19-R5", fn, rel, q, callee, "header/initialisation call not found")
            continue
        for c in calls:
            tests, _ = _governing(mod, c, fn)
            guarded = any(flag in src(t) for t in tests)
            # flag cleared in the same branch or inside the callee
            cleared = False
            x = c
            while x in mod.parents and not isinstance(mod.parents[x], ast.If):
                x = mod.parents[x]
            branch = mod.parents.get(x)
            if isinstance(branch, ast.If):
                body = branch.body if x in branch.body else branch.orelse
                for st in body:
                    for a in ast.walk(st):
                        if isinstance(a, ast.Assign) and any(dotted(t) == "self." + flag for t in a.targets):
                            cleared = True
            cf = mod.functions.get(cls + "." + callee)
            if cf is not None:
                for a in walk_no_nested(cf):
                    if isinstance(a, ast.Assign) and any(dotted(t) == "self." + flag for t in a.targets):
                        cleared = True
            ctx.decide(guarded and cleared, "C19-R5", c, rel, q, "%s guarded by %s" % (callee, flag),
                       "emitted once: guarded and the flag is cleared", "header/initialisation %s is %s" % (
                           callee, "not guarded by its first-write flag" if not guarded else "guarded but the flag is never cleared"))
    # PDB footer only from close()
    rel, cls = F.rel_cls("pdb")
    mod = ctx.py.mod(rel)
    callers = []
    for mname, fn in mod.methods(cls).items():
        for n in walk_no_nested(fn):
            if isinstance(n, ast.Call) and call_name(n) == "self._write_footer":
                callers.append(mname)
    ctx.decide(callers == ["close"], "C19-R5", mod.cls(cls), rel, cls + ".close", "_write_footer called from close only",
               "footer written once at close", "footer is written from %s" % callers)


def _mode_set(node):
    """{'w', ...} for `self.mode == 'w'` / `self.mode in ('w', 'a')`, else None"""
    if isinstance(node, ast.Compare) and dotted(node.left) in ("self.mode", "self._mode") and len(node.ops) == 1:
        c = node.comparators[0]
        if isinstance(node.ops[0], ast.Eq) and isinstance(c, ast.Constant):
            return {c.value}
        if isinstance(node.ops[0], ast.In) and isinstance(c, (ast.Tuple, ast.List, ast.Set)):
            return {e.value for e in c.elts if isinstance(e, ast.Constant)}
    return None


def _write_modes(fn):
    """modes in which write() proceeds: the tuple handed to _check_mode(self.mode, (...)) or compared with self.mode"""
    if fn is None:
        return set()
    for n in walk_no_nested(fn):
        if isinstance(n, ast.Call) and (call_name(n) or "").endswith("_check_mode") and len(n.args) >= 2 and isinstance(n.args[1], (ast.Tuple, ast.List)):
            return {e.value for e in n.args[1].elts if isinstance(e, ast.Constant)}
    for n in walk_no_nested(fn):
        ms = _mode_set(n) if isinstance(n, ast.Compare) else None
        if ms:
            return ms
    return set()


def _r6(ctx):
    # HDF5.write: flush on every normal exit after the appends
    rel, cls = F.rel_cls("h5")
    fn = F.method(ctx, "h5", "write")
    cfg = CFG(fn)
    flushes = {n for n in cfg.nodes() if any(isinstance(c, ast.Call) and call_name(c) == "self.flush" for e in cfg.own_exprs(n) for c in ast.walk(e))}
    ok = bool(flushes) and cfg.exit not in cfg.reachable(cfg.entry, removed=flushes)
    ctx.decide(ok, "C19-R6", fn, rel, cls + ".write", "flush on every normal exit", "every path to the normal exit calls self.flush()",
               "HDF5TrajectoryFile.write can return without flushing: frames of a completed write are lost if the process is killed")
    for key, syncs in (("h5", ("self._handle.flush",)), ("nc", ("self._handle.sync", "self._handle.flush")), ("xtc", ("xdr_flush",)),
                       ("ncrst", ("self._handle.sync", "self._handle.flush"))):
        rel, cls = F.rel_cls(key)
        f = F.method(ctx, key, "flush")
        c2 = CFG(f)

        def is_sync(c):
            d = call_name(c) or ""
            return any(d == sname or (not sname.startswith("self.") and d.split(".")[-1] == sname) for sname in syncs)
        sy = {n for n in c2.nodes() if any(isinstance(c, ast.Call) and is_sync(c) for e in c2.own_exprs(n) for c in ast.walk(e))}
        # a closed file has nothing to flush: paths through the false edge of an is-open test are exempt
        wmodes = _write_modes(F.method(ctx, key, "write", required=False))
        open_tests = set()
        for n in c2.nodes():
            if c2.kind[n] != "test":
                continue
            t = c2.stmt[n].test
            conj = t.values if isinstance(t, ast.BoolOp) and isinstance(t.op, ast.And) else [t]
            pure = True
            for cj in conj:
                tx = src(cj)
                if tx in ("self._open", "self.is_open", "not self._closed", "not self.closed", "self._handle is not None"):
                    continue
                ms = _mode_set(cj)
                if ms is not None and wmodes and wmodes <= ms:
                    continue        # a mode test that admits every mode in which write() is allowed
                pure = False
            if pure and any(w in src(t) for w in ("_open", "_closed", "is_open", "_handle")):
                open_tests.add(n)
        ok = bool(sy) and c2.exit not in c2.reachable(c2.entry, removed=sy | open_tests)
        ctx.decide(ok, "C19-R6", f, rel, cls + ".flush", "reaches %s" % "/".join(syncs), "every normal exit of an open file passes the backend sync",
                   "flush() can return without calling %s" % " or ".join(syncs))
    rel = "mdtraj/reporters/basereporter.py"
    fn = ctx.py.func(rel, "_BaseReporter.report")
    cfg = CFG(fn)
    writes = [n for n in cfg.nodes() if any(isinstance(c, ast.Call) and call_name(c) == "self._traj_file.write" for e in cfg.own_exprs(n) for c in ast.walk(e))]
    fl = {n for n in cfg.nodes() if any(isinstance(c, ast.Call) and call_name(c) == "self._traj_file.flush" for e in cfg.own_exprs(n) for c in ast.walk(e))}
    if not writes:
        ctx.undecided("C19-R6", fn, rel, "_BaseReporter.report", "write call", "self._traj_file.write not found")
        return
    # the flush sits under `if hasattr(self._traj_file, 'flush')`: cut that false edge (formats without flush have nothing to flush)
    ok = bool(fl)
    for w in writes:
        reach = cfg.reachable(w, removed=fl)
        if cfg.exit in reach:
            # allowed only through the hasattr(...) == False edge
            guard = [n for n in cfg.nodes() if cfg.kind[n] == "test" and "hasattr(self._traj_file, 'flush')" in src(cfg.stmt[n].test).replace('"', "'")]
            if not guard or cfg.exit in cfg.reachable(w, removed=fl | set(guard)):
                ok = False
    ctx.decide(ok, "C19-R6", fn, rel, "_BaseReporter.report", "flush after write", "every report flushes the file when the format offers flush()",
               "report() can return after write() without flushing")


# ---------------------------------------------------------------------------------------------------
# R7: inside the frame loop of a streaming write(), per-frame data is used per frame
# ---------------------------------------------------------------------------------------------------


# fields of a text format that no reader of it uses (so a difference there is not a difference between the files as trajectories)
_IGNORED_AFTER = {"lammpstrj": "ITEM: TIMESTEP"}      # the step counter of a LAMMPS dump restarts with every write() call; loaders number frames by position


def _r7(ctx):
    """write() of each streaming text writer evaluated (sa/writers.py) on symbolic frames: the text put into the file by one call with all frames is, piece by
    piece (literal text, format specs, values), the text put there by the same frames handed over in several calls - with and without cell / time."""
    from .. import writers as W, textio as T
    from ..tensym import Raised
    from ..pysym import Unsupported as PUnsupported

    def comparable(key, pieces):
        ls, tail = T.lines(pieces)
        if tail:
            ls.append(tail)
        mark = _IGNORED_AFTER.get(key)
        out, skip = [], False
        for l_ in ls:
            if skip:
                skip = False
                out.append(["<ignored>"])
                continue
            out.append(l_)
            if mark and len(l_) == 1 and isinstance(l_[0], str) and l_[0].strip() == mark:
                skip = True
        return out
    splits = [(2, [(0, 1), (1, 2)]), (3, [(0, 1), (1, 3)]), (3, [(0, 2), (2, 3)])]
    if ctx.tier == "thorough":
        splits += [(3, [(0, 1), (1, 2), (2, 3)]), (4, [(0, 1), (1, 4)]), (4, [(0, 2), (2, 4)]), (4, [(0, 3), (3, 4)]), (4, [(0, 1), (1, 3), (3, 4)])]
    for key in ("gro", "mdcrd", "xyz", "lammpstrj"):
        rel, cls = F.rel_cls(key)
        fn = F.method(ctx, key, "write")
        q = cls + ".write"
        variants = {"xyz": [dict(cell=False, time=False)], "mdcrd": [dict(cell=True, time=False), dict(cell=False, time=False)],
                    "lammpstrj": [dict(cell=True, time=False), dict(cell=True, ortho=True, time=False), dict(cell=True, ortho="mixed", time=False)],
                    "gro": [dict(cell=True, time=True), dict(cell=False, time=False), dict(cell=True, time=False), dict(cell="triangular", time=True)]}[key]
        for var in variants:
            vdesc = ", ".join("%s=%s" % kv for kv in sorted(var.items()))
            for n, part in splits:
                pdesc = "%d frames in calls of %s" % (n, [b_ - a_ for a_, b_ in part])
                desc = "%s (%s): the same text as one call" % (pdesc, vdesc)
                try:
                    root = W.new_root()
                    world = W.World(n, **var)
                    one = W.written(ctx, key, world, [(0, n)], root)
                    many = W.written(ctx, key, world, part, root)
                except Raised as e:
                    ctx.violated("C19-R7", fn, rel, q, desc, "the writer refuses these frames: %s" % (e.exc or e))
                    continue
                except PUnsupported as e:
                    ctx.undecided("C19-R7", fn, rel, q, desc, "not evaluable: %s" % e)
                    continue
                l1, l2 = comparable(key, one), comparable(key, many)
                bad = None
                if not one:
                    bad = "nothing is written"
                elif len(l1) != len(l2):
                    bad = "%d lines at once, %d lines in several calls" % (len(l1), len(l2))
                else:
                    for k_, (x_, y_) in enumerate(zip(l1, l2)):
                        if not T.same_pieces(x_, y_):
                            bad = "line %d is `%s` when written at once and `%s` when written in several calls" % (k_ + 1, T.show(x_, 90), T.show(y_, 90))
                            break
                ctx.decide(bad is None, "C19-R7", fn, rel, q, desc, "%d lines" % len(l1), "%s: what is written for a frame depends on the other frames of the same write() call" % bad)


# ---------------------------------------------------------------------------------------------------
# R8: HDF5 / NetCDF writers evaluated on model array stores
# ---------------------------------------------------------------------------------------------------
def _r8_array_stores(ctx):
    """HDF5TrajectoryFile.write and NetCDFTrajectoryFile.write evaluated (sa/tensym.py) on model files whose arrays grow along the frame axis
    (sa/stores.py, sa/h5model.py), with symbolic frames.  By value: n frames written in k calls leave the same arrays (coordinates, time, cell) and the
    same frame counter as one call; a later write that changes the atom count, or adds / drops time or cell, is refused and leaves every array as it
    was."""
    from .. import stores as S, h5model as H
    from ..tensym import TenSym, Ten, Raised
    from ..pysym import Unsupported as PUnsupported
    from .. import textio as T
    NA = 3
    ev = TenSym({})

    def cut(t, a, b):
        if t is None:
            return None
        v = ev.getitem(t, (slice(a, b),))
        return Ten(v.shape, list(v.data))
    splits = [(2, [(0, 1), (1, 2)]), (3, [(0, 1), (1, 3)]), (3, [(0, 2), (2, 3)])]
    if ctx.tier == "thorough":
        splits += [(4, [(0, 1), (1, 2), (2, 4)]), (4, [(0, 3), (3, 4)])]
    fields = ("coordinates", "time", "cell_lengths", "cell_angles")
    for key in ("h5", "nc"):
        rel, cls = F.rel_cls(key)
        fn = F.method(ctx, key, "write")
        q = cls + ".write"

        def new_file():
            return H.h5_file(ctx, "w", n_atoms=NA) if key == "h5" else S.netcdf_file(ctx, "w")

        def write(me, **kw):
            kw = {k_: v_ for k_, v_ in kw.items() if v_ is not None}
            if key == "h5":
                return H.call(ctx, me, "write", **kw)[1]
            try:
                S.run_method(ctx, key, me, "write", **kw)
                return None
            except Raised as e:
                return e.exc or str(e)

        def contents(me):
            nodes = me._nodes if key == "h5" else me._handle.variables
            return {k_: S.stored(v_) for k_, v_ in nodes.items()}
        for has_time, has_cell in ((True, True), (False, False), (True, False)):
            vdesc = "%s time, %s cell" % ("with" if has_time else "without", "with" if has_cell else "without")
            for n, part in splits:
                desc = "%d frames in calls of %s (%s): the arrays of one call" % (n, [b_ - a_ for a_, b_ in part], vdesc)
                try:
                    arr = H.arrays(n, NA, fields=tuple(f_ for f_ in fields if f_ == "coordinates" or (f_ == "time" and has_time) or (f_.startswith("cell") and has_cell)))
                    one, many = new_file(), new_file()
                    e1 = write(one, **arr)
                    es = [write(many, **{k_: cut(v_, a_, b_) for k_, v_ in arr.items()}) for a_, b_ in part]
                    why = None
                    if e1 or any(es):
                        why = "a write is refused: %s" % (e1 or next(e_ for e_ in es if e_))[:90]
                    else:
                        c1, c2 = contents(one), contents(many)
                        if sorted(c1) != sorted(c2):
                            why = "arrays %s when written at once, %s in several calls" % (sorted(c1), sorted(c2))
                        else:
                            for k_ in sorted(c1):
                                if not T.same_value(c1[k_], c2[k_]):
                                    why = "`%s` holds %s rows written at once and %s rows written in several calls, or other values" % (k_, c1[k_].shape[0], c2[k_].shape[0])
                                    break
                            if why is None:
                                for k_ in sorted(arr):
                                    nm = H.NODE_OF.get(k_, k_)
                                    if nm not in c1 or not T.same_value(c1[nm], arr[k_]):
                                        why = "`%s` does not hold the frames handed to write()" % nm
                                        break
                            if why is None and (one._frame_index != n or many._frame_index != n):
                                why = "the frame counter is %s / %s after %d frames" % (one._frame_index, many._frame_index, n)
                    ctx.decide(why is None, "C19-R8", fn, rel, q, desc, "", "%s: incremental writing does not give the file of one-shot writing" % why)
                except PUnsupported as e:
                    ctx.undecided("C19-R8", fn, rel, q, desc, "not evaluable: %s" % e)
        # ---- ragged writes are refused and change nothing
        base = H.arrays(2, NA)
        extra = H.arrays(2, NA + 1)
        no_time = {k_: v_ for k_, v_ in base.items() if k_ != "time"}
        no_cell = {k_: v_ for k_, v_ in base.items() if not k_.startswith("cell")}
        bare = {"coordinates": base["coordinates"]}
        cases = [("another atom count", base, dict(base, coordinates=extra["coordinates"])),
                 ("time left out", base, no_time),
                 ("the cell left out", base, no_cell),
                 ("cell angles left out", base, {k_: v_ for k_, v_ in base.items() if k_ != "cell_angles"}),
                 ("the cell left out (file without time)", no_time, bare),
                 ("time added (file without time)", no_time, base),
                 ("time left out (file without cell)", no_cell, bare),
                 ("a cell added (file without cell)", no_cell, base),
                 ("time and cell added (file with coordinates only)", bare, base)]
        for what, first, second in cases:
            base = first
            desc = "a later write with %s is refused and leaves the arrays as they were" % what
            try:
                me = new_file()
                e0 = write(me, **base)
                before = {k_: Ten(v_.shape, list(v_.data)) for k_, v_ in contents(me).items()}
                e1 = write(me, **second)
                after = contents(me)
                why = None
                if e0:
                    why = "the first write is refused: %s" % e0[:80]
                elif not e1:
                    why = "it is accepted"
                elif sorted(before) != sorted(after) or any(not T.same_value(before[k_], after[k_]) for k_ in before):
                    ch = [k_ for k_ in after if k_ not in before or not T.same_value(before[k_], after[k_])]
                    why = "it is refused, but `%s` has already changed (%s rows before, %s after)" % (ch[0], before[ch[0]].shape[0] if ch[0] in before else 0, after[ch[0]].shape[0])
                ctx.decide(why is None, "C19-R8", fn, rel, q, desc, (e1 or "")[:40], "%s: the file becomes ragged" % why)
                # the file still takes frames of the right kind afterwards
                if why is None:
                    e2 = write(me, **base)
                    a2 = contents(me)
                    ok2 = not e2 and all(a2[k_].shape[0] == 4 for k_ in a2)
                    ctx.decide(ok2, "C19-R8", fn, rel, q, "after a refused write (%s) the file accepts further frames of its own kind" % what, "", "a regular write after the refused one %s" % ("is refused: %s" % e2[:60] if e2 else "leaves arrays of %s rows" % {k_: a2[k_].shape[0] for k_ in a2}))
            except PUnsupported as e:
                ctx.undecided("C19-R8", fn, rel, q, desc, "not evaluable: %s" % e)


def _r8_xdr(ctx):
    """XTCTrajectoryFile.write / TRRTrajectoryFile.write (Cython, desugared) evaluated on a model XDR file (sa/xdrmodel.py: write_xtc / write_trr append the
    frame they are handed): with time, step and box given explicitly, n frames written in k calls leave the frame records and the counter of one call; a
    later write with another atom count, or with the cell added / dropped, is refused and appends nothing.  (Default time / step: C19-R3.)"""
    from .. import xdrmodel as X, writers as W, h5model as H
    from ..tensym import TenSym, Ten, Raised
    from ..pysym import Unsupported as PUnsupported
    from .. import textio as T
    NA = 3
    ev = TenSym({})

    def cut(t, a, b):
        if t is None:
            return None
        v = ev.getitem(t, (slice(a, b),))
        return Ten(v.shape, list(v.data))

    def same_frames(f1, f2):
        if len(f1) != len(f2):
            return "%d / %d frames" % (len(f1), len(f2))
        for k_, (a_, b_) in enumerate(zip(f1, f2)):
            for fld in a_:
                if not T.same_value(a_[fld], b_.get(fld)):
                    return "frame %d: %s differs" % (k_, fld)
        return None
    for key in ("xtc", "trr"):
        rel, cls = F.rel_cls(key)
        fn = F.method(ctx, key, "write")
        q = cls + ".write"

        def write(xf, me, **kw):
            try:
                X.call(ctx, key, xf, me, "write", assume=W.assume, **{k_: v_ for k_, v_ in kw.items() if v_ is not None})
                return None
            except Raised as e:
                return e.exc or str(e)
        for has_box in (True, False):
            for n, part in ((2, [(0, 1), (1, 2)]), (3, [(0, 1), (1, 3)]), (3, [(0, 2), (2, 3)])):
                desc = "%d frames in calls of %s (%s cell; time and step given): the frame records of one call" % (n, [b_ - a_ for a_, b_ in part], "with" if has_box else "without")
                try:
                    data = dict(xyz=Ten.sym("x", (n, NA, 3)), time=Ten.sym("t", (n,)), step=Ten.sym("s", (n,)), box=Ten.sym("B", (n, 3, 3)) if has_box else None)
                    if key == "trr":
                        data["lambd"] = Ten.sym("lam", (n,))
                    f1, f2 = X.XdrFile(key), X.XdrFile(key)
                    m1, m2 = X.file_object(ctx, key, f1, "w"), X.file_object(ctx, key, f2, "w")
                    e1 = write(f1, m1, **data)
                    es = [write(f2, m2, **{k_: cut(v_, a_, b_) for k_, v_ in data.items()}) for a_, b_ in part]
                    why = None
                    if e1 or any(es):
                        why = "a write is refused: %s" % (e1 or next(e_ for e_ in es if e_))[:80]
                    else:
                        why = same_frames(f1.frames, f2.frames)
                        if why is None and len(f1.frames) != n:
                            why = "%d frames are written for %d given" % (len(f1.frames), n)
                        if why is None:
                            for k_, fr in enumerate(f1.frames):
                                if not (T.same_value(fr["x"], list(data["xyz"].data[k_ * NA * 3:(k_ + 1) * NA * 3])) and T.same_value(fr["time"], data["time"].data[k_]) and T.same_value(fr["step"], data["step"].data[k_])
                                        and (not has_box or T.same_value(fr["box"], list(data["box"].data[k_ * 9:(k_ + 1) * 9])))):
                                    why = "frame %d on file is not the frame handed to write()" % k_
                                    break
                        if why is None and (m1.frame_counter != n or m2.frame_counter != n):
                            why = "the frame counter is %s / %s after %d frames" % (m1.frame_counter, m2.frame_counter, n)
                    ctx.decide(why is None, "C19-R8", fn, rel, q, desc, "", "%s: incremental writing does not give the file of one-shot writing" % why)
                except PUnsupported as e:
                    ctx.undecided("C19-R8", fn, rel, q, desc, "not evaluable: %s" % e)
        base = dict(xyz=Ten.sym("x", (2, NA, 3)), time=Ten.sym("t", (2,)), step=Ten.sym("s", (2,)), box=Ten.sym("B", (2, 3, 3)))
        nobox = {k_: v_ for k_, v_ in base.items() if k_ != "box"}
        for what, first, second in (("another atom count", base, dict(base, xyz=Ten.sym("y", (2, NA + 1, 3)))), ("the cell left out", base, nobox), ("a cell added", nobox, base)):
            desc = "a later write with %s is refused and appends nothing" % what
            try:
                xf = X.XdrFile(key)
                me = X.file_object(ctx, key, xf, "w")
                e0 = write(xf, me, **first)
                n0 = len(xf.frames)
                e1 = write(xf, me, **second)
                why = ("the first write is refused: %s" % e0[:60]) if e0 else ("it is accepted" if not e1 else ("it is refused after %d frames were appended" % (len(xf.frames) - n0) if len(xf.frames) != n0 else None))
                ctx.decide(why is None, "C19-R8", fn, rel, q, desc, (e1 or "")[:40], "%s: the file becomes ragged" % why)
            except PUnsupported as e:
                ctx.undecided("C19-R8", fn, rel, q, desc, "not evaluable: %s" % e)


def _r8_ensure_type(ctx):
    """Every streaming writer checks "one entry per frame" through ensure_type(..., shape=(n_frames, ...)).  The helper itself, evaluated from its
    source (the writers' harnesses summarise it as the identity): an array whose shape differs from the shape asked for is refused - also when the
    length asked for is 0 (an empty coordinate block with non-empty times would otherwise grow one array of the file and not the others); None in the
    shape matches anything; equal shapes pass."""
    import itertools
    from ..tensym import TenSym, Ten, Raised, Obj
    from ..pysym import Unsupported as PUnsupported
    rel = "mdtraj/utils/validation.py"
    fn = ctx.py.func(rel, "ensure_type")

    def zl(ev, c):
        a = [list(ev.iterate(ev.ex(x))) for x in c.args]
        fv = next((ev.ex(k.value) for k in c.keywords if k.arg == "fillvalue"), None)
        return [tuple(t) for t in itertools.zip_longest(*a, fillvalue=fv)]
    models = {"object": lambda ev, c: Obj(tag="sentinel"), "zip_longest": zl, "itertools.zip_longest": zl, "ValueError": lambda ev, c: Obj(tag="ValueError", _isa=("ValueError", "Exception")),
              "warnings.warn": lambda ev, c: None, "np.ascontiguousarray": lambda ev, c: ev.ex(c.args[0]), "str": lambda ev, c: "S"}       # str(): only ever part of a message
    for shp, have, accept in (((0,), (2,), False), ((3,), (2,), False), ((2,), (2,), True), ((None,), (2,), True), ((0, 3), (2, 3), False), ((None, 3), (2, 3), True), ((2, None), (2, 4), True), ((2, 3), (2, 4), False)):
        desc = "ensure_type(array of shape %s, shape=%s) is %s" % (have, shp, "accepted" if accept else "refused")
        try:
            ts = TenSym({}, funcs={q_: f_ for q_, f_ in ctx.py.mod(rel).functions.items() if "." not in q_ and q_ != "ensure_type"}, models=models)      # private helpers of the module are evaluated from their source
            r = ts.run_fn(fn, val=Ten.sym("t", have), dtype="float32", ndim=len(have), name="time", shape=shp, can_be_none=True, warn_on_cast=False, add_newaxis_on_deficient_ndim=True, length=None)
            ctx.decide(accept and isinstance(r, Ten) and r.shape == have, "C19-R8", fn, rel, "ensure_type", desc, "", "an array of shape %s passes the check against %s: a write whose arrays have different numbers of frames is not refused" % (have, shp))
        except Raised as e:
            ctx.decide(not accept, "C19-R8", fn, rel, "ensure_type", desc, "", "a matching array is refused: %s" % (e.exc or e))
        except PUnsupported as e:
            ctx.undecided("C19-R8", fn, rel, "ensure_type", desc, "not evaluable: %s" % e)


def _r8_pdb_block(ctx):
    """PDBTrajectoryFile.write stores one model per call.  Evaluated (sa/writers.py) with a block of two frames: the call is refused (or two models are
    written) - it never stores fewer frames than it accepted."""
    from .. import writers as W
    from ..tensym import Raised, Ten
    from ..pysym import Unsupported as PUnsupported
    fn = ctx.py.func(W.PDB, "PDBTrajectoryFile.write")
    q = "PDBTrajectoryFile.write"
    desc = "a block of two frames handed to one write() is refused or written whole"
    spec = [("A", [("ALA", 5, [("N", "N"), ("CA", "C"), ("C", "C")])]), ("B", [("HOH", 1, [("O", "O")])])]
    try:
        top = W.pdb_topology(spec)
        lines, me = W.pdb_written(ctx, top, [Ten.sym("x", (2, len(top.atoms), 3))], W.new_root())
        n_atom_lines = sum(1 for l_ in lines if (l_.startswith("ATOM") or l_.startswith("HETATM")))
        ctx.decide(n_atom_lines == 2 * len(top.atoms), "C19-R8", fn, W.PDB, q, desc, "",
                   "positions of shape (2, %d, 3) are accepted and %d ATOM records are written: the file holds fewer frames than the calls it accepted" % (len(top.atoms), n_atom_lines))
    except Raised as e:
        ctx.holds("C19-R8", fn, W.PDB, q, desc, "refused: %s" % (e.exc or "")[:60])
    except PUnsupported as e:
        ctx.undecided("C19-R8", fn, W.PDB, q, desc, "not evaluable: %s" % e)


def _r8_dcd(ctx):
    """DCDTrajectoryFile.write evaluated on a model DCD file (sa/dcdmodel.py): n frames in k calls leave the frame records of one call; a later write with
    another atom count, or with the cell added / dropped, is refused and appends nothing."""
    from .. import dcdmodel as D, writers as W
    from ..tensym import TenSym, Ten, Raised
    from ..pysym import Unsupported as PUnsupported
    from .. import textio as T
    NA = 3
    ev = TenSym({})
    rel, cls = F.rel_cls("dcd")
    fn = F.method(ctx, "dcd", "write")
    q = cls + ".write"

    def cut(t, a, b):
        if t is None:
            return None
        v = ev.getitem(t, (slice(a, b),))
        return Ten(v.shape, list(v.data))

    def write(df, me, **kw):
        try:
            D.call(ctx, df, me, "write", assume=W.assume, **{k_: v_ for k_, v_ in kw.items() if v_ is not None})
            return None
        except Raised as e:
            return e.exc or str(e)
    for has_cell in (True, False):
        for n, part in ((2, [(0, 1), (1, 2)]), (3, [(0, 1), (1, 3)]), (3, [(0, 2), (2, 3)])):
            desc = "%d frames in calls of %s (%s cell): the frame records of one call" % (n, [b_ - a_ for a_, b_ in part], "with" if has_cell else "without")
            try:
                data = dict(xyz=Ten.sym("x", (n, NA, 3)), cell_lengths=Ten.sym("L", (n, 3)) if has_cell else None, cell_angles=Ten.sym("A", (n, 3)) if has_cell else None)
                d1, d2 = D.DcdFile(), D.DcdFile()
                m1, m2 = D.file_object(ctx, d1, "w"), D.file_object(ctx, d2, "w")
                e1 = write(d1, m1, **data)
                es = [write(d2, m2, **{k_: cut(v_, a_, b_) for k_, v_ in data.items()}) for a_, b_ in part]
                why = None
                if e1 or any(es):
                    why = "a write is refused: %s" % (e1 or next(e_ for e_ in es if e_))[:80]
                elif len(d1.frames) != n or len(d2.frames) != n:
                    why = "%d / %d frames on file for %d written" % (len(d1.frames), len(d2.frames), n)
                else:
                    for k_, (a_, b_) in enumerate(zip(d1.frames, d2.frames)):
                        want_x = list(data["xyz"].data[k_ * NA * 3:(k_ + 1) * NA * 3])
                        want_c = (tuple(data["cell_lengths"].data[k_ * 3:k_ * 3 + 3]) + tuple(data["cell_angles"].data[k_ * 3:k_ * 3 + 3])) if has_cell else None
                        if not (T.same_value(a_["x"], b_["x"]) and T.same_value(a_["x"], want_x)):
                            why = "frame %d on file is not the frame handed to write()" % k_
                            break
                        if has_cell and not (T.same_value(list(a_["cell"]), list(b_["cell"])) and T.same_value(list(a_["cell"]), list(want_c))):
                            why = "the cell of frame %d on file is not the one handed to write()" % k_
                            break
                ctx.decide(why is None, "C19-R8", fn, rel, q, desc, "", "%s: incremental writing does not give the file of one-shot writing" % why)
            except PUnsupported as e:
                ctx.undecided("C19-R8", fn, rel, q, desc, "not evaluable: %s" % e)
    base = dict(xyz=Ten.sym("x", (2, NA, 3)), cell_lengths=Ten.sym("L", (2, 3)), cell_angles=Ten.sym("A", (2, 3)))
    nocell = {"xyz": base["xyz"]}
    for what, first, second in (("another atom count", base, dict(base, xyz=Ten.sym("y", (2, NA + 1, 3)))), ("the cell left out", base, nocell), ("a cell added", nocell, base)):
        desc = "a later write with %s is refused and appends nothing" % what
        try:
            df = D.DcdFile()
            me = D.file_object(ctx, df, "w")
            e0 = write(df, me, **first)
            n0 = len(df.frames)
            e1 = write(df, me, **second)
            why = ("the first write is refused: %s" % e0[:60]) if e0 else ("it is accepted" if not e1 else ("it is refused after %d frames were appended" % (len(df.frames) - n0) if len(df.frames) != n0 else None))
            ctx.decide(why is None, "C19-R8", fn, rel, q, desc, (e1 or "")[:40], "%s: the file becomes ragged" % why)
        except PUnsupported as e:
            ctx.undecided("C19-R8", fn, rel, q, desc, "not evaluable: %s" % e)
