"""C20  Existing files are never modified unless overwriting was requested.

R1  guard dominates every destructive operation (path-sensitive, all constructors / helpers)
R2  force_overwrite is plumbed from save_* / open() to the file class
R3  write modes truncate; accepted mode sets are {r,w} (+ documented 'a' for HDF5)
R4  reading never writes (call graph from read entry points)
"""
from __future__ import annotations

import ast

from ..core import AnalysisError
from ..cfg import CFG
from ..pyfront import dotted, call_name, kwarg, params, const, src, walk_no_nested, param_default

EXPLANATION = (
    "Path-sensitive static analysis of every file-class constructor and helper that can create, truncate or "
    "delete a user-named path: a forward analysis over the statement CFG tracks the boolean atoms "
    "exists(filename), force_overwrite and mode==<const> as sets of worlds; every destructive call "
    "(open 'w', GzipFile/BZ2File 'wb', os.unlink, shutil.rmtree, tables.open_file, netcdf(mode), xdrfile_open 'w', "
    "open_dcd_write, open_file_write, gsd.hoomd.open 'w') must be reached only in worlds where the path does not "
    "exist or overwriting was requested.  Plumbing of force_overwrite from every save_* / md.open to the class, "
    "mode-set validation and a call-graph check that no read entry point reaches a destructive call are decided too.")
NOT_DECIDED = ["byte-for-byte content of files after an overwrite (run-time)",
               "behaviour of the C back-ends after the open (dcdplugin / xdrfile truncate on 'w')"]
ASSUMPTIONS = ["os.path.exists / isfile answer truthfully at the time of the check (no TOCTOU modelling)",
               "tables.open_file, netCDF4.Dataset / scipy netcdf_file, xdrfile_open, open_dcd_write and open_file_write "
               "with write mode create or truncate the named path"]
FLOORS = {"C20-R1": 17, "C20-R2": 18, "C20-R3": 12, "C20-R4": 30}

EXISTS_FUNCS = ("os.path.exists", "os.path.isfile", "os.path.isdir", "os.path.lexists", "exists", "isfile")
ALWAYS_DESTRUCTIVE = ("os.unlink", "os.remove", "shutil.rmtree", "os.rename", "os.replace", "os.truncate",
                      "shutil.move", "os.rmdir", "os.removedirs")
ALWAYS_DESTRUCTIVE_TAILS = ("open_dcd_write", "open_file_write")
# (dotted-name tail, positional index of mode, keyword of mode, default mode)
MODE_OPENERS = {
    "open": (1, "mode", "r"),
    "io.open": (1, "mode", "r"),
    "gzip.GzipFile": (1, "mode", "r"),
    "gzip.open": (1, "mode", "r"),
    "bz2.BZ2File": (1, "mode", "r"),
    "bz2.open": (1, "mode", "r"),
    "xdrfile_open": (1, "mode", None),
    "_open_file": (1, "mode", "r"),
    "open_file": (1, "mode", "r"),
    "netcdf": (1, "mode", "r"),
    "netcdf_file": (1, "mode", "r"),
    "Dataset": (1, "mode", "r"),
    "gsd.hoomd.open": (1, "mode", "r"),
}
MODE_EXCEPTIONS = {
    # class -> extra accepted modes, with reason (one symbol wide)
    "HDF5TrajectoryFile": ({"a"}, "append mode is documented: the caller explicitly asks to modify the existing file"),
}
READ_ENTRY_PREFIXES = ("load", "read", "iterload", "seek", "tell", "__len__", "_read", "parse", "_parse")


def _is_destructive_mode(m):
    return any(ch in m for ch in "wax+")


def classify_call(call):
    """-> None | ('always', patharg) | ('mode', patharg, mode_expr_or_const)"""
    d = call_name(call)
    if d is None:
        return None
    if d in ALWAYS_DESTRUCTIVE or d.split(".")[-1] in ALWAYS_DESTRUCTIVE_TAILS:
        return ("always", call.args[0] if call.args else None, None)
    if d == "os.open" and len(call.args) >= 2:
        return ("osopen", call.args[0], call.args[1])
    for tail, (pos, kw, default) in MODE_OPENERS.items():
        if d == tail or d.endswith("." + tail):
            if tail == "open" and d != "open" and not d.endswith("hoomd.open") and not d.endswith("io.open"):
                # some_object.open(...) that we do not know
                if d.endswith(".open"):
                    return None
            m = kwarg(call, kw, pos)
            if m is None:
                if default is None:
                    return None
                m = ast.Constant(default)
            return ("mode", call.args[0] if call.args else None, m)
    return None


class FuncInfo:
    def __init__(self, rel, qual, fn, clsname):
        self.rel = rel
        self.qual = qual
        self.fn = fn
        self.cls = clsname
        self.params = params(fn)


def _scope(ctx):
    files = [f for f in ctx.py.all_py("mdtraj/formats")]
    files += ["mdtraj/core/trajectory.py"]
    # helpers the savers may hand the user's path to (open_maybe_zipped today; a clean-up context manager tomorrow)
    files += [f for f in ctx.py.all_py("mdtraj/utils") if f.count("/") == 2]
    return files


PATH_PRESERVING = ("str", "os.fspath", "os.path.abspath", "os.path.realpath", "os.path.normpath", "bytes", "os.fsencode", "os.fsdecode")
# wrappers after which the string names another file than before (`~/x` is a relative path to os.path.exists / open, the expanded one is in the home
# directory): a test of the one says nothing about the other.  The class of a path expression is the set of these it went through.
PATH_CHANGING = {"os.path.expanduser": "expanduser", "os.path.expandvars": "expandvars"}


def _path_class(e, al):
    """The class (frozenset of file-changing wrappers applied) of expression e if it denotes the user's path - one of the aliases, possibly through
    value-preserving wrappers; None if it is something else."""
    d = dotted(e)
    if d is not None:
        return al.get(d)
    if isinstance(e, ast.Call) and call_name(e) in PATH_PRESERVING and e.args:
        return _path_class(e.args[0], al)
    if isinstance(e, ast.Call) and call_name(e) in PATH_CHANGING and e.args:
        c = _path_class(e.args[0], al)
        return None if c is None else c | {PATH_CHANGING[call_name(e)]}
    if isinstance(e, ast.Call) and isinstance(e.func, ast.Attribute) and e.func.attr in ("encode", "decode") and not e.args:
        return _path_class(e.func.value, al)
    return None


def _same_path(e, al, cls=frozenset()):
    """Does expression e denote the user's path, of the given class?"""
    return _path_class(e, al) == cls


def _path_aliases(fn):
    """{name: class} of the names that hold the user's path inside a constructor (str()/fspath() wrappers allowed; expanduser() gives a name of
    another class; lower(), basename(), formatting ... produce a *different* path and are not aliases)."""
    al = {}
    ps = params(fn)
    for p in ps:
        if p in ("filename", "file", "fname", "path", "filenames"):
            al[p] = frozenset()
    changed = True
    while changed:
        changed = False
        for n in walk_no_nested(fn):
            if isinstance(n, ast.Assign) and len(n.targets) == 1:
                t = dotted(n.targets[0])
                if t and t not in al:
                    c = _path_class(n.value, al)
                    if c is not None:
                        al[t] = c
                        changed = True
            # C string copy in the Cython constructors:  strcpy(self.filename, filename)
            if isinstance(n, ast.Call) and call_name(n) in ("strcpy", "strncpy") and len(n.args) >= 2:
                t = dotted(n.args[0])
                if t and t not in al:
                    c = _path_class(n.args[1], al)
                    if c is not None:
                        al[t] = c
                        changed = True
    return al


def _fresh_temporary(fn, e):
    """Is the path expression a local that only ever holds what tempfile.mkdtemp / mkstemp / NamedTemporaryFile / TemporaryDirectory returned?"""
    d = dotted(e)
    if d is None or "." in d:
        return False
    vals = [n.value for n in walk_no_nested(fn) if isinstance(n, ast.Assign) and any(dotted(t) == d for t in n.targets)]
    return bool(vals) and all(isinstance(v, ast.Call) and (call_name(v) or "").startswith("tempfile.") for v in vals)


def names_of(e):
    res = set()
    for n in ast.walk(e):
        d = dotted(n) if isinstance(n, (ast.Name, ast.Attribute)) else None
        if d:
            res.add(d)
    return res


def _mode_value(e):
    """'w' for  mode == 'w'  /  str(mode) == 'w'  /  'w' == mode ; else None."""
    if isinstance(e, ast.Compare) and len(e.ops) == 1 and isinstance(e.ops[0], ast.Eq):
        a, b = e.left, e.comparators[0]
        for x, y in ((a, b), (b, a)):
            if isinstance(y, ast.Constant) and isinstance(y.value, (str, bytes)):
                xx = x
                if isinstance(xx, ast.Call) and call_name(xx) == "str" and xx.args:
                    xx = xx.args[0]
                d = dotted(xx)
                if d in ("mode", "self.mode", "self._mode"):
                    v = y.value
                    return v.decode() if isinstance(v, bytes) else v
    return None


def _named_conditions(fn):
    """{local: expression} for locals assigned exactly once with a condition (comparison / and / or / not / call) over names that are never
    reassigned themselves: `refuse = mode == "w" and not force_overwrite` names that condition"""
    if fn is None:
        return {}
    assigned = {}
    for n in walk_no_nested(fn):
        tg = n.targets if isinstance(n, ast.Assign) else ([n.target] if isinstance(n, (ast.AugAssign, ast.AnnAssign)) else [])
        for t in tg:
            for x in ast.walk(t):
                if isinstance(x, ast.Name):
                    assigned.setdefault(x.id, []).append(n)
        if isinstance(n, (ast.For, ast.With)):
            for x in ast.walk(n.target if isinstance(n, ast.For) else ast.Tuple(elts=[i.optional_vars for i in n.items if i.optional_vars is not None], ctx=ast.Store())):
                if isinstance(x, ast.Name):
                    assigned.setdefault(x.id, []).append(n)
    out = {}
    for name, sts in assigned.items():
        if len(sts) == 1 and isinstance(sts[0], ast.Assign) and len(sts[0].targets) == 1 and isinstance(sts[0].targets[0], ast.Name) and \
                isinstance(sts[0].value, (ast.Compare, ast.BoolOp, ast.UnaryOp, ast.Call)):
            used = {x.id for x in ast.walk(sts[0].value) if isinstance(x, ast.Name)}
            if not any(u in assigned for u in used if u != name):
                out[name] = sts[0].value
    return out


def make_atom_of(aliases, cls=frozenset(), fn=None):
    """atoms of the worlds; `exists` is a test of the user's path of class `cls` (the class of the path the destructive operation is given)"""
    def atom_of(e):
        if isinstance(e, ast.Name) and e.id == "force_overwrite":
            return "force"
        if isinstance(e, ast.Call):
            d = call_name(e)
            if d in EXISTS_FUNCS and e.args and _same_path(e.args[0], aliases, cls):
                return "exists"
        v = _mode_value(e)
        if v is not None:
            return ("mode", v)
        return None
    atom_of.definitions = _named_conditions(fn)
    return atom_of


def _feasible(world):
    modes = [k[1] for k, v in world.items() if isinstance(k, tuple) and k[0] == "mode" and len(k) == 2 and v]
    return len(set(modes)) <= 1


def _transfer_factory(cfg):
    def transfer(n, w):
        st = cfg.stmt[n]
        if cfg.kind[n] == "stmt" and isinstance(st, (ast.Assign, ast.AugAssign)):
            targets = st.targets if isinstance(st, ast.Assign) else [st.target]
            for t in targets:
                d = dotted(t)
                if d == "force_overwrite":
                    w.pop("force", None)
                if d in ("mode", "self.mode", "self._mode") and not (
                        isinstance(st, ast.Assign) and d != "mode" and dotted(st.value) == "mode"):
                    for k in [k for k in w if isinstance(k, tuple) and k[0] == "mode"]:
                        w.pop(k)
                if isinstance(t, ast.Name):
                    # a local that holds the open mode: `open_mode = "w"` in one branch, `"r"` in another
                    cv = const(st.value) if isinstance(st, ast.Assign) else None
                    if isinstance(cv, bytes):
                        cv = cv.decode()
                    if isinstance(cv, str) and len(cv) <= 3:
                        w[("strvar", t.id)] = cv
                    else:
                        w.pop(("strvar", t.id), None)
                if d in ("filename",):
                    w.pop("exists", None)
                if d and d.endswith("flags"):
                    txt = src(st.value)
                    if isinstance(st, ast.Assign):
                        w[("flag", d, "excl")] = "O_EXCL" in txt
                        w[("flag", d, "trunc")] = "O_TRUNC" in txt
                        w[("flag", d, "write")] = any(f in txt for f in ("O_WRONLY", "O_RDWR", "O_CREAT", "O_APPEND"))
                    else:
                        if "O_EXCL" in txt:
                            w[("flag", d, "excl")] = True
                        if "O_TRUNC" in txt:
                            w[("flag", d, "trunc")] = True
                        if any(f in txt for f in ("O_WRONLY", "O_RDWR", "O_CREAT", "O_APPEND")):
                            w[("flag", d, "write")] = True
        return w
    return transfer


def world_mode_is_write(world, mode_expr):
    """Is the site an *overwrite* in this world? (True / False)"""
    c = const(mode_expr)
    if isinstance(c, bytes):
        c = c.decode()
    if isinstance(c, str):
        return _is_destructive_mode(c)
    d = dotted(mode_expr)
    if isinstance(mode_expr, ast.Name) and ("strvar", mode_expr.id) in world:
        return _is_destructive_mode(world[("strvar", mode_expr.id)])
    if d in ("mode", "self.mode", "self._mode"):
        for k, v in world.items():
            if isinstance(k, tuple) and k[0] == "mode" and len(k) == 2:
                if k[1] == "w" and v is False:
                    return False
                if v is True:
                    return k[1] == "w"
        return True
    return True  # unknown expression: conservatively a write


def osopen_flags(world, flags_expr):
    """(write?, excl?, trunc?) of an os.open flags expression in this world."""
    d = dotted(flags_expr)
    txt = src(flags_expr)
    if d and ("flag", d, "write") in world:
        return world[("flag", d, "write")], world.get(("flag", d, "excl"), False), world.get(("flag", d, "trunc"), False)
    return (any(f in txt for f in ("O_WRONLY", "O_RDWR", "O_CREAT", "O_APPEND")), "O_EXCL" in txt, "O_TRUNC" in txt)


def world_guarded(world):
    return world.get("exists") is False or world.get("force") is True


def check(ctx):
    ctx.rule("C20-R1", "every destructive operation on the user's path is reached only in worlds where "
                       "exists(path) is false or force_overwrite is true (path-sensitive CFG analysis)")
    ctx.rule("C20-R2", "every save_* / open() passes its own force_overwrite to the file class it opens (every numbered file too)")
    ctx.rule("C20-R3", "constant open modes on user paths are r/rb/w/wb; constructors reject modes outside {r,w} (+documented exceptions)")
    ctx.rule("C20-R4", "no destructive operation is reachable in the call graph from load*/read*/seek/tell/__len__")

    files = _scope(ctx)
    funcs = {}   # (rel, qual) -> FuncInfo
    by_name = {}  # simple name -> list of FuncInfo   (functions and classes via their ctor)
    ctor_of = {}  # class name -> FuncInfo of __init__/__cinit__
    for rel in files:
        m = ctx.py.mod(rel)
        for q, fn in m.functions.items():
            if q.endswith((".getter", ".setter", ".deleter")) or "#" in q:
                continue
            parts = q.split(".")
            clsname = parts[-2] if len(parts) >= 2 and ".".join(parts[:-1]) in m.classes else None
            fi = FuncInfo(rel, q, fn, clsname)
            funcs[(rel, q)] = fi
            ctx.analysed_functions.add(rel + ":" + q)
            by_name.setdefault(parts[-1], []).append(fi)
            if clsname and parts[-1] in ("__init__", "__cinit__"):
                if clsname not in ctor_of or parts[-1] == "__cinit__":
                    ctor_of[clsname] = fi

    # ---- summaries: which callables take force_overwrite (delegation targets) ----------
    delegating = {}  # simple callable name -> FuncInfo (has force_overwrite param)
    for cname, fi in ctor_of.items():
        if "force_overwrite" in fi.params:
            delegating[cname] = fi
    for (rel, q), fi in funcs.items():
        if fi.cls is None and "." not in q and "force_overwrite" in fi.params and q != "open":
            delegating[q] = fi   # (md.open shadows the builtin only inside trajectory.py; handled separately below)

    # ---- unguarded primitives: functions without a force_overwrite parameter that
    #      perform a destructive operation on one of their own parameters ------------
    prim_funcs = {}  # simple name -> (FuncInfo, param name)
    for (rel, q), fi in funcs.items():
        if "force_overwrite" in fi.params or fi.cls is not None:
            continue
        for n in walk_no_nested(fi.fn):
            if isinstance(n, ast.Call):
                c = classify_call(n)
                if c and c[1] is not None:
                    roots = names_of(c[1]) & set(fi.params)
                    if roots and (c[0] == "always" or world_mode_is_write({}, c[2])):
                        prim_funcs[q] = (fi, sorted(roots)[0])

    # ---- R1 ---------------------------------------------------------------------------
    lazy = []   # (FuncInfo, call, classification)  destructive sites on self.<path> outside the constructor
    for (rel, q), fi in sorted(funcs.items()):
        fn = fi.fn
        sites = []
        for n in walk_no_nested(fn):
            if isinstance(n, ast.Call):
                c = classify_call(n)
                d = call_name(n)
                if c is None and d is not None and d.split(".")[-1] in prim_funcs and d.split(".")[-1] != q:
                    c = ("always", n.args[0] if n.args else None, None)
                if c is not None:
                    sites.append((n, c))
        if not sites:
            continue
        is_ctor = q.split(".")[-1] in ("__init__", "__cinit__")
        has_force = "force_overwrite" in fi.params
        if not has_force and q in prim_funcs:
            # the function is itself a primitive: its callers carry the obligation
            continue
        if not has_force:
            for (n, c) in sites:
                if c[1] is not None and _fresh_temporary(fn, c[1]):
                    ctx.note("C20-R1", n, rel, q, "%s(%s)" % (call_name(n), _modestr(c)), "the path comes from tempfile.*: a fresh name, not a file of the user")
                    continue
                # destructive site in a function with no overwrite parameter: either a lazily
                # opened handle of a guarded object, or a read-mode open
                if c[0] == "mode" and not world_mode_is_write({}, c[2]):
                    continue
                if c[1] is not None and any(x.startswith("self.") for x in names_of(c[1])) and fi.cls:
                    lazy.append((fi, n, c))
                    continue
                if c[0] == "mode" and dotted(c[2]) in ("mode", "self.mode", "self._mode"):
                    # variable mode in a function that is not a guarded constructor
                    pass
                ctx.violated("C20-R1", n, rel, q, "%s(%s)" % (call_name(n), _modestr(c)),
                             "destructive operation in a function that has no force_overwrite parameter and is not a lazily-opening method")
            continue
        cfg = CFG(fn)
        aliases = _path_aliases(fn) or {"filename": frozenset()}
        W_of = {}
        for (n, c) in sites:
            # the guard must be a test of the very path this operation is given: exists(filename) says nothing about open(expanduser(filename))
            pcls = (_path_class(c[1], aliases) if c[1] is not None else None) or frozenset()
            if pcls not in W_of:
                W_of[pcls] = cfg.worlds_at(make_atom_of(aliases, pcls, fn), transfer=_transfer_factory(cfg))
            W = W_of[pcls]
            node = cfg.node_containing(n)
            if node is None:
                ctx.undecided("C20-R1", n, rel, q, call_name(n), "call site not located in the CFG")
                continue
            worlds = [dict(w) for w in W[node] if _feasible(dict(w))]
            desc = "%s(%s)" % (call_name(n), _modestr(c))
            if not worlds:
                ctx.note("C20-R1", n, rel, q, desc, "site unreachable")
                continue
            if c[0] == "mode":
                wr = [w for w in worlds if world_mode_is_write(w, c[2])]
            elif c[0] == "osopen":
                wr = [w for w in worlds if osopen_flags(w, c[2])[0]]
                # O_EXCL makes the OS refuse an existing path: as good as the explicit guard
                notrunc = [w for w in wr if not osopen_flags(w, c[2])[1] and not osopen_flags(w, c[2])[2]]
                ctx.decide(not notrunc, "C20-R3", n, rel, q, "os.open flags truncate or create exclusively",
                           "every write-mode world has O_TRUNC or O_EXCL",
                           "os.open for writing without O_TRUNC (world %s): with force_overwrite=True a longer existing file keeps its tail "
                           "(old content partly retained)" % (_fmt_world(notrunc[0]) if notrunc else ""))
                wr = [w for w in wr if not osopen_flags(w, c[2])[1]]
            else:
                wr = worlds
            if not wr:
                # a read-mode open: obligation of R4 only
                continue
            bad = [w for w in wr if not world_guarded(w)]
            if bad:
                ctx.violated("C20-R1", n, rel, q, desc,
                             "reached on a path where neither 'path does not exist' nor 'force_overwrite' is established%s: world %s"
                             % ((" for the path it is given (`%s` went through %s; an existence test of the path before that is a test of another file)"
                                 % (src(c[1]), "/".join(sorted(pcls)))) if pcls else "", _fmt_world(bad[0])))
            else:
                ctx.holds("C20-R1", n, rel, q, desc,
                          "all %d worlds reaching the site have exists=False or force=True" % len(wr))

    # lazily opening methods (DCD/DTR _initialize_write)
    for (fi, n, c) in lazy:
        desc = "%s(%s) lazy" % (call_name(n), _modestr(c))
        ctor = ctor_of.get(fi.cls)
        if ctor is None or "force_overwrite" not in ctor.params:
            ctx.violated("C20-R1", n, fi.rel, fi.qual, desc, "lazy destructive open in a class whose constructor has no force_overwrite guard")
            continue
        # (a) the constructor establishes the guard on every normal exit of the write branch
        cfg = CFG(ctor.fn)
        aliases = _path_aliases(ctor.fn) or {"filename": frozenset()}
        used_cls = {aliases.get(x) for x in names_of(c[1]) if x.startswith("self.") and x in aliases} or {frozenset()}
        W = cfg.worlds_at(make_atom_of(aliases, sorted(used_cls, key=sorted)[-1], ctor.fn), transfer=_transfer_factory(cfg))
        exitw = [dict(w) for w in W[cfg.exit] if _feasible(dict(w))]
        wr = [w for w in exitw if world_mode_is_write(w, ast.Name("mode"))]
        bad = [w for w in wr if not world_guarded(w)]
        # (b) the path attribute used is assigned from the filename parameter in the constructor
        used = {x for x in names_of(c[1]) if x.startswith("self.")}
        ok_attr = used <= set(aliases)
        # (c) the method is private to the object: every call is self.<m>() from the same class
        mname = fi.qual.split(".")[-1]
        foreign = []
        for (rel2, q2), f2 in funcs.items():
            for cl in walk_no_nested(f2.fn):
                if isinstance(cl, ast.Call):
                    d = call_name(cl)
                    if d and d.split(".")[-1] == mname:
                        if d == "self." + mname and f2.cls == fi.cls and rel2 == fi.rel:
                            continue
                        if d == "self." + mname and f2.cls and (rel2, q2.rsplit(".", 1)[0] + "." + mname) in funcs:
                            continue  # another class's own method of the same name
                        foreign.append("%s:%s" % (rel2, q2))
        if bad:
            ctx.violated("C20-R1", n, fi.rel, fi.qual, desc,
                         "constructor %s can return in write mode without the overwrite guard established: world %s"
                         % (ctor.qual, _fmt_world(bad[0])))
        elif not wr:
            ctx.undecided("C20-R1", n, fi.rel, fi.qual, desc, "constructor has no write-mode exit")
        elif not ok_attr:
            ctx.violated("C20-R1", n, fi.rel, fi.qual, desc,
                         "lazy open uses %s which is not assigned from the constructor's filename" % sorted(used - set(aliases)))
        elif foreign or not mname.startswith("_"):
            ctx.violated("C20-R1", n, fi.rel, fi.qual, desc,
                         "lazily opening method is callable from outside the guarded object: %s" % foreign)
        else:
            ctx.holds("C20-R1", n, fi.rel, fi.qual, desc,
                      "constructor guard holds on all %d write-mode exits; method private; path attribute from constructor" % len(wr))

    # ---- R2 plumbing ---------------------------------------------------------------------
    tr = ctx.py.mod("mdtraj/core/trajectory.py")
    savers = ctx.py.func("mdtraj/core/trajectory.py", "Trajectory._savers")
    saver_names = set()
    for n in ast.walk(savers):
        if isinstance(n, ast.Dict):
            for v in n.values:
                d = dotted(v)
                if d and d.startswith("self."):
                    saver_names.add(d[5:])
    if len(saver_names) < 15:
        raise AnalysisError("could not read the _savers() table (%d entries)" % len(saver_names))
    plumb = [("mdtraj/core/trajectory.py", "Trajectory." + sname) for sname in sorted(saver_names)]
    for sname in sorted(saver_names):
        ctx.py.func("mdtraj/core/trajectory.py", "Trajectory." + sname)   # vanished saver => analysis error
    for (rel, q), fi in sorted(funcs.items()):
        if "force_overwrite" in fi.params and (rel, q) not in plumb:
            plumb.append((rel, q))
    # Trajectory.save: every way to return normally goes through the format's saver (which carries the existence check and the truncation) with the
    # caller's path and options - an early return (nothing to write, unknown option ...) would neither refuse an existing file nor replace it
    sv = funcs.get((tr.rel, "Trajectory.save"))
    if sv is None:
        raise AnalysisError("Trajectory.save not found")
    cfg_s = CFG(sv.fn)
    saver_nodes = set()
    for n_ in cfg_s.nodes():
        for e_ in cfg_s.own_exprs(n_):
            for c_ in ast.walk(e_):
                if isinstance(c_, ast.Call) and isinstance(c_.func, ast.Name) and c_.func.id not in ("_get_extension", "OSError", "str", "print") and c_.args and dotted(c_.args[0]) == "filename" \
                        and any(k_.arg is None for k_ in c_.keywords):
                    saver_nodes.add(n_)
    ok_s = bool(saver_nodes) and cfg_s.exit not in cfg_s.reachable(cfg_s.entry, removed=saver_nodes)
    ctx.decide(ok_s, "C20-R2", sv.fn, tr.rel, "Trajectory.save", "every normal exit passes through saver(filename, **kwargs)", "",
               "Trajectory.save can return without calling the saver of the format: with force_overwrite=False an existing file is not refused, with True its old content stays" if saver_nodes else
               "the call saver(filename, **kwargs) was not found in Trajectory.save")
    for (rel, q) in plumb:
        fi = funcs[(rel, q)]
        fn = fi.fn
        is_saver = rel == tr.rel and q.startswith("Trajectory.save_")
        has_force = "force_overwrite" in params(fn)
        if not has_force:
            ctx.violated("C20-R2", fn, rel, q, "signature", "saver has no force_overwrite parameter")
            continue
        found = 0
        for n in walk_no_nested(fn):
            if not isinstance(n, ast.Call):
                continue
            d = call_name(n)
            if d is None:
                continue
            tail = d.split(".")[-1]
            if tail in delegating and delegating[tail] is not fi:
                callee = delegating[tail]
                cps = [p for p in callee.params if p != "self"]
                pos = cps.index("force_overwrite")
                v = kwarg(n, "force_overwrite", pos)
                modev = kwarg(n, "mode", cps.index("mode") if "mode" in cps else None)
                mc = const(modev) if modev is not None else "r"
                if isinstance(mc, str) and not _is_destructive_mode(mc):
                    continue   # opened for reading
                found += 1
                desc = "%s(...)#%d" % (tail, found)
                if v is None:
                    ctx.violated("C20-R2", n, rel, q, desc, "force_overwrite not passed: the callee's default (True) silently overwrites")
                elif not (isinstance(v, ast.Name) and v.id == "force_overwrite"):
                    ctx.violated("C20-R2", n, rel, q, desc, "force_overwrite argument is %s, not the caller's parameter" % src(v))
                else:
                    ctx.holds("C20-R2", n, rel, q, desc, "force_overwrite=force_overwrite")
            elif tail in prim_funcs:
                found += 1
                # unguarded primitive: the saver itself must guard (decided by R1 above), record plumbing
                ctx.holds("C20-R2", n, rel, q, "%s(...) primitive" % tail, "guard decided by C20-R1 at this call site")
        if found == 0 and is_saver:
            ctx.violated("C20-R2", fn, rel, q, "body", "saver opens no known file class (cannot establish plumbing)")
    # default of force_overwrite in savers must be what the docs state (True) - changing it is visible, skip.
    # Trajectory.save forwards **kwargs; open() forwards mode and force_overwrite
    fn = ctx.py.func("mdtraj/core/trajectory.py", "Trajectory.save")
    ok = False
    for n in walk_no_nested(fn):
        if isinstance(n, ast.Call) and call_name(n) == "saver":
            ok = any(k.arg is None and dotted(k.value) == "kwargs" for k in n.keywords)
            ctx.decide(ok, "C20-R2", n, tr.rel, "Trajectory.save", "saver(filename, **kwargs)",
                       "keyword arguments (force_overwrite) forwarded", "kwargs not forwarded to the saver")
    if not ok and not any(o.func == "Trajectory.save" for o in ctx.obs):
        ctx.undecided("C20-R2", fn, tr.rel, "Trajectory.save", "saver call", "call through the savers table not found")
    # ... and the dictionary that is forwarded still holds what the caller passed
    edits = [n for n in walk_no_nested(fn) if (isinstance(n, ast.Call) and isinstance(n.func, ast.Attribute) and dotted(n.func.value) == "kwargs" and n.func.attr in ("pop", "clear", "popitem", "update", "setdefault"))
             or (isinstance(n, (ast.Delete, ast.Assign)) and any(isinstance(t, ast.Subscript) and dotted(t.value) == "kwargs" for t in (n.targets if hasattr(n, "targets") else [])))
             or (isinstance(n, ast.Assign) and any(dotted(t) == "kwargs" for t in n.targets))]
    dropped = [n for n in edits if isinstance(n, ast.Call) and n.func.attr in ("pop", "clear", "popitem")] + [n for n in edits if isinstance(n, (ast.Delete, ast.Assign))]
    ctx.decide(not dropped, "C20-R2", dropped[0] if dropped else fn, tr.rel, "Trajectory.save", "kwargs reach the saver as given (no entry removed)", "",
               "`%s` removes an entry from the keyword arguments before they are forwarded: the format-specific saver no longer sees the caller's force_overwrite and falls back to its default (True), "
               "e.g. for the numbered files of the restart writers" % (src(dropped[0])[:60] if dropped else ""))
    fn = ctx.py.func("mdtraj/core/trajectory.py", "open")
    seen = False
    for n in walk_no_nested(fn):
        if isinstance(n, ast.Call) and call_name(n) == "loader":
            seen = True
            fo = kwarg(n, "force_overwrite")
            mo = kwarg(n, "mode")
            ctx.decide(isinstance(fo, ast.Name) and fo.id == "force_overwrite" and isinstance(mo, ast.Name) and mo.id == "mode",
                       "C20-R2", n, tr.rel, "open", "loader(filename, mode=, force_overwrite=)",
                       "mode and force_overwrite forwarded", "mode / force_overwrite not forwarded to the file class")
    if not seen:
        ctx.undecided("C20-R2", fn, tr.rel, "open", "loader call", "call through FormatRegistry.fileobjects not found")

    # ---- R3 modes ---------------------------------------------------------------------------
    for (rel, q), fi in sorted(funcs.items()):
        for n in walk_no_nested(fi.fn):
            if isinstance(n, ast.Call):
                c = classify_call(n)
                if c and c[0] == "mode":
                    m = const(c[2])
                    if isinstance(m, bytes):
                        m = m.decode()
                    if isinstance(m, str):
                        ok = m in ("r", "rb", "rt", "w", "wb", "wt")
                        ctx.decide(ok, "C20-R3", n, rel, q, "%s mode %r" % (call_name(n), m),
                                   "mode is read-only or truncating", "mode %r opens an existing file for in-place modification / append" % m)
    for cname, fi in sorted(ctor_of.items()):
        if "mode" not in fi.params or "force_overwrite" not in fi.params:
            continue
        allowed = _allowed_modes(fi.fn)
        extra, reason = MODE_EXCEPTIONS.get(cname, (set(), ""))
        if allowed is None:
            ctx.violated("C20-R3", fi.fn, fi.rel, fi.qual, "mode validation",
                         "constructor does not reject modes outside a constant set")
        else:
            bad = allowed - {"r", "w"} - extra
            ctx.decide(not bad, "C20-R3", fi.fn, fi.rel, fi.qual, "mode validation",
                       "accepted modes %s%s" % (sorted(allowed), (" (exception: %s)" % reason) if extra & allowed else ""),
                       "constructor accepts modes %s beyond read/truncating-write" % sorted(bad))

    # ---- R4 reading never writes --------------------------------------------------------------
    def direct_destructive(fi, mode_const=None):
        res = []
        feasible_nodes = None
        if mode_const is not None and "mode" in fi.params:
            # context: the caller passes a constant mode -> only sites feasible under mode == <const>
            cfg = CFG(fi.fn)
            W = cfg.worlds_at(make_atom_of(_path_aliases(fi.fn) or {"filename": frozenset()}), init={("mode", mode_const): True},
                              transfer=_transfer_factory(cfg))
            feasible_nodes = (cfg, {nd for nd in cfg.nodes() if any(_feasible(dict(w)) for w in W[nd])})
        for n in walk_no_nested(fi.fn):
            if isinstance(n, ast.Call):
                if feasible_nodes is not None:
                    nd = feasible_nodes[0].node_containing(n)
                    if nd is not None and nd not in feasible_nodes[1]:
                        continue
                c = classify_call(n)
                d = call_name(n)
                if c is not None:
                    if c[0] == "always":
                        res.append((n, "%s" % d))
                    else:
                        m = const(c[2])
                        if isinstance(m, bytes):
                            m = m.decode()
                        if isinstance(m, str):
                            if _is_destructive_mode(m):
                                res.append((n, "%s mode %r" % (d, m)))
                        elif dotted(c[2]) in ("mode", "self.mode", "self._mode"):
                            # variable mode: only constructors (decided by R1/worlds)
                            if fi.qual.split(".")[-1] not in ("__init__", "__cinit__"):
                                res.append((n, "%s mode=<variable>" % d))
                        else:
                            res.append((n, "%s mode=%s" % (d, src(c[2]))))
                elif d is not None:
                    tail = d.split(".")[-1]
                    if tail in prim_funcs:
                        res.append((n, "%s (unguarded primitive)" % d))
                    elif tail in delegating:
                        callee = delegating[tail]
                        cps = [p for p in callee.params if p != "self"]
                        if "mode" in cps:
                            mv = kwarg(n, "mode", cps.index("mode"))
                            mc = const(mv) if mv is not None else "r"
                            if isinstance(mc, bytes):
                                mc = mc.decode()
                            if not isinstance(mc, str) or _is_destructive_mode(mc):
                                if not (mv is not None and dotted(mv) == "mode"):
                                    res.append((n, "%s(mode=%s)" % (d, src(mv) if mv is not None else "r")))
                                else:
                                    res.append((n, "%s(mode=<variable>)" % d))
        return res

    def callees(fi):
        out = []
        m = ctx.py.mod(fi.rel)
        for n in walk_no_nested(fi.fn):
            if isinstance(n, ast.Call):
                d = call_name(n)
                if not d:
                    continue
                out_len = len(out)
                if d.startswith("self.") and d.count(".") == 1 and fi.cls:
                    pre = fi.qual.rsplit(".", 1)[0]
                    t = funcs.get((fi.rel, pre + "." + d[5:]))
                    if t:
                        out.append(t)
                elif "." not in d:
                    t = funcs.get((fi.rel, d))
                    if t is None:
                        cands = [x for x in by_name.get(d, []) if x.cls is None and "." not in x.qual]
                        t = cands[0] if len(cands) == 1 else None
                    if t:
                        out.append(t)
                # attach the constant mode argument, when there is one, to the edge
                if len(out) > out_len:
                    t = out[-1]
                    mc = None
                    if "mode" in t.params:
                        cps = [p for p in t.params if p != "self"]
                        mv = kwarg(n, "mode", cps.index("mode"))
                        mc = const(mv) if mv is not None else None
                        if isinstance(mc, bytes):
                            mc = mc.decode()
                    out[-1] = (t, mc if isinstance(mc, str) else None)
        return [(x if isinstance(x, tuple) else (x, None)) for x in out]

    for (rel, q), fi in sorted(funcs.items()):
        name = q.split(".")[-1]
        if not name.startswith(READ_ENTRY_PREFIXES):
            continue
        if name in ("read_as_traj",) or True:
            pass
        seen = set()
        stack = [(fi, [q], None)]
        found = []
        while stack:
            f, path, mc = stack.pop()
            if (f.rel, f.qual, mc) in seen or len(path) > 4:
                continue
            seen.add((f.rel, f.qual, mc))
            for (n, what) in direct_destructive(f, mc):
                # open(mode=<variable>) inside e.g. md.open is a factory, not a read entry point
                found.append((n, what, path, f))
            for (t, tmc) in callees(f):
                stack.append((t, path + [t.qual], tmc))
        if found:
            for (n, what, path, f) in found:
                ctx.violated("C20-R4", n, f.rel, q, what,
                             "destructive operation reachable from read entry point via %s" % " -> ".join(path))
        else:
            ctx.holds("C20-R4", fi.fn, rel, q, "call graph (depth<=4, %d functions)" % len(seen), "no destructive operation reachable")


def _allowed_modes(fn):
    """Constant set of modes outside which the constructor raises, or None."""
    # form 1:  if mode not in (...): raise
    for n in walk_no_nested(fn):
        if isinstance(n, ast.If) and isinstance(n.test, ast.Compare) and len(n.test.ops) == 1 \
                and isinstance(n.test.ops[0], ast.NotIn) and dotted(n.test.left) == "mode":
            c = const(n.test.comparators[0])
            if c is not None and any(isinstance(s, ast.Raise) for s in n.body):
                return set(c)
    # form 2:  if mode == 'r': ... elif mode == 'w': ... else: raise
    for n in walk_no_nested(fn):
        if isinstance(n, ast.If):
            vals = set()
            cur = n
            ok = True
            while True:
                v = _mode_value(cur.test)
                if v is None:
                    ok = False
                    break
                vals.add(v)
                if len(cur.orelse) == 1 and isinstance(cur.orelse[0], ast.If):
                    cur = cur.orelse[0]
                    continue
                if cur.orelse and any(isinstance(s, ast.Raise) for s in cur.orelse):
                    break
                ok = False
                break
            if ok and vals:
                return vals
    return None


def _modestr(c):
    if c[0] == "always":
        return "destroy"
    if c[0] == "osopen":
        return "flags=" + src(c[2])
    m = const(c[2])
    if isinstance(m, bytes):
        m = m.decode()
    return repr(m) if isinstance(m, str) else "mode=" + src(c[2])


def _fmt_world(w):
    if not w:
        return "{nothing known}"
    return "{" + ", ".join("%s=%s" % (k if isinstance(k, str) else (k[1] if k[0] == "strvar" else "mode==%r" % k[1] if len(k) == 2 else ".".join(k[1:])), v)
                           for k, v in sorted(w.items(), key=str)) + "}"
