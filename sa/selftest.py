"""Seeded-variant self-test of the checkers (both ways).

Each variant in ``sa/mutants.py`` is a small edit of one source file of the
repository.  It is applied to a scratch copy of the *tracked sources* of
/repo (created under $TMPDIR, outside /repo and /verif, removed afterwards),
the property's rules are run on the copy, and the outcome is compared with the
expectation: a firing variant must produce a new violation of the named rule
(naming the edited function when given), a twin (behaviour-preserving rewrite)
must stay silent.
"""
from __future__ import annotations

import contextlib
import io
import os
import shutil
import subprocess
import sys
import tempfile
import time

from . import core

EXTS = (".py", ".pyx", ".pxi", ".pxd", ".h", ".hpp", ".c", ".cpp", ".rst", ".cfg", ".toml")


def make_scratch(repo):
    base = tempfile.mkdtemp(prefix="mdtraj-sa-scratch-")
    try:
        out = subprocess.run(["git", "-C", repo, "ls-files", "mdtraj", "docs", "setup.py", "basesetup.py"],
                             capture_output=True, text=True, check=True).stdout.split("\n")
        files = [f for f in out if f]
    except Exception:
        files = []
        for dp, dn, fn in os.walk(os.path.join(repo, "mdtraj")):
            for f in fn:
                files.append(os.path.relpath(os.path.join(dp, f), repo))
        files += ["setup.py", "basesetup.py", "docs/atom_selection.rst"]
    for f in files:
        if not f.endswith(EXTS) or "/tests/" in f:
            continue
        s = os.path.join(repo, f)
        if not os.path.isfile(s):
            continue
        d = os.path.join(base, f)
        os.makedirs(os.path.dirname(d), exist_ok=True)
        shutil.copyfile(s, d)
    return base


def run_quiet(prop, repo):
    buf = io.StringIO()
    os.environ["VERIF_NO_EVIDENCE"] = "1"
    with contextlib.redirect_stdout(buf):
        rc = core.run_property(prop, "quick", repo)
    return rc, buf.getvalue()


def apply_variant(scratch, v):
    p = os.path.join(scratch, v["file"])
    with open(p, encoding="utf-8", newline="") as f:
        s = f.read()
    crlf = "\r\n" in s
    if crlf:
        s_cmp = s.replace("\r\n", "\n")
    else:
        s_cmp = s
    edits = v.get("edits") or [(v["old"], v["new"])]
    want = v.get("count", 1)
    new = s_cmp
    for (o_, n_) in edits:
        o_ = o_.replace("\r\n", "\n")
        c_ = new.count(o_)
        if c_ < 1 or (want != "all" and c_ != want):
            return None, s
        new = new.replace(o_, n_.replace("\r\n", "\n"))
    if crlf:
        new = new.replace("\n", "\r\n")
    with open(p, "w", encoding="utf-8", newline="") as f:
        f.write(new)
    return p, s


def _worker(args):
    prop, variants, repo = args
    scratch = make_scratch(repo)
    res = []
    try:
        # the clang AST cache is keyed by content digest, so scratch copies share it safely
        for v in variants:
            if v.get("patch"):
                r = subprocess.run(["git", "apply", "--whitespace=nowarn", v["patch"]], cwd=scratch, capture_output=True, text=True, env=dict(os.environ, GIT_DIR="/nonexistent", GIT_CEILING_DIRECTORIES=scratch))
                if r.returncode != 0:
                    r = subprocess.run(["patch", "-p1", "-s", "-f", "--no-backup-if-mismatch", "-i", v["patch"]], cwd=scratch, capture_output=True, text=True)
                    v = dict(v, _by_patch=True)
                if r.returncode != 0:
                    subprocess.run(["patch", "-p1", "-R", "-s", "-f", "--no-backup-if-mismatch", "-i", v["patch"]], cwd=scratch, capture_output=True)
                    shutil.rmtree(scratch, ignore_errors=True)
                    scratch = make_scratch(repo)
                    res.append((v["name"], "SKIP", "patch no longer applies"))
                    continue
                try:
                    rc, out = run_quiet(v["prop"], scratch)
                finally:
                    if v.get("_by_patch"):
                        subprocess.run(["patch", "-p1", "-R", "-s", "-f", "--no-backup-if-mismatch", "-i", v["patch"]], cwd=scratch, capture_output=True)
                    else:
                        subprocess.run(["git", "apply", "-R", "--whitespace=nowarn", v["patch"]], cwd=scratch, capture_output=True, env=dict(os.environ, GIT_DIR="/nonexistent", GIT_CEILING_DIRECTORIES=scratch))
                if v.get("expect", "*") is None:
                    ok = rc == 0
                    res.append((v["name"], "OK" if ok else "FAIL", "silent" if ok else "refactoring twin must be silent; rc=%d %s" % (rc, _viol(out))))
                    continue
                ok = rc == 1
                res.append((v["name"], "OK" if ok else "FAIL", "fires" if ok else "seeded change no longer detected; rc=%d %s" % (rc, _viol(out))))
                continue
            p, orig = apply_variant(scratch, v)
            if p is None:
                res.append((v["name"], "SKIP", "edit anchor not found (source changed?)"))
                continue
            try:
                rc, out = run_quiet(v["prop"], scratch)
            finally:
                with open(p, "w", encoding="utf-8", newline="") as f:
                    f.write(orig)
            exp = v.get("expect")
            if exp is None:
                ok = rc == 0
                res.append((v["name"], "OK" if ok else "FAIL", "twin must be silent; rc=%d %s" % (rc, _viol(out))))
            else:
                hit = [l for l in out.split("\n") if ("  " + exp + "  ") in l and not l.startswith(("NOTE", "KNOWN"))]
                if v.get("where"):
                    hit = [l for l in hit if v["where"] in l]
                ok = rc == 1 and bool(hit)
                res.append((v["name"], "OK" if ok else "FAIL",
                            ("fires %s" % exp) if ok else "expected %s at %s; rc=%d %s" % (exp, v.get("where", "?"), rc, _viol(out))))
    finally:
        shutil.rmtree(scratch, ignore_errors=True)
    return res


def _viol(out):
    ls = [l for l in out.split("\n") if "  C" in l and not l.startswith(("NOTE", "KNOWN", "VIOLATION"))][:3]
    ls += [l for l in out.split("\n") if l.startswith("ANALYSIS-ERROR")][:2]
    return " | ".join(ls)


def seeded_variants():
    """The independently written breaking changes kept under /verif/seeded/<id>/ (patch.diff + meta.json)."""
    import json
    res = []
    d = os.path.join(core.VERIF, "seeded")
    if not os.path.isdir(d):
        return res
    for name in sorted(os.listdir(d)):
        mp = os.path.join(d, name, "meta.json")
        pp = os.path.join(d, name, "patch.diff")
        if os.path.exists(mp) and os.path.exists(pp):
            meta = json.load(open(mp))
            if meta.get("caught"):
                # replay against the check that detects it (not always the property the author aimed at)
                fired = sorted((meta.get("checks_fired") or {}).keys())
                prop = meta["property"] if meta["property"] in fired or not fired else fired[0]
                res.append(dict(prop=prop, name="seeded/" + name, patch=pp, expect="*", file=None, old=None, new=None, where=None))
    return res


RENAME_TARGETS = [
    ("mdtraj/geometry/src/neighbors.cpp", "_compute_neighbors", ["C10", "C09", "C05"]),
    ("mdtraj/geometry/src/neighborlist.cpp", "getNeighbors", ["C10", "C09", "C08"]),
    ("mdtraj/geometry/src/neighborlist.cpp", "_compute_neighborlist", ["C10", "C09", "C08"]),
    ("mdtraj/geometry/src/sasa.cpp", "asa_frame", ["C13", "C08", "C09"]),
    ("mdtraj/geometry/src/sasa.cpp", "generate_sphere_points", ["C13"]),
    ("mdtraj/geometry/src/sasa.cpp", "sasa", ["C13", "C08"]),
    ("mdtraj/geometry/src/dssp.cpp", "calculate_beta_sheets", ["C15"]),
    ("mdtraj/geometry/src/dssp.cpp", "calculate_bends", ["C15", "C09", "C14"]),
    ("mdtraj/geometry/src/geometry.cpp", "kabsch_sander", ["C14", "C08", "C15", "C09"]),
    ("mdtraj/geometry/src/geometry.cpp", "ks_assign_hydrogens", ["C14", "C08", "C15", "C09"]),
    ("mdtraj/geometry/src/geometry.cpp", "ks_donor_acceptor", ["C14", "C09"]),
    ("mdtraj/geometry/src/geometry.cpp", "find_closest_contact", ["C09", "C05"]),
    ("mdtraj/geometry/src/geometry.cpp", "dist_mic_triclinic", ["C05", "C09", "C08"]),
    ("mdtraj/geometry/src/dridkernels.cpp", "drid_moments", ["C16", "C09"]),
    ("mdtraj/geometry/src/moments.cpp", "moments_push", ["C16"]),
    ("mdtraj/rmsd/src/theobald_rmsd.cpp", "msdFromMandG", ["C06"]),
    ("mdtraj/rmsd/src/theobald_rmsd.cpp", "DirectSolve", ["C06"]),
]


def rename_variants(repo):
    """Twins made on the fly: every local variable of a kernel is renamed (x -> x_rn). Behaviour is unchanged, every check must stay silent."""
    import re
    from . import cfront as C
    res = []
    cf = C.CFront(repo)
    for rel, fname, props in RENAME_TARGETS:
        try:
            fn = cf.function(rel, fname)
        except Exception:
            continue
        rng = fn.get("range", {})
        f = rng.get("begin", {}).get("file") or rng.get("begin", {}).get("expansionLoc", {}).get("file")
        if f and os.path.basename(f) != os.path.basename(rel):
            continue        # defined in an included header
        b, e = C.line(fn), rng.get("end", {}).get("line")
        path = os.path.join(repo, rel)
        if not (b and e and os.path.exists(path)):
            continue
        params_ = {p.get("name") for p in C.fparams(fn)}
        locs = {n for n, _, _ in C.local_decls(fn) if n not in params_}
        lines = open(path, encoding="utf-8").read().split("\n")
        seg = "\n".join(lines[b - 1:e])
        new = seg
        for nm in sorted(locs, key=len, reverse=True):
            new = re.sub(r"(?<![\w.>])%s\b" % re.escape(nm), nm + "_rn", new)
        if new == seg:
            continue
        for p_ in props:
            res.append(dict(prop=p_, name="%s on renamed locals of %s" % (p_, fname), file=rel, old=seg, new=new, expect=None, where=None, count=1))
    return res


def py_rename_variants(repo, props):
    """Twins made on the fly: the locals of every Python function a property's rules look at are renamed (x -> x_rn) through the AST."""
    import ast
    import importlib
    from . import pyfront
    res = []
    for P in props:
        try:
            mod = importlib.import_module("sa.rules." + P.lower())
            ctx = core.Ctx(P, repo, "quick")
            with contextlib.redirect_stdout(io.StringIO()):
                try:
                    mod.check(ctx)
                except Exception:
                    pass
        except Exception:
            continue
        funcs = sorted({(o.file, o.func) for o in ctx.obs if o.file.endswith(".py")} | {tuple(f.split(":", 1)) for f in ctx.analysed_functions if f.split(":")[0].endswith(".py")})
        for rel, qual in funcs:
            path = os.path.join(repo, rel)
            if not os.path.exists(path):
                continue
            src_ = open(path, encoding="utf-8").read()
            try:
                tree = ast.parse(src_)
            except SyntaxError:
                continue
            node = tree
            for part in qual.split("."):
                if part in ("getter", "setter") or "#" in part:
                    continue
                found = None
                for n in ast.walk(node):
                    if n is not node and isinstance(n, (ast.FunctionDef, ast.ClassDef)) and n.name == part:
                        found = n
                        break
                if found is None:
                    node = None
                    break
                node = found
            if not isinstance(node, ast.FunctionDef):
                continue
            names = pyfront.local_names(node)
            if not names:
                continue
            m = {n: n + "_rn" for n in names}
            for n in ast.walk(node):
                if isinstance(n, ast.Name) and n.id in m:
                    n.id = m[n.id]
                elif isinstance(n, ast.ExceptHandler) and n.name in m:
                    n.name = m[n.name]
            res.append(dict(prop=P, name="%s on renamed locals of %s:%s" % (P, rel.split("/")[-1], qual), file=rel, old=src_, new=ast.unparse(tree) + "\n", expect=None, where=None, count=1))
    return res


def claimed_properties():
    import json
    try:
        m = json.load(open(os.path.join(core.VERIF, "MANIFEST.json")))
        return sorted(c["property_id"] for c in m["checks"])
    except Exception:
        return []


def run_for(prop, jobs=None, repo=None):
    from . import mutants
    repo = repo or os.environ.get("VERIF_REPO", "/repo")
    vs = [v for v in mutants.VARIANTS + seeded_variants() if prop in ("ALL", v["prop"])]
    # behaviour-preserving refactorings written by independent sub-agents (/verif/twins): every claimed check must stay silent on each
    td = os.path.join(core.VERIF, "twins")
    if os.path.isdir(td):
        for name in sorted(os.listdir(td)):
            pp = os.path.join(td, name, "patch.diff")
            if os.path.exists(pp):
                for q in (claimed_properties() if prop == "ALL" else [prop]):
                    vs.append(dict(prop=q, name="%s on twins/%s" % (q, name), patch=pp, expect=None, file=None, old=None, new=None, where=None))
    # a check must also stay silent on the behaviour-preserving rewrites written for the *other* properties
    twins = [v for v in mutants.VARIANTS if v.get("expect") is None]
    claimed = set(claimed_properties())
    vs += [v for v in rename_variants(repo) if prop in ("ALL", v["prop"]) and (v["prop"] in claimed or not claimed)]
    props = claimed_properties() if prop == "ALL" else [prop]
    vs += py_rename_variants(repo, props)
    for q in props:
        for v in twins:
            if v["prop"] != q:
                vs.append(dict(v, prop=q, name="%s on %s/%s" % (q, v["prop"], v["name"])))
    if not vs:
        print("selftest %s: no seeded variants registered" % prop)
        return 0
    t0 = time.time()
    jobs = jobs or min(16, max(1, len(vs)))
    chunks = [vs[i::jobs] for i in range(jobs)]
    chunks = [c for c in chunks if c]
    results = []
    if len(chunks) == 1:
        results = _worker((prop, chunks[0], repo))
    else:
        import multiprocessing as mp
        with mp.get_context("fork").Pool(len(chunks)) as pool:
            for r in pool.map(_worker, [(prop, c, repo) for c in chunks]):
                results.extend(r)
    bad = [r for r in results if r[1] == "FAIL"]
    skipped = [r for r in results if r[1] == "SKIP"]
    for r in sorted(results):
        if r[1] != "OK":
            print("selftest %-5s %-45s %s" % (r[1], r[0], r[2]))
    print("selftest %s: %d variants, %d ok, %d failed, %d skipped, %.1fs" % (
        prop, len(results), len(results) - len(bad) - len(skipped), len(bad), len(skipped), time.time() - t0))
    if len(skipped) > len(results) // 3:
        print("selftest: too many variants no longer apply")
        return 1
    return 1 if bad else 0


def main(tier):
    return run_for("ALL")
