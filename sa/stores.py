"""Models of the array stores behind the binary formats that are written through Python (NetCDF variables, PyTables arrays): an on-disk array that
grows along its first axis, read and written with numpy-style subscripts.  HDF5TrajectoryFile / NetCDFTrajectoryFile are evaluated (sa/tensym.py) with
`self._handle` replaced by these models; nothing of netCDF4 / PyTables / scipy is involved."""
from __future__ import annotations

from . import formats as F
from .tensym import TenSym, Ten, Obj, Raised, Rat, Poly, INF

_UNSET = [0]


def _clamp(key, n):
    """slices that run to INF stop at the end of the array"""
    def one(k):
        if isinstance(k, Ten):
            # an index array evaluated earlier (ensure_type(atom_indices)): its entries
            cs = [x_.const_value() for x_ in k.data]
            if any(c_ is None or c_.denominator != 1 for c_ in cs):
                raise Raised("the analysed path raises: IndexError (non-integer index array)", "IndexError('index')")
            return [int(c_) for c_ in cs] if k.ndim == 1 else int(cs[0])
        if isinstance(k, slice):
            stop = k.stop
            if isinstance(stop, int) and stop >= INF // 2:
                stop = None
            return slice(k.start, stop, k.step)
        return k
    return tuple(one(k) for k in key) if isinstance(key, tuple) else one(key)


def grow_array(name, row_shape, units=None, auto_extend=True):
    """an array of shape (n, *row_shape), n growing: `a[lo:hi, ...] = x` beyond the end extends it (NetCDF unlimited dimension), `.append(x)` adds rows
    (PyTables EArray); reading is numpy subscripting of what is stored."""
    ev = TenSym({})
    o = Obj(tag="array " + name, name=name, _lenient=True)
    o._data = Ten((0,) + tuple(row_shape), [])
    o.attrs = Obj(units=units)
    o.units = units

    def rows(t):
        return t.shape[0]

    def extend(n_new):
        d = o._data
        per = 1
        for s_ in d.shape[1:]:
            per *= s_
        add = []
        for _ in range((n_new - d.shape[0]) * per):
            _UNSET[0] += 1
            add.append(Rat(Poly.var("unset#%d" % _UNSET[0])))
        o._data = Ten((n_new,) + d.shape[1:], list(d.data) + add)

    def getitem(self_, key):
        return ev.getitem(o._data, _clamp(key, rows(o._data)))

    def setitem(self_, key, value):
        k0 = key[0] if isinstance(key, tuple) else key
        if isinstance(k0, slice) and auto_extend:
            stop = k0.stop
            if isinstance(stop, int) and stop < INF // 2 and stop > rows(o._data):
                extend(stop)
        elif isinstance(k0, int) and auto_extend and k0 >= rows(o._data):
            extend(k0 + 1)
        ev.setitem(o._data, _clamp(key, rows(o._data)), value)

    def append(x):
        t = ev.to_ten(x)
        if t.shape[1:] != o._data.shape[1:]:
            raise Raised("the analysed path raises: ValueError (rows of shape %s appended to an array of rows %s)" % (t.shape[1:], o._data.shape[1:]), "ValueError('shape')")
        o._data = Ten((o._data.shape[0] + t.shape[0],) + o._data.shape[1:], list(o._data.data) + list(t.data))
    o._getitem, o._setitem, o.append = getitem, setitem, append
    o._getters = {"shape": lambda s_: tuple(o._data.shape), "n_frames": lambda s_: o._data.shape[0], "ndim": lambda s_: o._data.ndim}
    return o


def stored(arr):
    return arr._data


# ---------------------------------------------------------------------------------------------------
# NetCDF
# ---------------------------------------------------------------------------------------------------
def netcdf_file(ctx, mode, n_atoms=None, variables=None):
    """a NetCDFTrajectoryFile object on a model handle.  mode 'w': empty until the first write (its _initialize_headers is summarised: it creates the
    variables its flags ask for); mode 'r': the given variables"""
    rel, cls = F.rel_cls("nc")
    mod = ctx.py.mod(rel)
    vars_ = dict(variables or {})
    handle = Obj(tag="netcdf handle", variables=vars_, _lenient=True)
    handle.sync = lambda: None
    handle.flush = lambda: None
    me = Obj(tag="nc file", _mode=mode, _handle=handle, _frame_index=0, _needs_initialization=(mode == "w"), _closed=False, _open=True, distance_unit="angstroms", _n_atoms=n_atoms, _lenient=True)
    log = []

    def init_headers(n_atoms, set_coordinates=True, set_time=False, set_cell=False, **kw):
        log.append(("headers", dict(set_coordinates=set_coordinates, set_time=set_time, set_cell=set_cell)))
        me._n_atoms = n_atoms
        if set_coordinates:
            vars_["coordinates"] = grow_array("coordinates", (n_atoms, 3), "angstrom")
        if set_time:
            vars_["time"] = grow_array("time", (), "picosecond")
        if set_cell:
            vars_["cell_lengths"] = grow_array("cell_lengths", (3,), "angstrom")
            vars_["cell_angles"] = grow_array("cell_angles", (3,), "degree")
    me._initialize_headers = init_headers
    me._validate_open = lambda: None
    me._getters = {"n_atoms": lambda s_: s_._n_atoms, "n_frames": lambda s_: (vars_["coordinates"]._data.shape[0] if "coordinates" in vars_ else 0)}
    me._log = log
    return me


def run_method(ctx, key, me, method, models=None, assume=None, **kw):
    rel, cls = F.rel_cls(key)
    mod = ctx.py.mod(rel)
    fn = F.method(ctx, key, method)
    def ensure(ev, c):
        v = ev.ex(c.args[0])
        return ev.to_ten(v) if isinstance(v, (list, tuple)) else v       # ensure_type hands back an ndarray
    mm = {"ensure_type": ensure, "in_units_of": lambda ev, c: ev.ex(c.args[0]), "_check_mode": lambda ev, c: None, "warnings.warn": lambda ev, c: None,
          "cast_indices": lambda ev, c: ev.ex(c.args[0])}
    mm.update(models or {})
    ts = TenSym({}, funcs={q_: f_ for q_, f_ in mod.functions.items() if "." not in q_}, models=mm)
    ts.assume = assume
    return ts.run_fn(fn, self=me, **kw)
