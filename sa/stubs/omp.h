/* minimal omp.h for the analysis front-end (clang -fsyntax-only); declarations only */
#ifndef VERIF_STUB_OMP_H
#define VERIF_STUB_OMP_H
#ifdef __cplusplus
extern "C" {
#endif
typedef struct { void *_lk; } omp_lock_t;
typedef struct { void *_lk; } omp_nest_lock_t;
int omp_get_num_threads(void);
int omp_get_max_threads(void);
int omp_get_thread_num(void);
int omp_get_num_procs(void);
int omp_in_parallel(void);
void omp_set_num_threads(int);
void omp_set_dynamic(int);
int omp_get_dynamic(void);
void omp_set_nested(int);
int omp_get_nested(void);
int omp_get_thread_limit(void);
int omp_get_level(void);
int omp_get_team_size(int);
void omp_init_lock(omp_lock_t *);
void omp_destroy_lock(omp_lock_t *);
void omp_set_lock(omp_lock_t *);
void omp_unset_lock(omp_lock_t *);
int omp_test_lock(omp_lock_t *);
double omp_get_wtime(void);
double omp_get_wtick(void);
#ifdef __cplusplus
}
#endif
#endif
