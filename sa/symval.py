"""Algebraic value numbering over the clang JSON AST.

Every scalar (and every SIMD lane) a C function computes is carried as a rational
function (sa.poly.Rat) of input symbols; assignments substitute reaching definitions,
constant-trip loops are unrolled, `if` forks the state (few branches per kernel), calls
to functions defined in the same translation unit are inlined, a small table gives the
lane semantics of the SSE intrinsics the rmsd kernels use, and every other call becomes
an opaque symbol named after its canonical arguments.  No path condition is ever
solved: conditions are only recorded (normalised text + polarity) so a rule can pick
the state it wants to look at.
"""
from __future__ import annotations

import re
from fractions import Fraction

from . import cfront as C
from .poly import Poly, Rat, _r


class Unsupported(Exception):
    pass


class Ptr:
    __slots__ = ("base", "off")

    def __init__(self, base, off=0):
        self.base = base
        self.off = off          # int or Poly-valued Rat

    def __repr__(self):
        return "&%s[%s]" % (self.base, self.off)


class Addr:
    """address of a scalar / vector variable"""
    __slots__ = ("key",)

    def __init__(self, key):
        self.key = key

    def __repr__(self):
        return "&%s" % (self.key,)


class Vec(tuple):
    pass


class State:
    def __init__(self, env=None, conds=None):
        self.env = dict(env or {})
        self.conds = list(conds or [])
        self.cvals = []         # (canonical value of the condition, polarity), parallel to conds
        self.cexprs = []        # (value of the condition or None, polarity), parallel to conds
        self.reads = []         # ((array, offset), number of conditions in force) for every element read
        self.ret = None
        self.done = False
        self.loopctl = None     # 'break' / 'continue'
        self.calls = []         # (name, [values])

    def fork(self):
        s = State(self.env, self.conds)
        s.calls = list(self.calls)
        s.cvals = list(self.cvals)
        s.cexprs = list(self.cexprs)
        s.reads = list(self.reads)
        return s

    def sym(self, key):
        return Rat(Poly.var(_keyname(key)))

    def get(self, key):
        if isinstance(key, tuple):
            self.reads.append((key, len(self.cexprs)))
        if key not in self.env:
            self.env[key] = self.sym(key)
        return self.env[key]

    def cut(self, names, suffix="'"):
        """replace the values of `names` by fresh symbols (returns {name: old value})"""
        old = {}
        for n in names:
            old[n] = self.env.get(n)
            self.env[n] = Rat(Poly.var(_keyname(n) + suffix))
        return old


def _keyname(key):
    if isinstance(key, tuple):
        return "%s[%s]" % (key[0], key[1])
    return str(key)


def _const_int(v):
    if isinstance(v, Rat):
        c = v.const_value()
        if c is not None and c.denominator == 1:
            return int(c)
    return None


def _canon(v):
    if isinstance(v, Rat):
        return repr(v)
    return repr(v)


_INT_T = re.compile(r"^(const )?(unsigned |signed )?(int|long|long long|short|char|unsigned|size_t|bool)( const)?$")


def _is_int_type(n):
    return bool(_INT_T.match(C.qtype(n).strip()))


class SymExec:
    def __init__(self, cf=None, tu=None, call_model=None, max_unroll=128, inline_depth=3, symbolic_loops=()):
        self.cf = cf
        self.tu = tu
        self.call_model = call_model
        self.max_unroll = max_unroll
        self.inline_depth = inline_depth
        self._depth = 0
        self.symbolic_loops = set(symbolic_loops)   # loop variables kept symbolic: the body is evaluated once for a generic iteration
        self.loops_seen = []    # (variable, init, condition text) of the symbolic loops met
        self.opaque = {}        # symbol name -> (function name, [argument values])
        self.atoms = {}         # symbol name of a comparison / negation / conjunction -> ("cmp", op, a, b) | ("not", v) | ("and" | "or", a, b)
        self._scopes = []       # one set of local names per inlined call (callee locals are renamed name@depth)

    def _k(self, name):
        if self._scopes and name in self._scopes[-1]:
            return "%s@%d" % (name, len(self._scopes))
        return name

    # ------------------------------------------------------------------ statements
    def run(self, stmts, state):
        """Execute a list of statements; returns the list of resulting states (forks at ifs)."""
        states = [state]
        for s in stmts:
            nxt = []
            for st in states:
                if st.done or st.loopctl:
                    nxt.append(st)
                else:
                    nxt.extend(self.stmt(s, st))
            states = nxt
        return states

    def stmt(self, n, st):
        k = n["kind"]
        if k == "CompoundStmt":
            return self.run(C.kids(n), st)
        if k == "DeclStmt":
            for v in C.kids(n):
                if v["kind"] == "VarDecl":
                    self.vardecl(v, st)
            return [st]
        if k == "NullStmt":
            return [st]
        if k == "ReturnStmt":
            ks = C.kids(n)
            st.ret = self.expr(ks[0], st) if ks else None
            st.done = True
            return [st]
        if k == "BreakStmt":
            st.loopctl = "break"
            return [st]
        if k == "ContinueStmt":
            st.loopctl = "continue"
            return [st]
        if k == "IfStmt":
            ks = C.kids(n)
            cond = ks[0]
            cv = self.cond_const(cond, st)
            if cv is True:
                return self.stmt(ks[1], st)
            if cv is False:
                return self.stmt(ks[2], st) if len(ks) > 2 else [st]
            ctext = re.sub(r"\s", "", C.text(cond))
            cexpr = None
            try:
                cexpr = self.expr(cond, st)
                cval = _canon(cexpr)
            except Unsupported:
                cval = ctext
            # a condition already decided on this path keeps its truth value (no infeasible fork)
            known = next((pol for c_, pol in st.cvals if c_ == cval), None) if cexpr is not None else None
            if known is True:
                return self.stmt(ks[1], st)
            if known is False:
                return self.stmt(ks[2], st) if len(ks) > 2 else [st]
            a, b = st, st.fork()
            a.cexprs.append((cexpr, True))
            b.cexprs.append((cexpr, False))
            a.conds.append((ctext, True))
            b.conds.append((ctext, False))
            a.cvals.append((cval, True))
            b.cvals.append((cval, False))
            out = self.stmt(ks[1], a)
            out += self.stmt(ks[2], b) if len(ks) > 2 else [b]
            return out
        if k == "ForStmt":
            return self.forloop(n, st)
        if k in ("OMPParallelForDirective", "OMPParallelDirective", "OMPForDirective"):
            inner = [x for x in C.kids(n) if x["kind"] in ("ForStmt", "CompoundStmt", "CapturedStmt")]
            for x in C.walk(n):
                if x["kind"] == "ForStmt":
                    return self.stmt(x, st)
            return [st]
        if k == "SwitchStmt":
            return self.switch(n, st)
        if k in ("WhileStmt", "DoStmt"):
            raise Unsupported("statement kind %s at line %s" % (k, C.line(n)))
        # expression statement
        self.expr(n, st)
        return [st]

    def switch(self, n, st):
        """switch (v) { case L: ...; break; ... default: ... }: the statements from the label that equals v up to the next break / return.  v is compared
        with the labels as values (enum constants are distinct symbols); when v is not one of them the switch is entered once per label, under the
        condition v == label, and once past all labels (default, or nothing)"""
        ks = [x for x in C.kids(n)]
        body = [x for x in ks if x["kind"] == "CompoundStmt"]
        if not body:
            raise Unsupported("switch without a compound body at line %s" % C.line(n))
        cond = [x for x in ks if x is not body[-1]][-1]
        v = self.expr(cond, st)
        items = []          # (labels, statement): labels = values of the case labels in front of the statement, "default" for default

        def unwrap(s_, labels):
            if s_["kind"] == "CaseStmt":
                kk = C.kids(s_)
                return unwrap(kk[-1], labels + [self.expr(kk[0], st)])
            if s_["kind"] == "DefaultStmt":
                return unwrap(C.kids(s_)[-1], labels + ["default"])
            items.append((labels, s_))
        for s_ in C.kids(body[-1]):
            unwrap(s_, [])
        all_labels = [l_ for labs, _ in items for l_ in labs if not isinstance(l_, str)]

        def same(a_, b_):
            return isinstance(a_, Rat) and isinstance(b_, Rat) and (a_ - b_).n.is_zero()

        def run_from(k_, s0):
            cur, out = [s0], []
            for labs, stmt_ in items[k_:]:
                nxt = []
                for x_ in cur:
                    for y_ in self.stmt(stmt_, x_):
                        if y_.done:
                            out.append(y_)
                        elif y_.loopctl == "break":
                            y_.loopctl = None
                            out.append(y_)
                        elif y_.loopctl == "continue":
                            out.append(y_)          # belongs to an enclosing loop
                        else:
                            nxt.append(y_)
                cur = nxt
                if not cur:
                    break
            return out + cur
        decided = isinstance(v, Rat) and (v.const_value() is not None or any(same(v, l_) for l_ in all_labels) or
                                          (len(v.vars()) == 1 and v.poly() is not None and all(len(l_.vars()) == 1 for l_ in all_labels if isinstance(l_, Rat))
                                           and next(iter(v.vars())).isupper()))
        if decided:
            for k_, (labs, _) in enumerate(items):
                if any(same(v, l_) for l_ in labs if not isinstance(l_, str)):
                    return run_from(k_, st)
            for k_, (labs, _) in enumerate(items):
                if any(isinstance(l_, str) for l_ in labs):
                    return run_from(k_, st)
            return [st]
        out = []
        ctext = re.sub(r"\s", "", C.text(cond))
        for k_, (labs, _) in enumerate(items):
            for l_ in labs:
                if isinstance(l_, str):
                    continue
                b_ = st.fork()
                b_.conds.append(("%s==%s" % (ctext, repr(l_)), True))
                b_.cvals.append(("%s==%s" % (ctext, repr(l_)), True))
                b_.cexprs.append((None, True))
                out += run_from(k_, b_)
        rest = st.fork()
        rest.conds.append(("%s==<no label>" % ctext, True))
        rest.cvals.append(("%s==<no label>" % ctext, True))
        rest.cexprs.append((None, True))
        dk = next((k_ for k_, (labs, _) in enumerate(items) if any(isinstance(l_, str) for l_ in labs)), None)
        out += run_from(dk, rest) if dk is not None else [rest]
        return out

    def vardecl(self, v, st):
        name = self._k(v.get("name"))
        ks = [x for x in C.kids(v) if x["kind"] not in ("AlignedAttr", "UnusedAttr")]
        t = C.qtype(v)
        if "[" in t and not (ks and C.strip(ks[-1]).get("kind") == "InitListExpr"):
            st.env[name] = Ptr(name, 0)
            return
        if "vector<" in t.replace("std::", "") and not t.rstrip().endswith(("*", "&")):
            # a std::vector local: an array of its own (sized / filled by its constructor: element values unknown unless stored later)
            st.env[name] = Ptr(name, 0)
            return
        if ks:
            init = C.strip(ks[-1])
            if init.get("kind") == "InitListExpr":
                st.env[name] = Ptr(name, 0)
                self._initlist(name, init, st, ())
                return
            if init.get("kind") in ("CXXConstructExpr", "CXXTemporaryObjectExpr") and not C.kids(init) and "fvec4" not in C.qtype(init):
                st.env.pop(name, None)      # default-constructed object: no value to track
                return
            st.env[name] = self.expr(ks[-1], st)
        else:
            st.env.pop(name, None)

    def _initlist(self, name, init, st, prefix):
        for i, e in enumerate(C.kids(init)):
            e2 = C.strip(e)
            if e2.get("kind") == "InitListExpr":
                self._initlist(name, e2, st, prefix + (i,))
            else:
                idx = prefix + (i,)
                st.env[(name, idx[0] if len(idx) == 1 else idx)] = self.expr(e, st)

    def forloop(self, n, st):
        ks = n.get("inner", [])
        # clang: init, condvar(null), cond, inc, body
        parts = [x if isinstance(x, dict) and "kind" in x else None for x in ks]
        if len(parts) == 5:
            init, _, cond, inc, body = parts
        else:
            init, cond, inc, body = parts[0], parts[1], parts[2], parts[3]
        lv = None
        if init is not None and init.get("kind") == "DeclStmt":
            vds = [v for v in C.kids(init) if v["kind"] == "VarDecl"]
            lv = vds[0].get("name") if vds else None
        elif init is not None and init.get("kind") == "BinaryOperator" and init.get("opcode") == "=":
            lv = C.ref_name(C.kids(init)[0])
        symbolic = lv is not None and lv in self.symbolic_loops
        if lv is not None and not symbolic and "*" in self.symbolic_loops and cond is not None:
            # "*": every loop whose bound is not a constant iterates over a symbolic value of its variable, whatever the variable is called
            try:
                probe = st.fork()
                if init is not None:
                    self.stmt(init, probe)
                symbolic = self.cond_const(cond, probe) is None
            except Unsupported:
                symbolic = True
        if symbolic:
            self.loops_seen.append((lv, re.sub(r"\s", "", C.text(init)), re.sub(r"\s", "", C.text(cond)) if cond else ""))
            st.env[self._k(lv)] = Rat(Poly.var(lv))
            res = []
            for s2 in self.stmt(body, st):
                if s2.loopctl:
                    s2.loopctl = None
                res.append(s2)
            return res
        states = self.stmt(init, st) if init else [st]
        out = []
        for s0 in states:
            cur = [s0]
            for it in range(self.max_unroll + 1):
                nxt = []
                for s in cur:
                    cv = self.cond_const(cond, s) if cond else True
                    if cv is None:
                        raise Unsupported("loop bound not constant at line %s: %s" % (C.line(n), C.text(cond)))
                    if cv is False:
                        out.append(s)
                        continue
                    for s2 in self.stmt(body, s):
                        if s2.done:
                            out.append(s2)
                            continue
                        if s2.loopctl == "break":
                            s2.loopctl = None
                            out.append(s2)
                            continue
                        s2.loopctl = None
                        if inc:
                            self.expr(inc, s2)
                        nxt.append(s2)
                cur = nxt
                if not cur:
                    break
            else:
                raise Unsupported("loop at line %s exceeds the unroll bound" % C.line(n))
        return out

    def cond_const(self, cond, st):
        """True/False when the condition folds to a constant, else None."""
        try:
            v = self.expr(cond, st)
        except Unsupported:
            return None
        if isinstance(v, bool):
            return v
        c = v.const_value() if isinstance(v, Rat) else None
        if c is not None:
            return c != 0
        return None

    # ------------------------------------------------------------------ lvalues
    def lvalue(self, n, st):
        """-> key into env"""
        n = C.strip(n)
        k = n.get("kind")
        if k == "DeclRefExpr":
            return self._k(n["referencedDecl"].get("name"))
        if k == "ArraySubscriptExpr":
            ks = C.kids(n)
            base = self.expr(ks[0], st)
            idx = self.expr(ks[1], st)
            return self._elt(base, idx)
        if k == "UnaryOperator" and n.get("opcode") == "*":
            p = self.expr(C.kids(n)[0], st)
            if isinstance(p, Addr):
                return p.key
            return self._elt(p, _r(0))
        if k == "CXXOperatorCallExpr" and (C.callee_name(n) or "") == "operator[]":
            a = C.call_args(n)
            base = self.expr(a[0], st)
            idx = self.expr(a[1], st)
            return self._elt(base, idx)
        if k == "MemberExpr":
            ks = C.kids(n)
            base = C.strip(ks[0]) if ks else None
            bname = self._k(base["referencedDecl"].get("name")) if base is not None and base.get("kind") == "DeclRefExpr" else "this"
            return "%s.%s" % (bname, n.get("name"))
        raise Unsupported("lvalue %s at line %s" % (k, C.line(n)))

    def _elt(self, base, idx):
        if isinstance(base, Ptr):
            off = _r(base.off) + _r(idx)
            ci = _const_int(off)
            if ci is None:
                self.__dict__.setdefault("offvals", {})[repr(off)] = off        # the value behind the printed offset
                OFFVALS[repr(off)] = off
            if isinstance(base.base, tuple):      # row of a 2-d array
                return (base.base[0], base.base[1:] + ((ci if ci is not None else repr(off)),))
            return (base.base, ci if ci is not None else repr(off))
        raise Unsupported("subscript of non-pointer value %r" % (base,))

    # ------------------------------------------------------------------ expressions
    def expr(self, n, st):
        n = C.strip(n)
        k = n.get("kind")
        ks = C.kids(n)
        if k == "IntegerLiteral":
            return Rat(Poly.const(int(n.get("value"))))
        if k == "FloatingLiteral":
            return Rat(Poly.const(Fraction(str(n.get("value")))))
        if k == "CharacterLiteral":
            return Rat(Poly.const(int(n.get("value"))))
        if k == "CXXBoolLiteralExpr":
            return Rat(Poly.const(1 if n.get("value") else 0))
        if k in ("CXXNullPtrLiteralExpr", "GNUNullExpr"):
            return Ptr("NULL", 0)
        if k == "DeclRefExpr":
            name = n["referencedDecl"].get("name")
            if n["referencedDecl"].get("kind") == "EnumConstantDecl":
                return Rat(Poly.var(name))
            name = self._k(name)
            if name in st.env:
                return st.env[name]
            t = C.qtype(n)
            if "*" in t or "[" in t:
                st.env[name] = Ptr(name, 0)
                return st.env[name]
            if "__m128" in t or "__attribute__((__vector_size__" in t or t.replace("const ", "").strip() in ("fvec4", "ivec4"):
                lanes = 2 if ("__m128d" in t or "double" in t) else 4
                st.env[name] = Vec(Rat(Poly.var("%s.%d" % (name, i))) for i in range(lanes))
                return st.env[name]
            return st.get(name)
        if k == "ArraySubscriptExpr":
            base = self.expr(ks[0], st)
            idx = self.expr(ks[1], st)
            key = self._elt(base, idx)
            if "[" in C.qtype(n) or "*" in C.qtype(n):     # row of a 2-d array / pointer element
                if key in st.env:
                    return st.env[key]
                return Ptr((key[0],) + (key[1] if isinstance(key[1], tuple) else (key[1],)), 0)
            return st.get(key)
        if k == "MemberExpr":
            return st.get(self.lvalue(n, st))
        if k == "UnaryOperator":
            op = n.get("opcode")
            if op == "-":
                return -_val(self.expr(ks[0], st))
            if op == "+":
                return self.expr(ks[0], st)
            if op == "&":
                inner = C.strip(ks[0])
                if inner.get("kind") == "ArraySubscriptExpr":
                    ik = C.kids(inner)
                    base = self.expr(ik[0], st)
                    idx = self.expr(ik[1], st)
                    if isinstance(base, Ptr):
                        off = _r(base.off) + _r(idx)
                        ci = _const_int(off)
                        return Ptr(base.base, ci if ci is not None else off)
                key = self.lvalue(ks[0], st)
                if isinstance(key, tuple) and len(key) == 2 and not isinstance(key[0], tuple):
                    return Ptr(key[0], key[1] if isinstance(key[1], int) else _r(Poly.var(key[1])) if isinstance(key[1], str) and key[1].isidentifier() else key[1])    # &v[k] of a vector / operator[]
                return Addr(key)
            if op == "*":
                return st.get(self.lvalue(n, st))
            if op in ("++", "--"):
                key = self.lvalue(ks[0], st)
                old = st.get(key) if not isinstance(st.env.get(key), Ptr) else st.env[key]
                d = 1 if op == "++" else -1
                new = Ptr(old.base, _padd(old.off, d)) if isinstance(old, Ptr) else old + d
                st.env[key] = new
                return old if n.get("isPostfix") else new
            if op == "!":
                v = self.expr(ks[0], st)
                c = v.const_value() if isinstance(v, Rat) else None
                if c is not None:
                    return Rat(Poly.const(0 if c != 0 else 1))
                self.atoms["!(%s)" % _canon(v)] = ("not", v)
                return Rat(Poly.var("!(%s)" % _canon(v)))
            raise Unsupported("unary %s" % op)
        if k == "BinaryOperator":
            op = n.get("opcode")
            if op == "=":
                v = self.expr(ks[1], st)
                st.env[self.lvalue(ks[0], st)] = v
                return v
            if op == ",":
                self.expr(ks[0], st)
                return self.expr(ks[1], st)
            a = self.expr(ks[0], st)
            b = self.expr(ks[1], st)
            return self.binop(op, a, b, n)
        if k == "CompoundAssignOperator":
            op = n.get("opcode")[:-1]
            key = self.lvalue(ks[0], st)
            a = st.env[key] if isinstance(st.env.get(key), (Ptr, Vec)) else self.expr(ks[0], st)
            b = self.expr(ks[1], st)
            v = self.binop(op, a, b, n, lhs_node=ks[0])
            st.env[key] = v
            return v
        if k == "ConditionalOperator":
            c = self.expr(ks[0], st)
            cc = c.const_value() if isinstance(c, Rat) else None
            if cc is not None:
                return self.expr(ks[1] if cc != 0 else ks[2], st)
            a = self.expr(ks[1], st)
            b = self.expr(ks[2], st)
            if getattr(self, "ternary_model", None) is not None:
                r = self.ternary_model(c, a, b, n, st, self)
                if r is not None:
                    return r
            if isinstance(a, Rat) and isinstance(b, Rat) and isinstance(c, Rat):
                # c is assumed to be a 0/1 flag: c ? a : b  ==  c*a + (1-c)*b
                return c * a + (Rat(Poly.const(1)) - c) * b
            raise Unsupported("conditional on non-scalar")
        if k in ("CallExpr", "CXXMemberCallExpr", "CXXOperatorCallExpr"):
            return self.call(n, st)
        if k == "InitListExpr":
            return Vec(self.expr(e, st) for e in ks)
        if k in ("CXXConstructExpr", "CXXTemporaryObjectExpr", "CXXFunctionalCastExpr") and "fvec4" in C.qtype(n):
            vals = [self.expr(x, st) for x in ks]
            if len(vals) == 4:
                return Vec(_val(v) for v in vals)
            if len(vals) == 1:
                v = vals[0]
                if isinstance(v, Vec):
                    return v
                if isinstance(v, Ptr):
                    return _load(st, v, 4)
                return Vec([_val(v)] * 4)
            if not vals:
                return Vec([Rat(Poly.const(0))] * 4)
        if k in ("CXXConstructExpr", "CXXTemporaryObjectExpr") and len(ks) == 1:
            return self.expr(ks[0], st)
        if k == "UnaryExprOrTypeTraitExpr":
            return Rat(Poly.var("sizeof"))
        if k == "StringLiteral":
            return Rat(Poly.var("str"))
        if k == "PredefinedExpr":
            return Rat(Poly.var("str"))
        raise Unsupported("expression kind %s at line %s" % (k, C.line(n)))

    def binop(self, op, a, b, n, lhs_node=None):
        if isinstance(a, Ptr) or isinstance(b, Ptr):
            if op == "+" and isinstance(a, Ptr):
                return Ptr(a.base, _padd(a.off, b))
            if op == "+" and isinstance(b, Ptr):
                return Ptr(b.base, _padd(b.off, a))
            if op == "-" and isinstance(a, Ptr) and not isinstance(b, Ptr):
                return Ptr(a.base, _padd(a.off, -_val(b)))
            if op in ("==", "!="):
                if isinstance(a, Ptr) and isinstance(b, Ptr):
                    same = a.base == b.base and repr(a.off) == repr(b.off)
                    if a.base == b.base or "NULL" in (a.base, b.base) and a.base == b.base:
                        return Rat(Poly.const(int(same if op == "==" else not same)))
                    return Rat(Poly.var("(%r%s%r)" % (a, op, b)))
            raise Unsupported("pointer arithmetic %s" % op)
        if isinstance(a, Vec) or isinstance(b, Vec):
            raise Unsupported("operator %s on vector values" % op)
        a, b = _val(a), _val(b)
        if op == "+":
            return a + b
        if op == "-":
            return a - b
        if op == "*":
            return a * b
        if op == "/":
            int_div = _is_int_type(n) if lhs_node is None else _is_int_type(lhs_node)
            ca, cb = a.const_value(), b.const_value()
            if int_div:
                if ca is not None and cb is not None and cb != 0:
                    q = abs(ca) // abs(cb)
                    return Rat(Poly.const(q if (ca >= 0) == (cb > 0) else -q))
                return Rat(Poly.var("idiv(%s,%s)" % (_canon(a), _canon(b))))
            return a / b
        if op == "%":
            ca, cb = a.const_value(), b.const_value()
            if ca is not None and cb is not None and cb != 0:
                return Rat(Poly.const(int(ca) % int(cb)))
            return Rat(Poly.var("mod(%s,%s)" % (_canon(a), _canon(b))))
        if op in (">>", "<<"):
            ca, cb = a.const_value(), b.const_value()
            if ca is not None and cb is not None:
                return Rat(Poly.const(int(ca) >> int(cb) if op == ">>" else int(ca) << int(cb)))
            return Rat(Poly.var("%s(%s,%s)" % ("shr" if op == ">>" else "shl", _canon(a), _canon(b))))
        if op in ("|", "&", "^"):
            ca, cb = a.const_value(), b.const_value()
            if ca is not None and cb is not None:
                ia, ib = int(ca), int(cb)
                return Rat(Poly.const(ia | ib if op == "|" else ia & ib if op == "&" else ia ^ ib))
            return Rat(Poly.var("bit%s(%s,%s)" % (op, _canon(a), _canon(b))))
        if op in ("<", "<=", ">", ">=", "==", "!="):
            d = a - b
            c = d.const_value()
            if c is not None:
                r = {"<": c < 0, "<=": c <= 0, ">": c > 0, ">=": c >= 0, "==": c == 0, "!=": c != 0}[op]
                return Rat(Poly.const(int(r)))
            self.atoms["(%s%s%s)" % (_canon(a), op, _canon(b))] = ("cmp", op, a, b)
            return Rat(Poly.var("(%s%s%s)" % (_canon(a), op, _canon(b))))
        if op in ("&&", "||"):
            ca, cb = a.const_value(), b.const_value()
            if op == "&&" and (ca == 0 or cb == 0):
                return Rat(Poly.const(0))
            if op == "||" and ((ca is not None and ca != 0) or (cb is not None and cb != 0)):
                return Rat(Poly.const(1))
            if ca is not None and cb is not None:
                return Rat(Poly.const(int(bool(ca) and bool(cb)) if op == "&&" else int(bool(ca) or bool(cb))))
            # one side is a known constant that does not decide the result: the result is the truth value of the other side
            other = b if ca is not None else (a if cb is not None else None)
            if other is not None and _canon(other) in self.atoms:
                return other
            self.atoms["(%s%s%s)" % (_canon(a), op, _canon(b))] = ("and" if op == "&&" else "or", a, b)
            return Rat(Poly.var("(%s%s%s)" % (_canon(a), op, _canon(b))))
        raise Unsupported("binary %s" % op)

    # ------------------------------------------------------------------ calls
    def vec_operator(self, n, st):
        """fvec4 arithmetic (CXXOperatorCallExpr); returns NotImplemented when the operands are not lane vectors"""
        op = (C.callee_name(n) or "").replace("operator", "")
        argn = C.call_args(n)
        if op == "[]":
            base = self.expr(argn[0], st)
            if isinstance(base, Vec):
                i = _const_int(self.expr(argn[1], st))
                if i is None:
                    raise Unsupported("fvec4 lane index not constant")
                return base[i]
            if isinstance(base, Ptr):
                return st.get(self._elt(base, self.expr(argn[1], st)))
            return NotImplemented
        if op in ("+", "-", "*", "/") and len(argn) == 2:
            a, b = self.expr(argn[0], st), self.expr(argn[1], st)
            if not (isinstance(a, Vec) or isinstance(b, Vec)):
                return NotImplemented
            a = a if isinstance(a, Vec) else Vec([_val(a)] * 4)
            b = b if isinstance(b, Vec) else Vec([_val(b)] * 4)
            f = {"+": lambda x, y: x + y, "-": lambda x, y: x - y, "*": lambda x, y: x * y, "/": lambda x, y: x / y}[op]
            return Vec(f(x, y) for x, y in zip(a, b))
        if op == "-" and len(argn) == 1:
            a = self.expr(argn[0], st)
            if isinstance(a, Vec):
                return Vec(-x for x in a)
            return NotImplemented
        if op in ("+=", "-=", "*=", "/=") and len(argn) == 2:
            key = self.lvalue(argn[0], st)
            a = st.env.get(key)
            if not isinstance(a, Vec):
                return NotImplemented
            b = self.expr(argn[1], st)
            b = b if isinstance(b, Vec) else Vec([_val(b)] * 4)
            f = {"+": lambda x, y: x + y, "-": lambda x, y: x - y, "*": lambda x, y: x * y, "/": lambda x, y: x / y}[op[0]]
            st.env[key] = Vec(f(x, y) for x, y in zip(a, b))
            return st.env[key]
        if op == "=" and len(argn) == 2:
            v = self.expr(argn[1], st)
            st.env[self.lvalue(argn[0], st)] = v
            return v
        return NotImplemented

    def call(self, n, st):
        if n.get("kind") == "CXXOperatorCallExpr":
            r = self.vec_operator(n, st)
            if r is not NotImplemented:
                return r
        if n.get("kind") == "CXXMemberCallExpr" and (C.callee_name(n) or "") == "store":
            ks = C.kids(n)
            obj = C.kids(C.strip(ks[0]))[0] if ks and C.kids(C.strip(ks[0])) else None
            v = self.expr(obj, st) if obj is not None else None
            if isinstance(v, Vec):
                tgt = self.expr(C.call_args(n)[0], st)
                _store(st, tgt, v, 4)
                return Rat(Poly.const(0))
        name = C.callee_name(n) or "?"
        name = _MATH.get(name, name)
        argn = C.call_args(n)
        if name in ("fprintf", "printf", "assert", "__assert_fail"):
            return Rat(Poly.const(0))
        try:
            args = [self.expr(a, st) for a in argn]
        except Unsupported:
            if n.get("kind") == "CXXMemberCallExpr" and name in ("resize", "assign", "reserve", "clear"):
                return Rat(Poly.const(0))       # (re)sizing of a container with a constructed element value: no scalar effect
            raise
        st.calls.append((name, args))
        if self.call_model is not None:
            r = self.call_model(name, args, n, st, self)
            if r is not None:
                return r
        r = _intrinsic(name, args, st)
        if r is not NotImplemented:
            return r
        if name in _MATH_FUNCS and not any(isinstance(a, (Ptr, Addr, Vec)) for a in args):
            return self.opaque_call(name, args)
        if name in _MATH_FUNCS and len(args) == 1 and isinstance(args[0], Vec):
            return Vec(self.opaque_call(name, [x]) for x in args[0])
        # inline a function defined in the same translation unit
        if self.cf is not None and self.tu is not None and self._depth < self.inline_depth:
            try:
                fn = self.cf.function(self.tu, name)
            except Exception:
                fn = None
            if fn is not None and C.body_of(fn) is not None:
                return self.inline(fn, args, st, argn)
        if any(isinstance(a, (Ptr, Addr, Vec)) for a in args):
            raise Unsupported("call to %s with pointer/vector arguments and no model" % name)
        return self.opaque_call(name, args)

    def opaque_call(self, name, args):
        for sym, (f, a) in self.opaque.items():
            if f == name and len(a) == len(args) and all(x == y for x, y in zip(a, args)):
                return Rat(Poly.var(sym))
        sym = "%s(%s)" % (name, ",".join(_canon(a) for a in args))
        self.opaque[sym] = (name, list(args))
        return Rat(Poly.var(sym))

    def inline(self, fn, args, st, argn=None):
        ps = C.fparams(fn)
        saved = {}
        # parameters passed by non-const reference: what the callee leaves in them is written back to the caller's variable
        backrefs = []
        if argn is not None:
            for p, an in zip(ps, argn):
                t = C.qtype(p)
                if t.rstrip().endswith("&") and not t.lstrip().startswith("const"):
                    try:
                        backrefs.append((p.get("name"), self.lvalue(an, st)))
                    except Unsupported:
                        pass
        scope = {p.get("name") for p in ps} | {v.get("name") for v in C.walk(C.body_of(fn)) if v["kind"] == "VarDecl"}
        self._scopes.append(scope)
        for p, a in zip(ps, args):
            pn = self._k(p.get("name"))
            saved[pn] = st.env.get(pn, _MISSING)
            st.env[pn] = a
        self._depth += 1
        try:
            sub = self.run(C.kids(C.body_of(fn)), st)
        finally:
            self._depth -= 1
            self._scopes.pop()
        if len(sub) != 1:
            raise Unsupported("inlined function %s forks" % fn.get("name"))
        ret = sub[0].ret
        st.env = sub[0].env
        st.done = False
        st.ret = None
        if backrefs:
            self._scopes.append(scope)
            try:
                vals = [(key, st.env.get(self._k(pname))) for pname, key in backrefs]
            finally:
                self._scopes.pop()
            for key, v in vals:
                if v is not None:
                    st.env[key] = v
        for pn, v in saved.items():
            if v is _MISSING:
                st.env.pop(pn, None)
            else:
                st.env[pn] = v
        return ret if ret is not None else Rat(Poly.const(0))


_MISSING = object()


def _val(v):
    if isinstance(v, Rat):
        return v
    if isinstance(v, (int, Fraction)):
        return Rat(Poly.const(v))
    if isinstance(v, bool):
        return Rat(Poly.const(int(v)))
    raise Unsupported("scalar expected, got %r" % (v,))


def _padd(off, d):
    d = _val(d) if not isinstance(d, int) else d
    if isinstance(off, int) and isinstance(d, int):
        return off + d
    r = _r(off) + _r(d)
    ci = _const_int(r)
    return ci if ci is not None else r


# ---------------------------------------------------------------------- SSE lane semantics
def _load(st, p, n):
    if not isinstance(p, Ptr):
        raise Unsupported("vector load through %r" % (p,))
    out = []
    for i in range(n):
        off = _padd(p.off, i)
        key = (p.base, off if isinstance(off, int) else repr(off))
        out.append(st.get(key))
    return Vec(out)


OFFVALS = {}


def _store(st, p, v, n):
    if isinstance(p, Addr):
        if n == 1:
            st.env[p.key] = v[0]
            return
        raise Unsupported("vector store to scalar")
    for i in range(n):
        off = _padd(p.off, i)
        if not isinstance(off, int):
            OFFVALS[repr(off)] = off        # the value behind the printed offset
        st.env[(p.base, off if isinstance(off, int) else repr(off))] = v[i]


def _deref(st, p):
    if isinstance(p, Addr):
        return st.get(p.key)
    return _load(st, p, 1)[0]


def _intrinsic(name, a, st):
    z = Rat(Poly.const(0))
    if name in ("dot3", "dot4") and len(a) == 2 and isinstance(a[0], Vec) and isinstance(a[1], Vec):
        k = 3 if name == "dot3" else 4
        tot = z
        for i in range(k):
            tot = tot + a[0][i] * a[1][i]
        return tot
    if name == "cross" and len(a) == 2 and isinstance(a[0], Vec) and isinstance(a[1], Vec):
        x, y = a
        return Vec([x[1] * y[2] - x[2] * y[1], x[2] * y[0] - x[0] * y[2], x[0] * y[1] - x[1] * y[0], z])
    if name in ("_mm_setzero_ps",):
        return Vec([z] * 4)
    if name in ("_mm_setzero_pd",):
        return Vec([z] * 2)
    if name == "_mm_set_ps":
        return Vec([_val(a[3]), _val(a[2]), _val(a[1]), _val(a[0])])
    if name in ("_mm_set1_ps", "_mm_set_ps1"):
        return Vec([_val(a[0])] * 4)
    if name in ("_mm_load1_ps", "_mm_load_ps1"):
        return Vec([_deref(st, a[0])] * 4)
    if name in ("_mm_load_ps", "_mm_loadu_ps"):
        return _load(st, a[0], 4)
    if name in ("_mm_load_ss",):
        return Vec([_deref(st, a[0]), z, z, z])
    if name in ("_mm_store_ps", "_mm_storeu_ps"):
        _store(st, a[0], a[1], 4)
        return z
    if name in ("_mm_storeu_pd", "_mm_store_pd"):
        _store(st, a[0], a[1], 2)
        return z
    if name == "_mm_store_ss":
        _store(st, a[0], a[1], 1)
        return z
    if name in ("_mm_add_ps", "_mm_add_pd"):
        return Vec(x + y for x, y in zip(a[0], a[1]))
    if name in ("_mm_sub_ps", "_mm_sub_pd"):
        return Vec(x - y for x, y in zip(a[0], a[1]))
    if name in ("_mm_mul_ps", "_mm_mul_pd"):
        return Vec(x * y for x, y in zip(a[0], a[1]))
    if name == "_mm_add_ss":
        return Vec([a[0][0] + a[1][0], a[0][1], a[0][2], a[0][3]])
    if name == "_mm_hadd_ps":
        x, y = a
        return Vec([x[0] + x[1], x[2] + x[3], y[0] + y[1], y[2] + y[3]])
    if name == "_mm_unpacklo_ps":
        x, y = a
        return Vec([x[0], y[0], x[1], y[1]])
    if name == "_mm_unpackhi_ps":
        x, y = a
        return Vec([x[2], y[2], x[3], y[3]])
    if name == "_mm_movehl_ps":
        x, y = a
        return Vec([y[2], y[3], x[2], x[3]])
    if name == "_mm_movelh_ps":
        x, y = a
        return Vec([x[0], x[1], y[0], y[1]])
    if name in ("_mm_shuffle_ps", "__builtin_ia32_shufps"):
        x, y, imm = a
        i = _const_int(imm)
        if i is None:
            raise Unsupported("shuffle with non-constant immediate")
        return Vec([x[i & 3], x[(i >> 2) & 3], y[(i >> 4) & 3], y[(i >> 6) & 3]])
    if name in ("_mm_shuffle_epi32", "__builtin_ia32_pshufd"):
        x, imm = a
        i = _const_int(imm)
        if i is None:
            raise Unsupported("shuffle with non-constant immediate")
        return Vec([x[i & 3], x[(i >> 2) & 3], x[(i >> 4) & 3], x[(i >> 6) & 3]])
    if name in ("_mm_castps_si128", "_mm_castsi128_ps", "_mm_castps_pd", "_mm_castpd_ps"):
        return a[0]
    if name == "_mm_cvtps_pd":
        return Vec([a[0][0], a[0][1]])
    if name == "_mm_cvtpd_ps":
        return Vec([a[0][0], a[0][1], z, z])
    return NotImplemented


_MATH_FUNCS = {"cbrt", "sqrt", "cos", "sin", "tan", "acos", "asin", "atan", "atan2", "fabs", "floor", "ceil", "round", "exp", "log", "pow", "fmin", "fmax"}
_MATH = {}
for _f in _MATH_FUNCS:
    for _v in (_f + "f", _f + "l", "__builtin_" + _f, "__builtin_" + _f + "f", "__builtin_" + _f + "l"):
        _MATH[_v] = _f


def elementary_facts(ex, value, polarity):
    """What is known when the condition `value` (a Rat produced by SymExec) has the given truth value, as a list of elementary facts
    (rel, d) with rel in '<', '<=', '==', '!=' meaning  d rel 0.  A disjunction that is true / a conjunction that is false yields a single
    ('or', [facts of each alternative]) entry.  Conditions are decoded from the values, so how the source spells them does not matter."""
    name = None
    if isinstance(value, str):
        name = value
    else:
        p = value.poly() if isinstance(value, Rat) else None
        if p is not None and len(p.t) == 1:
            (m, c), = p.t.items()
            if c == 1 and len(m) == 1 and m[0][1] == 1:
                name = m[0][0]
    at = ex.atoms.get(name) if name is not None else None
    if at is None:
        v = Rat(Poly.var(name)) if isinstance(value, str) else value
        return [("!=" if polarity else "==", v)]
    if at[0] == "not":
        return elementary_facts(ex, at[1], not polarity)
    if at[0] == "cmp":
        _, op, a, b = at
        if not polarity:
            op = {"<": ">=", "<=": ">", ">": "<=", ">=": "<", "==": "!=", "!=": "=="}[op]
        if op == "<":
            return [("<", a - b)]
        if op == "<=":
            return [("<=", a - b)]
        if op == ">":
            return [("<", b - a)]
        if op == ">=":
            return [("<=", b - a)]
        return [(op, a - b)]
    kind, a, b = at
    if (kind == "and") == polarity:
        return elementary_facts(ex, a, polarity) + elementary_facts(ex, b, polarity)
    return [("or", [elementary_facts(ex, a, polarity), elementary_facts(ex, b, polarity)])]


def has_fact(facts, rel, d):
    """(rel, d) or an equivalent spelling is among the elementary facts ('==' / '!=' up to sign)"""
    for f in facts:
        if f[0] != rel:
            continue
        if f[1] == d or (rel in ("==", "!=") and f[1] == Rat(Poly.const(0)) - d):
            return True
    return False
