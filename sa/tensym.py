"""Value numbering of numpy array code on a generic instance of every axis.

sa/pysym.py carries scalars and short vectors.  Descriptor code (centres, gyration and
inertia tensors, Q tensor, dipole moments, Rg ...) is written with whole-array numpy
operations whose meaning lies in *which axis* is reduced, broadcast or contracted.
This evaluator gives every array a concrete small shape with pairwise different axis
lengths (2 frames x 4 atoms x 3 components by default) and distinct symbols as elements,
and evaluates the function's statements with its own model of the numpy operations
(broadcasting, basic indexing, transpose / reshape / expand_dims, sum / mean over axes,
dot, general einsum, eye / zeros / empty, element and slice stores, python `for` loops
over arrays and ranges, calls into other analysed functions by inlining their AST) into
arrays of rational normal forms (sa.poly.Rat).  Nothing of the analysed package is
executed; the model is this file.

What a verdict means: HOLDS = on the generic instance the function's result is,
element for element, the same rational function of the inputs as the documented
formula evaluated by the rule.  Because the axis lengths differ, an operation applied
to the wrong axis either fails to broadcast (reported) or yields another polynomial.
The step from this instance to all shapes rests on the shape-uniformity of the numpy
operations in the model (stated as an assumption in the evidence).

`np.empty` fills with poison symbols (undef#k): an element that is never overwritten
shows up in the result and can equal no formula.  Unknown constructs raise Unsupported
(the caller reports UNDECIDED).
"""
from __future__ import annotations

import ast
import itertools
import re
from fractions import Fraction

from .poly import Poly, Rat, _r
from .pyfront import dotted, call_name, src, walk_no_nested
from .pysym import PySym, Unsupported, PI
from .ttext import TText


def prod(xs):
    r = 1
    for x in xs:
        r *= x
    return r


class ViewData:
    """The elements of a numpy view: positions `idx` of the element list `root` of the array that owns the memory.  Reads and
    writes go through to the owner, so in-place updates of a view are seen by every array that shares the memory."""
    __slots__ = ("root", "idx", "owner")

    def __init__(self, root, idx, owner=None):
        if isinstance(root, ViewData):
            root, idx, owner = root.root, [root.idx[i] for i in idx], root.owner
        self.root, self.idx, self.owner = root, list(idx), owner      # owner: the array whose memory this is (numpy's .base, chains collapsed)

    def __len__(self):
        return len(self.idx)

    def __iter__(self):
        return (self.root[i] for i in self.idx)

    def __getitem__(self, k):
        if isinstance(k, slice):
            return [self.root[i] for i in self.idx[k]]
        return self.root[self.idx[k]]

    def __setitem__(self, k, v):
        if isinstance(k, slice):
            v = list(v)
            ids = self.idx[k]
            if len(ids) != len(v):
                raise Unsupported("internal: view assignment of %d values to %d elements" % (len(v), len(ids)))
            for i, x in zip(ids, v):
                self.root[i] = x
        else:
            self.root[self.idx[k]] = v

    def address(self):
        return ("addr", id(self.root), self.idx[0] if self.idx else -1)


class Ten:
    """Dense row-major array of Rat."""
    __slots__ = ("shape", "data", "view", "isbool")

    def __init__(self, shape, data):
        self.shape = tuple(int(s) for s in shape)
        self.data = list(data)
        self.view = False
        self.isbool = False         # a mask produced by a comparison / logical operation: as an index it selects, it does not count
        if len(self.data) != prod(self.shape):
            raise Unsupported("internal: %d elements for shape %s" % (len(self.data), self.shape))

    @staticmethod
    def sym(name, shape):
        idx = list(itertools.product(*[range(s) for s in shape]))
        return Ten(shape, [Rat(Poly.var("%s[%s]" % (name, ",".join(map(str, i))))) for i in idx])

    @staticmethod
    def full(shape, v):
        return Ten(shape, [v] * prod(shape))

    @property
    def ndim(self):
        return len(self.shape)

    def strides(self):
        st, acc = [], 1
        for s in reversed(self.shape):
            st.append(acc)
            acc *= s
        return tuple(reversed(st))

    def at(self, multi):
        off = 0
        for i, s in zip(multi, self.strides()):
            off += i * s
        return self.data[off]

    def indices(self):
        return itertools.product(*[range(s) for s in self.shape])

    def map(self, f):
        return Ten(self.shape, [f(x) for x in self.data])

    def transpose(self, perm=None):
        perm = tuple(reversed(range(self.ndim))) if perm is None else tuple(p % self.ndim for p in perm)
        if sorted(perm) != list(range(self.ndim)):
            raise Unsupported("transpose axes %s for %d dimensions" % (perm, self.ndim))
        shape = tuple(self.shape[p] for p in perm)
        out = []
        for multi in itertools.product(*[range(s) for s in shape]):
            src_ = [0] * self.ndim
            for k, p in enumerate(perm):
                src_[p] = multi[k]
            out.append(self.at(src_))
        return Ten(shape, out)

    def reshape(self, shape):
        shape = list(shape)
        if shape.count(-1) == 1:
            known = prod(s for s in shape if s != -1)
            if known == 0 or len(self.data) % known:
                raise Unsupported("reshape %s of %s" % (shape, self.shape))
            shape[shape.index(-1)] = len(self.data) // known
        if prod(shape) != len(self.data):
            raise ShapeError("cannot reshape array of shape %s into %s" % (self.shape, tuple(shape)))
        r = Ten(shape, self.data)
        # numpy: reshaping a contiguous array gives a view of the same memory (an in-place update of either is seen by the other)
        if isinstance(self.data, ViewData):
            idx = self.data.idx
            if all(b - a == 1 for a, b in zip(idx, idx[1:])):
                r.data = ViewData(self.data, range(len(idx)))
                r.view = True
        elif len(self.data) > 0:
            r.data = ViewData(self.data, range(len(self.data)), owner=self)
            r.view = True
        isb = getattr(self, "isbool", False)
        r.isbool = isb
        return r

    def reduce(self, axis, keepdims=False, mean=False, op=None):
        axes = tuple(range(self.ndim)) if axis is None else tuple(a % self.ndim for a in (axis if isinstance(axis, (tuple, list)) else (axis,)))
        keep = [k for k in range(self.ndim) if k not in axes]
        shape = tuple(self.shape[k] for k in keep)
        n = prod(self.shape[k] for k in axes)
        out = []
        for multi in itertools.product(*[range(s) for s in shape]):
            tot = None
            for red in itertools.product(*[range(self.shape[k]) for k in axes]):
                full = [0] * self.ndim
                for k, v in zip(keep, multi):
                    full[k] = v
                for k, v in zip(axes, red):
                    full[k] = v
                e = self.at(full)
                tot = e if tot is None else (op(tot, e) if op else tot + e)
            if tot is None:
                tot = Rat(Poly.const(0))
            out.append(tot / n if mean else tot)
        res = Ten(shape, out)
        if keepdims:
            res = res.reshape([1 if k in axes else self.shape[k] for k in range(self.ndim)])
        return res

    def __repr__(self):
        return "Ten%s" % (self.shape,)


INF = 10 ** 9


class FVal:
    """a value formatted into an f-string"""
    def __init__(self, value, spec="", conv=-1, pct=False):
        self.value, self.spec, self.conv, self.pct = value, spec, conv, pct     # pct: %-style (text right-aligned by default), else {}-style

    def __repr__(self):
        return "{%r:%s}" % (self.value, self.spec)


class FStr:
    """an f-string: literal pieces (str) and FVal pieces, in order"""
    def __init__(self, parts):
        self.parts = parts

    def values(self):
        return [p.value for p in self.parts if isinstance(p, FVal)]

    def template(self):
        return "".join(p if isinstance(p, str) else "{:%s}" % p.spec for p in self.parts)

    def __repr__(self):
        return "f" + repr("".join(p if isinstance(p, str) else repr(p) for p in self.parts))


class PSet(list):
    """a Python set of model objects / values, kept in insertion order (membership by identity for model objects)"""
    def add(self, x):
        if not any(y is x or (not isinstance(x, Obj) and not isinstance(y, Obj) and y == x) for y in self):
            self.append(x)


class NDIndex:
    """an integer index array of two or more dimensions, as a subscript"""
    def __init__(self, shape, flat):
        self.shape, self.flat = tuple(shape), list(flat)


class NeedChoice(Exception):
    """a test that depends on symbolic values was met and no answer is scheduled for it (run_paths re-runs with both answers)"""


class Raised(Unsupported):
    """The analysed path ends in a `raise` statement of the analysed code; .exc is the source of the exception expression."""
    def __init__(self, msg, exc=""):
        Unsupported.__init__(self, msg)
        self.exc = exc


class ShapeError(Unsupported):
    """A shape mismatch in the analysed code (numpy would raise): reported, not 'unsupported'."""


class Obj:
    """Model object: attributes in a dict (traj, topology, atoms ...)."""
    def __init__(self, **kw):
        self.__dict__.update(kw)


def bshape(a, b):
    n = max(len(a), len(b))
    a2 = (1,) * (n - len(a)) + tuple(a)
    b2 = (1,) * (n - len(b)) + tuple(b)
    out = []
    for x, y in zip(a2, b2):
        if x == y or y == 1:
            out.append(x)
        elif x == 1:
            out.append(y)
        else:
            raise ShapeError("operands could not be broadcast together with shapes %s %s" % (tuple(a), tuple(b)))
    return tuple(out)


def bcast(t, shape):
    if t.shape == tuple(shape):
        return t
    n = len(shape)
    s2 = (1,) * (n - t.ndim) + t.shape
    t2 = Ten(s2, t.data)
    out = []
    for multi in itertools.product(*[range(s) for s in shape]):
        out.append(t2.at([0 if s2[k] == 1 else multi[k] for k in range(n)]))
    return Ten(shape, out)


def einsum(spec, ops):
    spec = spec.replace(" ", "")
    if "->" in spec:
        ins, out = spec.split("->")
    else:
        ins, out = spec, None
    ins = ins.split(",")
    if len(ins) != len(ops):
        raise Unsupported("einsum %r with %d operands" % (spec, len(ops)))
    # expand ellipsis into upper-case letters
    ell = 0
    for s, o in zip(ins, ops):
        if "..." in s:
            ell = max(ell, o.ndim - len(s.replace("...", "")))
    E = "ABCDEFGH"[:ell]
    ins2 = []
    for s, o in zip(ins, ops):
        if "..." in s:
            k = o.ndim - len(s.replace("...", ""))
            s = s.replace("...", E[ell - k:] if k else "")
        if len(s) != o.ndim:
            raise ShapeError("einsum subscripts %r do not match an operand of %d dimensions" % (s, o.ndim))
        ins2.append(s)
    if out is None:
        letters = "".join(ins2)
        out = E + "".join(sorted(c for c in set(letters) if c not in E and letters.count(c) == 1))
    else:
        out = out.replace("...", E)
    dims = {}
    for s, o in zip(ins2, ops):
        for c, n in zip(s, o.shape):
            if dims.setdefault(c, n) != n:
                if dims[c] == 1:
                    dims[c] = n
                elif n != 1:
                    raise ShapeError("einsum index %r has sizes %d and %d" % (c, dims[c], n))
    summed = [c for c in dims if c not in out]
    shape = tuple(dims[c] for c in out)
    res = []
    for multi in itertools.product(*[range(n) for n in shape]):
        env = dict(zip(out, multi))
        tot = Rat(Poly.const(0))
        for red in itertools.product(*[range(dims[c]) for c in summed]):
            env.update(zip(summed, red))
            term = None
            for s, o in zip(ins2, ops):
                e = o.at([env[c] if o.shape[k] != 1 else 0 for k, c in enumerate(s)])
                term = e if term is None else term * e
            tot = tot + term
        res.append(tot)
    return Ten(shape, res)


_UNDEF = [0]


_NO_CONST = object()


class UndecidedTruth:
    """the value of a named test that depends on symbolic values (see the Assign case of TenSym.step)"""
    def __init__(self, why):
        self.why = why


class TenSym(PySym):
    def __init__(self, env=None, positive=(), funcs=None, parent=None, models=None):
        super().__init__(env, positive)
        self.funcs = funcs or {}        # name -> ast.FunctionDef, inlined at calls
        self.models = models if models is not None else (parent.models if parent is not None else {})   # name -> callable(evaluator, call node): summary of a callee
        self.calls = parent.calls if parent is not None else []     # log of opaque tensor functions: (name, [args], result)
        if parent is not None:
            self.opaque = parent.opaque
        self.depth = parent.depth + 1 if parent is not None else 0
        self.assume = parent.assume if parent is not None else None     # callable(source text of an undecidable test) -> True / False / None
        self.choices = parent.choices if parent is not None else None   # [bool, ...] answers for tests that depend on symbolic values (see run_paths)
        self.taken = parent.taken if parent is not None else []         # [(source of the test, answer)] in the order met
        self.classes = parent.classes if parent is not None else {}     # name -> ast.ClassDef: instantiated from their source (instantiate)
        self.generic_eq = parent.generic_eq if parent is not None else False    # symbolic scalars compare equal iff they are the same expression
        self.sampling = parent.sampling if parent is not None else False
        self.moderate = parent.moderate if parent is not None else False      # order comparisons of symbolic scalars are decided for moderate values wherever they occur (not only in `if` tests)
        self.parent_ev = parent
        self.module_env = parent.module_env if parent is not None else {}      # names of the analysed module (imports, constants): visible in every function evaluated below

    # ------------------------------------------------------------------ helpers
    def _sibling_method(self, recv, m):
        """`self.helper(...)` inside a method that a rule evaluates on a hand-made model of `self`: the helper is the method of that name in
        the class the evaluated method stands in (a private helper extracted from it)."""
        from . import pyfront
        ev_ = self
        while ev_ is not None:
            fn_ = getattr(ev_, "current_fn", None)
            if fn_ is not None and fn_.args.args and ev_.env.get(fn_.args.args[0].arg) is recv:
                mod_ = pyfront.MODULE_OF.get(id(fn_))
                cls_ = mod_.parents.get(fn_) if mod_ is not None else None
                if isinstance(cls_, ast.ClassDef):
                    for st in cls_.body:
                        if isinstance(st, ast.FunctionDef) and st.name == m and not any(src(d_) == "property" or src(d_).endswith(".setter") for d_ in st.decorator_list):
                            return st
                return None
            ev_ = ev_.parent_ev
        return None

    def _module_constant(self, name):
        """a name that is neither a local, a model nor a function: a constant assigned exactly once at the top level of the module the
        evaluated functions / classes come from (a table hoisted out of a method).  Evaluated once per root evaluator, so every use sees one object."""
        root = self
        while root.parent_ev is not None:
            root = root.parent_ev
        cache = root.__dict__.setdefault("_modconst_cache", {})
        if name in cache:
            return cache[name]
        from . import pyfront
        mods = []
        fns = list(self.funcs.values()) + [m_ for c_ in self.classes.values() for m_ in c_.body if isinstance(m_, ast.FunctionDef)]
        ev_ = self
        while ev_ is not None:          # and the modules of the functions being evaluated right now
            if getattr(ev_, "current_fn", None) is not None:
                fns.append(ev_.current_fn)
            ev_ = ev_.parent_ev
        for f_ in fns:
            m_ = pyfront.MODULE_OF.get(id(f_))
            if m_ is not None and all(m_ is not x_ for x_ in mods):
                mods.append(m_)
        found = []
        for m_ in mods:
            for st in m_.tree.body:
                tg_ = st.targets if isinstance(st, ast.Assign) else ([st.target] if isinstance(st, (ast.AnnAssign, ast.AugAssign)) else [])
                if any(isinstance(t_, ast.Name) and t_.id == name for t_ in tg_):
                    found.append(st)
        if len(found) != 1 or not isinstance(found[0], ast.Assign) or len(found[0].targets) != 1:
            return _NO_CONST
        sub = TenSym(self.globals_env(), self.positive, self.funcs, parent=self)
        v = sub.ex(found[0].value)
        cache[name] = v
        return v

    def lift(self, v):
        if isinstance(v, Ten):
            return v
        if isinstance(v, (int, float, Fraction)) and not isinstance(v, bool):
            return Rat(Poly.const(Fraction(str(v)) if isinstance(v, float) else v))
        return v

    def to_ten(self, v):
        if isinstance(v, bool):
            r = Ten((), [Rat(Poly.const(int(v)))])
            r.isbool = True
            return r
        if isinstance(v, str):
            return Ten((), [Rat(Poly.var(repr(v)))])       # a string element: an atom named by its own text
        if isinstance(v, TText):
            # formatted text stored into a numeric array: numpy converts it with float()
            try:
                return Ten((), [self.lift(v.number("float"))])
            except ValueError as e_:
                raise Raised("the analysed path raises: ValueError (%s)" % e_, "ValueError('float')")
        v = self.lift(v)
        if isinstance(v, Ten):
            return v
        if isinstance(v, Rat):
            return Ten((), [v])
        if isinstance(v, (list, tuple)):
            items = [self.to_ten(x) for x in v]
            if not items:
                return Ten((0,), [])
            sh = items[0].shape
            if any(i.shape != sh for i in items):
                raise Unsupported("ragged nested sequence")
            res = Ten((len(items),) + sh, [e for i in items for e in i.data])
            res.isbool = all(i.isbool for i in items)
            return res
        raise Unsupported("array from %s" % type(v).__name__)

    def pyval(self, v):
        """constants as python ints where possible (arguments of model methods, list indices)"""
        if isinstance(v, Rat):
            c = v.const_value()
            if c is not None and c.denominator == 1:
                return int(c)
        return v

    def unwrap(self, t):
        return t.data[0] if isinstance(t, Ten) and t.shape == () else t

    def into_out(self, call, pos, res):
        """a ufunc result: written into `out` (keyword, or positional argument number `pos`) when one is given, which is then what the call returns"""
        outp = self.kw(call, "out", pos, None)
        if outp is None:
            return res
        if not isinstance(outp, Ten):
            raise Unsupported("out= of %s" % type(outp).__name__)
        rt = self.to_ten(res)
        if rt.shape != outp.shape:
            raise Raised("the analysed path raises: ValueError (out= has shape %s, the result %s)" % (outp.shape, rt.shape), "ValueError")
        if isinstance(outp.data, ViewData):
            for i_, v_ in enumerate(rt.data):
                outp.data[i_] = v_
        else:
            outp.data[:] = rt.data
        return outp

    def concrete(self, v):
        """python int for sizes / indices / axes"""
        if isinstance(v, bool):
            return v
        if isinstance(v, int):
            return v
        if isinstance(v, Rat):
            c = v.const_value()
            if c is not None and c.denominator == 1:
                return int(c)
        raise Unsupported("a concrete integer is needed, got %r" % (v,))

    def elementwise(self, f, *vs):
        vs = [self.lift(v) for v in vs]
        if not any(isinstance(v, Ten) for v in vs):
            return f(*vs)
        ts = [self.to_ten(v) for v in vs]
        sh = ts[0].shape
        for t in ts[1:]:
            sh = bshape(sh, t.shape)
        ts = [bcast(t, sh) for t in ts]
        return Ten(sh, [f(*xs) for xs in zip(*[t.data for t in ts])])

    def equal(self, a, b):
        if a is None or b is None:
            return a is b
        a, b = self.lift(a), self.lift(b)
        if isinstance(a, Ten) or isinstance(b, Ten):
            a, b = self.to_ten(a), self.to_ten(b)
            return a.shape == b.shape and all(PySym.equal(self, x, y) for x, y in zip(a.data, b.data))
        if isinstance(a, (list, tuple)) and isinstance(b, (list, tuple)):
            return len(a) == len(b) and all(self.equal(x, y) for x, y in zip(a, b))
        return PySym.equal(self, a, b)

    def first_difference(self, a, b):
        a, b = self.to_ten(a), self.to_ten(b)
        if a.shape != b.shape:
            return "shape %s instead of %s" % (a.shape, b.shape)
        for multi, x, y in zip(a.indices(), a.data, b.data):
            if not PySym.equal(self, x, y):
                return "element %s is %r, the definition gives %r" % (list(multi), self.reduce(x), self.reduce(y))
        return None

    # ------------------------------------------------------------------ indexing
    def _resolve(self, t, key):
        """-> (list per source axis of (indices, dropped?), positions of new axes) for basic / simple integer-list indexing"""
        if not isinstance(key, tuple):
            key = (key,)
        n_real = sum(1 for k in key if k is not None and k is not Ellipsis)
        if n_real > t.ndim:
            raise ShapeError("too many indices for an array of %d dimensions" % t.ndim)
        if sum(1 for k in key if k is Ellipsis) > 1:
            raise Unsupported("two ellipses")
        if not any(k is Ellipsis for k in key):
            key = key + (Ellipsis,)
        out = []      # entries: ("new",) | ("ax", axis, [indices], dropped)
        ax = 0
        for k in key:
            if k is Ellipsis:
                for _ in range(t.ndim - n_real):
                    out.append(("ax", ax, list(range(t.shape[ax])), False))
                    ax += 1
            elif k is None:
                out.append(("new",))
            elif isinstance(k, slice):
                out.append(("ax", ax, list(range(*k.indices(t.shape[ax]))), False))
                ax += 1
            elif isinstance(k, (list, tuple)):
                ids = [self.concrete(i) for i in k]
                if any(not (-t.shape[ax] <= i < t.shape[ax]) for i in ids):
                    raise ShapeError("index out of bounds for axis %d with size %d" % (ax, t.shape[ax]))
                out.append(("ax", ax, [i % t.shape[ax] for i in ids], False))
                ax += 1
            else:
                i = self.concrete(k)
                if not (-t.shape[ax] <= i < t.shape[ax]):
                    raise ShapeError("index %d is out of bounds for axis %d with size %d" % (i, ax, t.shape[ax]))
                out.append(("ax", ax, [i % t.shape[ax]], True))
                ax += 1
        return out

    def _paired(self, t, key):
        """numpy pairs several integer index arrays element-wise (a[:, i_list, j_list]); returns (positions of the list keys, L) or None"""
        if not isinstance(key, tuple):
            return None
        pos = [k for k, x in enumerate(key) if isinstance(x, (list, tuple))]
        if len(pos) < 2:
            return None
        if pos != list(range(pos[0], pos[0] + len(pos))) or any(x is None or x is Ellipsis for x in key):
            raise Unsupported("several index arrays that are not adjacent")
        L = {len(key[k]) for k in pos}
        if len(L) != 1:
            raise ShapeError("index arrays of different lengths %s" % sorted(len(key[k]) for k in pos))
        return pos, L.pop()

    def getitem(self, t, key):
        ks_ = key if isinstance(key, tuple) else (key,)
        nd = [k for k in ks_ if isinstance(k, NDIndex)]
        if nd:
            # an index array of several dimensions: index with its elements, then give the new axis the shape of the index array
            if len(nd) > 1 or any(isinstance(k, (list, tuple)) for k in ks_):
                raise Unsupported("several index arrays, one of them multi-dimensional")
            pos = 0
            for k in ks_:
                if k is nd[0]:
                    break
                if k is Ellipsis:
                    raise Unsupported("ellipsis before a multi-dimensional index array")
                pos += 1 if (isinstance(k, slice) or k is None) else 0
            r = self.getitem(t, tuple(list(k.flat) if k is nd[0] else k for k in ks_))
            return Ten(r.shape[:pos] + tuple(nd[0].shape) + r.shape[pos + 1:], list(r.data))
        pr = self._paired(t, key)
        if pr is not None:
            pos, L = pr
            parts = []
            for l in range(L):
                k2 = tuple(self.concrete(x[l]) if i in pos else x for i, x in enumerate(key))
                parts.append(self.getitem(t, k2))
            st = self.to_ten(parts)                      # (L, rest...)
            lead = sum(1 for i, x in enumerate(key[:pos[0]]) if isinstance(x, slice))
            perm = list(range(1, lead + 1)) + [0] + list(range(lead + 1, st.ndim))
            r = st.transpose(perm)
            r.view = True
            return r
        plan = self._resolve(t, key)
        shape = [1 if p[0] == "new" else len(p[2]) for p in plan if p[0] == "new" or not p[3]]
        axes = [p for p in plan if p[0] == "ax"]
        kept = [p for p in plan if p[0] == "new" or not p[3]]
        out = []
        st_ = t.strides()
        for multi in itertools.product(*[range(s) for s in shape]):
            src_ = [0] * t.ndim
            for p in axes:
                if p[3]:
                    src_[p[1]] = p[2][0]
            for pos, p in zip(multi, kept):
                if p[0] == "ax":
                    src_[p[1]] = p[2][pos]
            out.append(sum(i * s_ for i, s_ in zip(src_, st_)))
        fancy = any(isinstance(k, (list, tuple)) for k in (key if isinstance(key, tuple) else (key,)))
        if len(shape) == 0:
            return t.data[out[0]]
        if fancy:
            return Ten(shape, [t.data[o] for o in out])      # integer-array indexing copies
        res = Ten(shape, [t.data[o] for o in out])
        res.data = ViewData(t.data, out, owner=t)            # basic indexing: a view that shares the memory of t
        res.view = True
        res.isbool = getattr(t, "isbool", False)
        return res

    def setitem(self, t, key, value, op=None):
        if t.view and not isinstance(t.data, ViewData):
            raise Unsupported("store into a view of another array")
        pr = self._paired(t, key)
        if pr is not None:
            pos, L = pr
            lead = sum(1 for i, x in enumerate(key[:pos[0]]) if isinstance(x, slice))
            probe = self.getitem(t, key)
            v = self.to_ten(value)
            v = bcast(v, probe.shape) if v.shape != probe.shape else v
            for l in range(L):
                k2 = tuple(self.concrete(x[l]) if i in pos else x for i, x in enumerate(key))
                sub = self.getitem(v, tuple([slice(None)] * lead + [l]))
                self.setitem(t, k2, sub, op)
            return
        plan = self._resolve(t, key)
        kept = [p for p in plan if p[0] == "new" or not p[3]]
        shape = tuple(1 if p[0] == "new" else len(p[2]) for p in kept)
        v = bcast(self.to_ten(value), shape) if self.to_ten(value).shape != shape else self.to_ten(value)
        st = t.strides()
        axes = [p for p in plan if p[0] == "ax"]
        for multi, e in zip(itertools.product(*[range(s) for s in shape]), v.data):
            src_ = [0] * t.ndim
            for p in axes:
                if p[3]:
                    src_[p[1]] = p[2][0]
            for pos, p in zip(multi, kept):
                if p[0] == "ax":
                    src_[p[1]] = p[2][pos]
            off = sum(i * s for i, s in zip(src_, st))
            t.data[off] = e if op is None else op(t.data[off], e)

    def key(self, n):
        """evaluate a subscript expression into python index objects"""
        if isinstance(n, ast.Tuple):
            return tuple(self.key(e) for e in n.elts)
        if isinstance(n, ast.Slice):
            def c(x):
                if x is None:
                    return None
                v_ = self.ex(x)
                return None if v_ is None else self.concrete(v_)        # a[::stride] with stride None
            return slice(c(n.lower), c(n.upper), c(n.step))
        if isinstance(n, ast.Constant) and n.value is Ellipsis:
            return Ellipsis
        if isinstance(n, ast.Constant) and n.value is None:
            return None
        if isinstance(n, ast.Attribute) and dotted(n) in ("np.newaxis", "numpy.newaxis"):
            return None
        v = self.ex(n)
        if v is None:
            return None
        if isinstance(v, slice):
            return v
        if isinstance(v, tuple):
            # a tuple held in a variable is a multi-dimensional subscript: a[key] with key = (rows, cols)
            def one_(x_):
                if x_ is None or x_ is Ellipsis or isinstance(x_, slice):
                    return x_
                if isinstance(x_, (list, tuple)):
                    return [self.concrete(y_) for y_ in x_]
                if isinstance(x_, Ten):
                    return [self.concrete(y_) for y_ in x_.data] if x_.ndim == 1 else self.concrete(x_.data[0])
                return self.concrete(x_)
            return tuple(one_(x_) for x_ in v)
        if isinstance(v, list):
            return [self.concrete(x) for x in v]
        if isinstance(v, Ten):
            if v.isbool:
                if v.ndim != 1:
                    self._unsup("mask of %d dimensions as an index" % v.ndim)
                return [k for k, x in enumerate(v.data) if self.concrete(x) != 0]
            if v.ndim == 1:
                return [self.concrete(x) for x in v.data]
            return NDIndex(v.shape, [self.concrete(x) for x in v.data])
        return self.concrete(v)

    def _unsup(self, what):
        raise Unsupported(what)

    # ------------------------------------------------------------------ expressions
    def ex(self, n):
        if isinstance(n, ast.JoinedStr):
            # an f-string is the sequence of its literal pieces and the values formatted into it
            parts = []
            for p_ in n.values:
                if isinstance(p_, ast.Constant):
                    parts.append(p_.value)
                else:
                    spec_ = ""
                    if p_.format_spec is not None:
                        # the format spec as plain text when it is one (`8.3f`, or `{w}.{p}f` with concrete w, p); else its source
                        sv_ = self.ex(p_.format_spec)
                        pieces_ = [q_ if isinstance(q_, str) else (str(self.pyval(q_.value)) if isinstance(self.pyval(q_.value), (int, str)) and not isinstance(self.pyval(q_.value), bool) and not q_.spec else None)
                                   for q_ in (sv_.parts if isinstance(sv_, FStr) else [sv_])]
                        spec_ = "".join(pieces_) if all(isinstance(q_, str) for q_ in pieces_) else src(p_.format_spec)
                    parts.append(FVal(self.ex(p_.value), spec_, p_.conversion))
            return FStr(parts)
        if isinstance(n, ast.Constant):
            if n.value is None or isinstance(n.value, (str, bool)) or n.value is Ellipsis:
                return n.value
            if isinstance(n.value, int):
                return n.value
            if isinstance(n.value, bytes):
                return n.value.decode("latin-1")        # text and its encoded form are not told apart
            return Rat(Poly.const(Fraction(str(n.value))))
        if isinstance(n, ast.Name):
            if n.id in self.env:
                return self.env[n.id]
            if n.id in ("True", "False", "None"):
                return {"True": True, "False": False, "None": None}[n.id]
            if n.id in self.module_env:
                return self.module_env[n.id]
            if n.id in self.funcs:
                # a module-level function used as a value (stored in a table, passed on): called later through apply_closure
                return ("<closure>", self.funcs[n.id], TenSym({}, self.positive, self.funcs, parent=self))
            if n.id in ("list", "tuple", "int", "float", "str", "bytes", "dict", "set", "bool", "slice"):
                return ("<type>", n.id)         # a builtin type as a value (kept in a table for isinstance)
            mc_ = self._module_constant(n.id)
            if mc_ is not _NO_CONST:
                return mc_
            raise Unsupported("unbound name %s" % n.id)
        if isinstance(n, ast.Attribute):
            d = dotted(n)
            if d in ("np.pi", "math.pi", "numpy.pi"):
                return PI
            if d in ("np.nan", "numpy.nan", "math.nan"):
                return Rat(Poly.var("nan"))        # a marker value: nothing compares with it
            if d in ("np.inf", "numpy.inf", "math.inf"):
                return INF      # "no limit": larger than every size of the model worlds (min(i + INF, n) = n, slice(a, INF) = a:)
            if d in ("np.newaxis",):
                return None
            if d in ("np.float64", "np.float32", "np.double", "np.int32", "np.int64", "float", "int"):
                return d
            base = self.ex(n.value)
            if isinstance(base, Obj):
                gt = base.__dict__.get("_getters")
                if gt and n.attr in gt:
                    return gt[n.attr](base)         # a property of the modelled class
                pr_ = base.__dict__.get("_props")
                if pr_ and n.attr in pr_ and n.attr not in base.__dict__:
                    sub = TenSym(self.globals_env(), self.positive, self.funcs, parent=self)
                    return sub.run_fn(pr_[n.attr], self=base)        # a @property of the class, evaluated from its source
                if not hasattr(base, n.attr):
                    if getattr(base, "_lenient", False) and n.attr.startswith("_"):
                        return None         # a private field the model does not know: as on a fresh object
                    raise Raised("model object has no attribute %s" % n.attr, "AttributeError(%r)" % n.attr)
                return getattr(base, n.attr)
            if isinstance(base, Ten):
                if n.attr == "T":
                    return base.transpose()
                if n.attr == "shape":
                    return tuple(base.shape)
                if n.attr == "ndim":
                    return base.ndim
                if n.attr == "size":
                    return prod(base.shape)
                if n.attr == "dtype":
                    return "<dtype>"
                if n.attr == "flags":
                    return {"WRITEABLE": True, "C_CONTIGUOUS": True, "OWNDATA": not base.view}
                if n.attr == "base":
                    # the array that owns the memory of a view (None for an array that owns its own)
                    return base.data.owner if isinstance(base.data, ViewData) else None
                if n.attr == "ctypes":
                    # .ctypes.data: the address of the first element (two arrays that start at the same element of the same memory compare equal)
                    return Obj(data=base.data.address() if isinstance(base.data, ViewData) else ("addr", id(base.data), 0))
            if base is None:
                raise Raised("the analysed path raises: AttributeError ('NoneType' object has no attribute %r)" % n.attr, "AttributeError(%r)" % n.attr)
            if isinstance(base, slice) and n.attr in ("start", "stop", "step"):
                return getattr(base, n.attr)
            raise Unsupported("attribute %s" % src(n))
        if isinstance(n, ast.UnaryOp):
            v = self.ex(n.operand)
            if isinstance(n.op, ast.USub):
                return -v if isinstance(v, int) and not isinstance(v, bool) else self.elementwise(lambda x: -x, v)
            if isinstance(n.op, ast.UAdd):
                return v
            if isinstance(n.op, ast.Not):
                return not self.truth(v)
            raise Unsupported("unary %s" % src(n))
        if isinstance(n, ast.BinOp):
            return self.binop(n.op, self.ex(n.left), self.ex(n.right), n)
        if isinstance(n, (ast.Tuple, ast.List)):
            items_ = []
            for e in n.elts:
                if isinstance(e, ast.Starred):
                    items_.extend(self.iterate(self.ex(e.value)))
                else:
                    items_.append(self.ex(e))
            return tuple(items_) if isinstance(n, ast.Tuple) else items_
        if isinstance(n, ast.Subscript):
            base = self.ex(n.value)
            if isinstance(base, Ten) and base.ndim >= 2 and not isinstance(n.slice, (ast.Tuple, ast.Slice)):
                # a[mask] with a mask of several dimensions: the selected elements (rows), flattened over the masked axes, in C order
                m_ = self.ex(n.slice)
                if isinstance(m_, Ten) and m_.isbool and m_.ndim >= 2 and m_.shape == base.shape[:m_.ndim]:
                    sel_ = [k_ for k_, x_ in enumerate(m_.data) if self.concrete(x_) != 0]
                    per_ = prod(base.shape[m_.ndim:])
                    return Ten((len(sel_),) + tuple(base.shape[m_.ndim:]), [base.data[k_ * per_ + j_] for k_ in sel_ for j_ in range(per_)])
            if isinstance(base, (list, tuple)):
                k = self.key(n.slice)
                if isinstance(k, (int, slice)):
                    try:
                        return base[k]
                    except IndexError:
                        raise Raised("the analysed path raises: IndexError (index %s of a sequence of %d)" % (k, len(base)), "IndexError('list index')")
                base = self.to_ten(base)
            if isinstance(base, str):
                return base[self.key(n.slice)]
            if isinstance(base, (TText, FStr)):
                tt_ = base if isinstance(base, TText) else TText(base.parts)
                k_ = self.key(n.slice)
                if isinstance(k_, slice) and k_.step in (None, 1):
                    return tt_.slice(k_.start, k_.stop)
                if isinstance(k_, int):
                    return tt_.slice(k_, k_ + 1 if k_ != -1 else None)
                raise Unsupported("subscript %s of formatted text" % src(n.slice))
            if isinstance(base, Ten):
                return self.getitem(base, self.key(n.slice))
            if isinstance(base, dict):
                k_ = self.pyval(self.ex(n.slice))
                if k_ not in base:
                    raise Raised("the analysed path raises: KeyError(%r)" % (k_,), "KeyError(%r)" % (k_,))
                return base[k_]
            if isinstance(base, Obj) and callable(base.__dict__.get("_getitem")):
                return base._getitem(base, self.key(n.slice))
            if isinstance(base, Obj) and "__getitem__" in (base.__dict__.get("_methods") or {}):
                gi = base._methods["__getitem__"]
                sub = TenSym(self.globals_env(), self.positive, self.funcs, parent=self)
                return sub.run_fn(gi, **{"self": base, gi.args.args[1].arg: self.key(n.slice)})
            raise Unsupported("subscript of %s" % type(base).__name__)
        if isinstance(n, ast.Call):
            return self.call(n)
        if isinstance(n, (ast.ListComp, ast.GeneratorExp, ast.DictComp, ast.SetComp)):
            out = []

            def gen(k):
                if k == len(n.generators):
                    out.append((self.pyval(self.ex(n.key)), self.ex(n.value)) if isinstance(n, ast.DictComp) else self.ex(n.elt))
                    return
                g = n.generators[k]
                for item in self.iterate(self.ex(g.iter)):
                    self.bind(g.target, item)
                    if all(self.truth(self.ex(c)) for c in g.ifs):
                        gen(k + 1)
            gen(0)
            if isinstance(n, ast.DictComp):
                return dict(out)
            if isinstance(n, ast.SetComp):
                vals = [self.pyval(v) for v in out]
                if any(isinstance(v, (Rat, Ten, Obj, list)) for v in vals):
                    raise Unsupported("set of symbolic values")
                return frozenset(vals)
            return out
        if isinstance(n, ast.Compare) and len(n.ops) == 1:
            a, b = self.ex(n.left), self.ex(n.comparators[0])
            return self.compare(n.ops[0], a, b, n)
        if isinstance(n, ast.Compare):
            # a < b <= c: the conjunction of the adjacent comparisons, each operand evaluated once
            vals_ = [self.ex(n.left)] + [self.ex(c_) for c_ in n.comparators]
            for op_, a_, b_ in zip(n.ops, vals_, vals_[1:]):
                if not self.truth(self.compare(op_, a_, b_, n)):
                    return False
            return True
        if isinstance(n, ast.BoolOp):
            is_and = isinstance(n.op, ast.And)
            for v in n.values:          # short-circuit like Python
                t = self.truth(self.ex(v))
                if is_and and not t:
                    return False
                if not is_and and t:
                    return True
            return is_and
        if isinstance(n, ast.IfExp):
            return self.ex(n.body) if self.truth(self.ex(n.test)) else self.ex(n.orelse)
        if isinstance(n, ast.Lambda):
            return ("<lambda>", n, self)
        if isinstance(n, ast.Dict):
            if any(k is None for k in n.keys):
                raise Unsupported("dict display with ** unpacking")
            return {self.pyval(self.ex(k)): self.ex(v) for k, v in zip(n.keys, n.values)}
        if isinstance(n, ast.Set):
            vals = [self.pyval(self.ex(e)) for e in n.elts]
            if any(isinstance(v, (Rat, Ten, Obj, list)) for v in vals):
                raise Unsupported("set of symbolic values")
            return frozenset(vals)
        raise Unsupported("expression %s" % type(n).__name__)

    def sign(self, d):
        """-1 / 0 / +1 of a value that is a constant or c0 + c1*pi with constant c0, c1 (decided numerically, pi = 3.14159...)"""
        d = self.lift(d)
        c = d.const_value() if isinstance(d, Rat) else None
        if c is not None:
            return (c > 0) - (c < 0)
        if isinstance(d, Rat) and set(d.n.vars()) | set(d.d.vars()) <= {"pi"}:
            def num(p):
                val = 0.0
                for m, cf in p.t.items():
                    val += float(cf) * (3.141592653589793 ** dict(m).get("pi", 0))
                return val
            # exact cancellation first: n and d as polynomials in pi
            if d.n.is_zero():
                return 0
            vn, vd = num(d.n), num(d.d)
            if abs(vn) < 1e-9 * max(1.0, abs(vd)) or abs(vd) < 1e-12:
                raise Unsupported("comparison too close to call numerically")
            return 1 if (vn > 0) == (vd > 0) else -1
        if isinstance(d, Rat) and self.positive:
            # all terms of numerator and denominator have coefficients of one sign over symbols assumed positive
            def sg(p):
                if p.is_zero() or not all(v in self.positive for v in p.vars()):
                    return None
                ss = {(cf > 0) - (cf < 0) for cf in p.t.values()}
                return ss.pop() if len(ss) == 1 else None
            sn, sd = sg(d.n), sg(d.d)
            if sn is not None and sd is not None:
                return sn * sd
        raise Unsupported("sign of a symbolic quantity")

    def compare(self, op, a, b, n=None):
        if isinstance(op, (ast.Is, ast.IsNot)):
            r = a is b or (a is None and b is None)
            return r if isinstance(op, ast.Is) else not r
        if (isinstance(a, Obj) or isinstance(b, Obj)) and isinstance(op, (ast.Eq, ast.NotEq)):
            return (a is b) if isinstance(op, ast.Eq) else (a is not b)
        if isinstance(a, FStr):
            a = TText(a.parts)
        if isinstance(b, FStr):
            b = TText(b.parts)
        if isinstance(a, TText) or isinstance(b, TText):
            if isinstance(op, (ast.Eq, ast.NotEq)):
                la = a if isinstance(a, str) else (a.literal() if isinstance(a, TText) else None)
                lb = b if isinstance(b, str) else (b.literal() if isinstance(b, TText) else None)
                if la is not None and lb is not None:
                    r = la == lb
                elif (la == "" and isinstance(b, TText) and not b.is_empty()) or (lb == "" and isinstance(a, TText) and not a.is_empty()):
                    r = False
                elif not isinstance(a, (str, TText)) or not isinstance(b, (str, TText)):
                    r = False
                else:
                    raise Unsupported("comparison of formatted text: %s" % (src(n) if n is not None else "?"))
                return r if isinstance(op, ast.Eq) else not r
            if isinstance(op, (ast.In, ast.NotIn)) and isinstance(a, str) and isinstance(b, TText):
                r = b.contains(a)
                return r if isinstance(op, ast.In) else not r
        if (isinstance(a, Ten) and isinstance(b, str)) or (isinstance(a, str) and isinstance(b, Ten)):
            if isinstance(op, (ast.Eq, ast.NotEq)):
                return isinstance(op, ast.NotEq)
        if isinstance(op, (ast.In, ast.NotIn)) and isinstance(b, Ten):
            av = self.lift(self.pyval(a))
            ac = av.const_value() if isinstance(av, Rat) else None
            bc = [x.const_value() for x in b.data]
            if ac is None or any(c is None for c in bc):
                raise Unsupported("membership of / in symbolic values: %s" % (src(n) if n is not None else "?"))
            r = any(c == ac for c in bc)
            return r if isinstance(op, ast.In) else not r
        if isinstance(a, Ten) or isinstance(b, Ten):
            ta, tb = self.to_ten(self.lift(a)), self.to_ten(self.lift(b))
            sh = bshape(ta.shape, tb.shape)
            ta, tb = bcast(ta, sh), bcast(tb, sh)
            out = []
            for x, y in zip(ta.data, tb.data):
                cx, cy = x.const_value(), y.const_value()
                if cx is None or cy is None:
                    try:
                        sg = self.sign(x - y)
                    except Unsupported:
                        if (getattr(self, "sampling", False) or getattr(self, "moderate", False)) and isinstance(op, (ast.Lt, ast.LtE, ast.Gt, ast.GtE)):
                            vx_, vy_ = sample_value(x), sample_value(y)
                            if vx_ is not None and vy_ is not None:
                                out.append(Rat(Poly.const(int({ast.Lt: vx_ < vy_, ast.LtE: vx_ <= vy_, ast.Gt: vx_ > vy_, ast.GtE: vx_ >= vy_}[type(op)]))))
                                continue
                        if isinstance(op, (ast.Lt, ast.LtE, ast.Gt, ast.GtE, ast.Eq, ast.NotEq)) and sh != ():
                            # an element of a mask that depends on the values: an opaque truth value (deciding it - np.all, an index, an `if` - is what raises)
                            out.append(self.fn("cmp" + type(op).__name__, x, y))
                            continue
                        raise Unsupported("comparison of symbolic values: %s" % (src(n) if n is not None else "?"))
                    cx, cy = sg, 0
                out.append(Rat(Poly.const(int(self.compare(op, cx, cy)))))
            res = Ten(sh, out)
            res.isbool = True
            return res
        if isinstance(op, (ast.In, ast.NotIn)) and isinstance(b, Obj) and callable(b.__dict__.get("_contains_ev")):
            r = bool(b._contains_ev(self, self.pyval(a)))        # a container that compares with the elements' own __eq__ (tuple semantics)
            return r if isinstance(op, ast.In) else not r
        if isinstance(op, (ast.In, ast.NotIn)) and isinstance(b, Obj) and callable(b.__dict__.get("_contains")):
            r = bool(b._contains(self.pyval(a)))
            return r if isinstance(op, ast.In) else not r
        if isinstance(op, (ast.In, ast.NotIn)) and isinstance(b, (dict, frozenset, list, tuple)):
            a_ = self.pyval(a)
            if isinstance(a_, (Rat, Ten)):
                raise Unsupported("membership of a symbolic value: %s" % (src(n) if n is not None else "?"))
            if isinstance(a_, Obj) or any(isinstance(x, Obj) for x in b):
                r = any(x is a_ for x in b)
            else:
                r = a_ in ([self.pyval(x) for x in b] if isinstance(b, (list, tuple)) else b)
            return r if isinstance(op, ast.In) else not r
        conc = (int, str, bool, type(None), tuple, list, frozenset)
        if isinstance(a, Rat) and a.const_value() is not None:
            a = a.const_value()
        if isinstance(b, Rat) and b.const_value() is not None:
            b = b.const_value()
        if any(isinstance(x_, str) and x_ == "<dtype>" for x_ in (a, b)) and isinstance(op, (ast.Eq, ast.NotEq)):
            return isinstance(op, ast.NotEq)      # a cast follows; casts do not change exact values
        if isinstance(a, conc + (Fraction,)) and isinstance(b, conc + (Fraction,)):
            if isinstance(op, ast.Eq):
                return a == b
            if isinstance(op, ast.NotEq):
                return a != b
            if isinstance(op, ast.Lt):
                return a < b
            if isinstance(op, ast.LtE):
                return a <= b
            if isinstance(op, ast.Gt):
                return a > b
            if isinstance(op, ast.GtE):
                return a >= b
            if isinstance(op, ast.In):
                return a in b
            if isinstance(op, ast.NotIn):
                return a not in b
        if (getattr(self, "sampling", False) or getattr(self, "moderate", False)) and isinstance(op, (ast.Lt, ast.LtE, ast.Gt, ast.GtE) + ((ast.Eq, ast.NotEq) if getattr(self, "sampling", False) else ())):
            # a range check on values of the world, decided for moderate values: every symbol stands for a number between 1 and 2 (see moderate_assume)
            va_, vb_ = sample_value(self.lift(a)), sample_value(self.lift(b))
            if va_ is not None and vb_ is not None:
                return {ast.Lt: va_ < vb_, ast.LtE: va_ <= vb_, ast.Gt: va_ > vb_, ast.GtE: va_ >= vb_, ast.Eq: va_ == vb_, ast.NotEq: va_ != vb_}[type(op)]
        if isinstance(op, (ast.Eq, ast.NotEq)) and getattr(self, "generic_eq", False):
            # the rule's world is in general position: two scalars that are different expressions are different numbers
            la_, lb_ = self.lift(a), self.lift(b)
            if isinstance(la_, Rat) and isinstance(lb_, Rat):
                same_ = (la_.n * lb_.d - lb_.n * la_.d).is_zero()
                return same_ if isinstance(op, ast.Eq) else not same_
        raise Unsupported("comparison of symbolic values: %s" % (src(n) if n is not None else "?"))

    def truth(self, v):
        if v is None or isinstance(v, (bool, int, str, tuple, list, dict, frozenset)):
            return bool(v)
        if isinstance(v, Obj):
            return True
        if isinstance(v, TText):
            return not v.is_empty()
        if isinstance(v, FStr):
            return bool(v.parts)
        if isinstance(v, Rat) and v.const_value() is not None:
            return v.const_value() != 0
        if isinstance(v, UndecidedTruth):
            raise Unsupported(v.why)
        raise Unsupported("truth value of a symbolic quantity")

    def percent_format(self, tmpl, b):
        """`"..%8.3f.." % values`: the template's literal pieces and the values formatted into it (spec: the conversion without the %)"""
        vals = list(b) if isinstance(b, tuple) else [b]
        conc = [self.pyval(v_) for v_ in vals]
        if all(isinstance(v_, (int, str)) and not isinstance(v_, bool) for v_ in conc):
            try:
                return tmpl % tuple(conc)       # nothing symbolic: the text itself
            except (TypeError, ValueError) as e_:
                raise Raised("the analysed path raises: %s" % e_, type(e_).__name__)
        parts, pos, k = [], 0, 0
        for m_ in re.finditer(r"%(?:\((\w+)\))?([-+ #0]*\d*(?:\.\d+)?[diouxXeEfFgGcrsa%])", tmpl):
            if m_.start() > pos:
                parts.append(tmpl[pos:m_.start()])
            pos = m_.end()
            if m_.group(2) == "%":
                parts.append("%")
                continue
            if m_.group(1) is not None:
                if not isinstance(b, dict) or m_.group(1) not in b:
                    raise Unsupported("%%(%s) format without a mapping" % m_.group(1))
                parts.append(FVal(b[m_.group(1)], m_.group(2), pct=True))
                continue
            if k >= len(vals):
                raise Raised("the analysed path raises: TypeError (not enough arguments for format string)", "TypeError('format')")
            parts.append(FVal(vals[k], m_.group(2), pct=True))
            k += 1
        if pos < len(tmpl):
            parts.append(tmpl[pos:])
        if k != len(vals) and not isinstance(b, dict):
            raise Raised("the analysed path raises: TypeError (not all arguments converted during string formatting)", "TypeError('format')")
        if not any(isinstance(p_, FVal) for p_ in parts):
            return "".join(parts)
        return FStr(parts)

    def binop(self, op, a, b, n=None):
        if isinstance(a, int) and isinstance(b, int) and not isinstance(a, bool) and not isinstance(b, bool):
            if isinstance(op, ast.Add):
                return a + b
            if isinstance(op, ast.Sub):
                return a - b
            if isinstance(op, ast.Mult):
                return a * b
            if isinstance(op, ast.FloorDiv):
                return a // b
            if isinstance(op, ast.Mod):
                return a % b
            if isinstance(op, ast.Pow) and b >= 0:
                return a ** b
        if isinstance(op, ast.Add) and isinstance(a, (list, tuple)) and isinstance(b, (list, tuple)) and type(a) is type(b):
            return a + b
        if isinstance(op, ast.Mult) and (isinstance(a, str) or isinstance(b, str)):
            s_, k_ = (a, self.pyval(b)) if isinstance(a, str) else (b, self.pyval(a))
            if isinstance(k_, int) and not isinstance(k_, bool):
                return s_ * k_
        if isinstance(op, ast.Mult) and isinstance(a, (list, tuple)) and isinstance(b, int) and not isinstance(b, bool):
            return a * b
        if isinstance(op, ast.Mult) and isinstance(b, (list, tuple)) and isinstance(a, int) and not isinstance(a, bool):
            return b * a
        if isinstance(op, ast.MatMult):
            return self.dot(a, b)
        if isinstance(op, ast.Mod) and isinstance(a, str):
            return self.percent_format(a, b)
        if isinstance(op, ast.Add) and isinstance(a, (str, FStr, TText)) and isinstance(b, (str, FStr, TText)):
            if isinstance(a, str) and isinstance(b, str):
                return a + b
            if isinstance(a, TText) or isinstance(b, TText):
                return TText((a.parts if not isinstance(a, str) else [a]) + (b.parts if not isinstance(b, str) else [b]))
            return FStr((a.parts if isinstance(a, FStr) else [a]) + (b.parts if isinstance(b, FStr) else [b]))
        a, b = self.lift(a), self.lift(b)
        if isinstance(a, (list, tuple)):
            a = self.to_ten(a)
        if isinstance(b, (list, tuple)):
            b = self.to_ten(b)
        if isinstance(op, ast.Pow):
            e = b.const_value() if isinstance(b, Rat) else None
            if e is None:
                raise Unsupported("power %s" % (src(n) if n is not None else "?"))
            return self.elementwise(lambda x: PySym.binop(self, op, x, b, n), a)
        if not isinstance(a, (Rat, Ten)) or not isinstance(b, (Rat, Ten)):
            raise Unsupported("operator %s on %s, %s" % (type(op).__name__, type(a).__name__, type(b).__name__))
        return self.elementwise(lambda x, y: PySym.binop(self, op, x, y, n), a, b)

    # ------------------------------------------------------------------ calls
    def kw(self, n, name, pos=None, default=None):
        for k in n.keywords:
            if k.arg == name:
                return self.ex(k.value)
        if pos is not None and len(n.args) > pos:
            return self.ex(n.args[pos])
        return default

    def call_args(self, call):
        """evaluated positional arguments of a call, `*seq` expanded"""
        out = []
        for a in call.args:
            if isinstance(a, ast.Starred):
                out.extend(self.iterate(self.ex(a.value)))
            else:
                out.append(self.ex(a))
        return out

    def shape_arg(self, v):
        if isinstance(v, (tuple, list)):
            return tuple(self.concrete(x) for x in v)
        return (self.concrete(v),)

    def extreme(self, name, values):
        """smallest ('min') / largest ('max') of symbolic values: an opaque function of the *set* of the values"""
        # min / max are associative: an element that is itself the min / max of an earlier set stands for that set
        flat = []
        for x in values:
            hit = None
            if isinstance(x, Rat):
                for (f_, a_, r_) in self.calls:
                    if f_ == name and isinstance(r_, Rat) and r_ is x or (f_ == name and isinstance(r_, Rat) and isinstance(x, Rat) and len(x.vars()) == 1 and r_ == x):
                        hit = a_[0]
                        break
            flat.extend(hit.data if hit is not None else [x])
        cache = self.__dict__.setdefault("_repr_cache", {})

        def key(x):
            k = cache.get(id(x))
            if k is None or k[0] is not x:
                k = (x, repr(self.reduce(x)))
                cache[id(x)] = k
            return k[1]
        items = sorted({key(x): x for x in flat}.items())
        if len(items) == 1:
            return items[0][1]
        return self.opaque_tensor(name, [Ten((len(items),), [x for _, x in items]), None], ())

    def opaque_tensor(self, name, args, shape):
        for (f, a, r) in self.calls:
            if f == name and len(a) == len(args) and all(self.equal(x, y) for x, y in zip(a, args)):
                return r
        r = Ten.sym("%s#%d" % (name, len(self.calls)), shape) if shape != () else Rat(Poly.var("%s#%d" % (name, len(self.calls))))
        self.calls.append((name, list(args), r))
        return r

    def call(self, n):
        cn = call_name(n) or ""
        last = cn.split(".")[-1]
        if isinstance(n.func, ast.Name) and n.func.id in self.env and callable(self.env[n.func.id]) and not isinstance(self.env[n.func.id], (tuple, Obj, str)):
            # a local name bound to a method of a model object (`emit = self._fh.write`)
            return self.env[n.func.id](*self.call_args(n), **{k_.arg: self.ex(k_.value) for k_ in n.keywords if k_.arg})
        # ---- methods on evaluated receivers
        root = n.func
        while isinstance(root, ast.Attribute):
            root = root.value
        module_call = isinstance(root, ast.Name) and root.id not in self.env and root.id not in self.module_env        # np.x(...), itertools.x(...), md.x(...): a module function, not a method of a value
        if isinstance(n.func, ast.Attribute) and not module_call and cn not in self.models and cn not in self.funcs:
            recv = self.ex(n.func.value)
            m = n.func.attr
            if isinstance(recv, (list, tuple)) and m in ("sum", "mean", "prod", "reshape", "transpose", "astype", "dot", "max", "min"):
                recv = self.to_ten(recv)
            if isinstance(recv, (Ten, Rat)):
                t = self.to_ten(recv)
                if m == "astype" and isinstance(recv, Ten) and recv.isbool and n.args and "bool" not in src(n.args[0]):
                    return Ten(recv.shape, recv.data)       # 0 / 1 numbers, no longer a mask
                if m in ("astype", "copy", "view", "squeeze") and m != "squeeze":
                    return recv if m != "copy" or not isinstance(recv, Ten) else Ten(recv.shape, recv.data)
                if m in ("sum", "mean"):
                    axis = self.kw(n, "axis", 0)
                    keep = bool(self.kw(n, "keepdims", None, False))
                    return self.unwrap(t.reduce(axis if axis is None or isinstance(axis, (tuple, list)) else self.concrete(axis), keep, mean=(m == "mean")))
                if m == "prod":
                    axis = self.kw(n, "axis", 0)
                    return self.unwrap(t.reduce(axis if axis is None or isinstance(axis, (tuple, list)) else self.concrete(axis), op=lambda x, y: x * y))
                if m in ("max", "min"):
                    axis = self.kw(n, "axis", 0)
                    return self.opaque_tensor(m, [t, axis], t.reduce(axis).shape)
                if m == "reshape":
                    args = self.call_args(n)
                    shp = args[0] if len(args) == 1 and isinstance(args[0], (tuple, list)) else args
                    return t.reshape([self.concrete(x) for x in shp])
                if m == "transpose":
                    args = self.call_args(n)
                    perm = args[0] if len(args) == 1 and isinstance(args[0], (tuple, list)) else (args or None)
                    return t.transpose([self.concrete(x) for x in perm] if perm else None)
                if m == "swapaxes":
                    a, b = [self.concrete(self.ex(x)) for x in n.args]
                    perm = list(range(t.ndim))
                    perm[a], perm[b] = perm[b], perm[a]
                    return t.transpose(perm)
                if m == "dot":
                    return self.dot(t, self.ex(n.args[0]))
                if m == "flatten" or m == "ravel":
                    return t.reshape([-1])
                if m == "compress":
                    cond = self.to_ten(self.ex(n.args[0]))
                    axis = self.kw(n, "axis", 1, None)
                    if axis is None or cond.ndim != 1:
                        raise Unsupported("compress without an axis / with a mask that is not 1-d")
                    axis = self.concrete(axis) % t.ndim
                    keep = [k for k, x in enumerate(cond.data) if self.concrete(x) != 0]
                    if len(cond.data) > t.shape[axis]:
                        raise ShapeError("compress: mask of length %d for an axis of length %d" % (len(cond.data), t.shape[axis]))
                    r_ = self.getitem(t, tuple([slice(None)] * axis + [keep]))
                    r_.view = False
                    return r_
                raise Unsupported("array method %s" % m)
            if isinstance(recv, Obj) and m == "__getitem__" and callable(recv.__dict__.get("_getitem")) and len(n.args) == 1:
                return recv._getitem(recv, self.pyval(self.ex(n.args[0])))
            if isinstance(recv, Obj):
                cm = recv.__dict__.get("_methods") or {}
                if m not in cm and m not in recv.__dict__:
                    sib_ = self._sibling_method(recv, m)
                    if sib_ is not None:
                        cm = dict(cm, **{m: sib_})
                if m in cm and m not in recv.__dict__:
                    # a method of the modelled class: evaluated from its source with self bound to the model object
                    sub = TenSym(self.globals_env(), self.positive, self.funcs, parent=self)
                    posv_ = self.call_args(n)
                    deco_ = {dotted(d_) for d_ in cm[m].decorator_list}
                    all_ = [a_.arg for a_ in cm[m].args.posonlyargs + cm[m].args.args]
                    static_ = "staticmethod" in deco_
                    pn_ = all_ if static_ else all_[1:]
                    if len(posv_) > len(pn_) and cm[m].args.vararg is None:
                        raise Raised("the analysed path raises: TypeError (%s() takes %d positional arguments but %d were given)" % (m, len(pn_) + 1, len(posv_) + 1), "TypeError('arguments')")
                    first_ = {} if static_ else {all_[0] if all_ else "self": (recv if "classmethod" not in deco_ else recv)}
                    given_ = dict(first_, **dict(zip(pn_, posv_)), **{k.arg: self.ex(k.value) for k in n.keywords if k.arg})
                    for k in n.keywords:
                        if k.arg is None:       # **options collected in a dict
                            d_ = self.ex(k.value)
                            if not isinstance(d_, dict):
                                raise Unsupported("** of something that is not a dict")
                            given_.update({self.pyval(k2_): v2_ for k2_, v2_ in d_.items()})
                    if cm[m].args.vararg is not None:
                        given_[cm[m].args.vararg.arg] = tuple(posv_[len(pn_):])
                    return sub.run_fn(cm[m], **given_)
                f = getattr(recv, "_ctor", None) if m == "__class__" else getattr(recv, m, None)
                if callable(f):
                    kw_ = {k.arg: self.pyval(self.ex(k.value)) for k in n.keywords if k.arg}
                    for k in n.keywords:
                        if k.arg is None:       # **options
                            d_ = self.ex(k.value)
                            if not isinstance(d_, dict):
                                raise Unsupported("** of something that is not a dict")
                            kw_.update({self.pyval(k2_): self.pyval(v2_) for k2_, v2_ in d_.items()})
                    return f(*[self.pyval(self.ex(a)) for a in n.args], **kw_)
                raise Unsupported("method %s of a model object" % m)
            if isinstance(recv, list) and m in ("append", "extend"):
                v = self.ex(n.args[0])
                if m == "append":
                    recv.append(v)
                else:
                    recv.extend(self.iterate(v))
                return None
            if isinstance(recv, (list, frozenset)) and m in ("issubset", "issuperset", "isdisjoint", "union", "intersection", "difference") and len(n.args) == 1:
                a_ = [self.pyval(x_) for x_ in recv]
                b_ = [self.pyval(x_) for x_ in self.iterate(self.ex(n.args[0]))]
                if any(isinstance(x_, (Rat, Ten, Obj, TText)) for x_ in a_ + b_):
                    raise Unsupported("set operation on symbolic values")
                sa_, sb_ = set(a_), set(b_)
                if m in ("issubset", "issuperset", "isdisjoint"):
                    return getattr(sa_, m)(sb_)
                return sorted(getattr(sa_, m)(sb_))
            if isinstance(recv, PSet) and m == "add":
                recv.add(self.ex(n.args[0]))
                return None
            if isinstance(recv, list) and m in ("insert", "remove", "pop", "index"):
                args = [self.ex(a) for a in n.args]
                if m == "insert":
                    recv.insert(self.concrete(args[0]), args[1])
                    return None
                if m == "pop":
                    return recv.pop(*[self.concrete(a) for a in args])
                hits = [k for k, x in enumerate(recv) if x is args[0] or (not isinstance(x, (Obj, Ten, Rat)) and not isinstance(args[0], (Obj, Ten, Rat)) and x == args[0])]
                if not hits:
                    raise Unsupported("list.%s of a value that is not in the list" % m)
                if m == "index":
                    return hits[0]
                del recv[hits[0]]
                return None
            if isinstance(recv, dict) and m == "update":
                other = self.ex(n.args[0]) if n.args else {}
                if not isinstance(other, dict):
                    raise Unsupported("dict.update with %s" % type(other).__name__)
                recv.update(other)
                for k in n.keywords:
                    recv[k.arg] = self.ex(k.value)
                return None
            if isinstance(recv, dict) and m in ("setdefault", "pop", "clear"):
                args_ = [self.ex(a) for a in n.args]
                if m == "clear":
                    recv.clear()
                    return None
                k_ = self.pyval(args_[0])
                if isinstance(k_, (Rat, Ten)):
                    raise Unsupported("dict.%s with a symbolic key" % m)
                if m == "setdefault":
                    return recv.setdefault(k_, args_[1] if len(args_) > 1 else None)
                if k_ in recv:
                    return recv.pop(k_)
                if len(args_) > 1:
                    return args_[1]
                raise Raised("the analysed path raises: KeyError(%r)" % (k_,), "KeyError(%r)" % (k_,))
            if isinstance(recv, dict) and m in ("items", "keys", "values", "get", "copy"):
                if m == "items":
                    return [(k, v) for k, v in recv.items()]
                if m == "keys":
                    return list(recv.keys())
                if m == "values":
                    return list(recv.values())
                if m == "copy":
                    return dict(recv)
                args_ = [self.ex(a) for a in n.args]
                return recv.get(self.pyval(args_[0]), args_[1] if len(args_) > 1 else None)
            if isinstance(recv, (str, FStr, TText)) and m in ("encode", "decode"):
                return recv         # text and its encoded form are not told apart
            if isinstance(recv, FStr) and m in ("split", "strip", "rstrip", "lstrip", "startswith", "index", "find"):
                recv = TText(recv.parts)
            if isinstance(recv, TText):
                args_ = [self.pyval(self.ex(a)) for a in n.args]
                if m == "split" and not args_:
                    return recv.split()
                if m in ("strip", "rstrip", "lstrip") and not args_:
                    return recv.strip(left=m != "rstrip", right=m != "lstrip")
                if m == "startswith" and len(args_) == 1 and isinstance(args_[0], str):
                    return recv.startswith(args_[0])
                if m in ("index", "find") and args_ and isinstance(args_[0], str) and len(args_[0]) > 1 and len(args_) == 1:
                    # a word: at the start of the line, absent, or (undecided) somewhere inside
                    if recv.startswith(args_[0]):
                        return 0
                    if not recv.contains(args_[0]):
                        if m == "find":
                            return -1
                        raise Raised("the analysed path raises: ValueError (substring not found)", "ValueError('substring not found')")
                    raise Unsupported("position of %r inside formatted text" % args_[0])
                if m in ("index", "find") and args_ and isinstance(args_[0], str):
                    k_ = recv.index(args_[0], args_[1] if len(args_) > 1 else 0)
                    if k_ is None:
                        if m == "find":
                            return -1
                        raise Raised("the analysed path raises: ValueError (substring not found)", "ValueError('substring not found')")
                    return k_
                raise Unsupported("method %s of formatted text" % m)
            if isinstance(recv, str) and m == "join":
                items_ = self.iterate(self.ex(n.args[0]))
                if any(isinstance(x_, FStr) for x_ in items_) and all(isinstance(x_, (str, FStr)) for x_ in items_):
                    parts_ = []
                    for k_, x_ in enumerate(items_):
                        if k_ and recv:
                            parts_.append(recv)
                        parts_.extend(x_.parts if isinstance(x_, FStr) else [x_])
                    return FStr(parts_)
            if isinstance(recv, str) and m in ("lower", "upper", "strip", "lstrip", "rstrip", "startswith", "endswith", "split", "join", "isalpha", "isdigit", "isspace", "isupper", "islower",
                                               "isalnum", "isnumeric", "title", "capitalize", "replace", "ljust", "rjust", "center", "zfill", "find", "rfind", "index", "count", "partition",
                                               "rpartition", "splitlines", "rsplit", "swapcase", "expandtabs"):
                args_ = [self.pyval(self.ex(a)) for a in n.args]
                if all(isinstance(a, (str, int, tuple, list)) for a in args_) and not any(isinstance(x, (Rat, Ten, Obj)) for a in args_ if isinstance(a, (list, tuple)) for x in a):
                    try:
                        return getattr(recv, m)(*args_)
                    except ValueError as e_:
                        raise Raised("the analysed path raises: ValueError (%s)" % e_, "ValueError(%r)" % str(e_))
            if isinstance(recv, str) and m == "format":
                # "..{:9.3f}..".format(a, b): the template's literal pieces and the values formatted into it, in order
                args_ = self.call_args(n)
                kw_ = {k.arg: self.ex(k.value) for k in n.keywords if k.arg}
                import string as _string
                parts, auto = [], 0
                for lit, field, spec, conv in _string.Formatter().parse(recv):
                    if lit:
                        parts.append(lit)
                    if field is None:
                        continue
                    if field == "":
                        key_, auto = auto, auto + 1
                    elif field.isdigit():
                        key_ = int(field)
                    else:
                        key_ = field
                    if isinstance(key_, int):
                        if key_ >= len(args_):
                            raise Raised("the analysed path raises: IndexError (format field %d of %d arguments)" % (key_, len(args_)), "IndexError('format')")
                        val_ = args_[key_]
                    else:
                        if key_ not in kw_:
                            raise Unsupported("format field %r" % key_)
                        val_ = kw_[key_]
                    parts.append(FVal(val_, spec or "", conv))
                return FStr(parts)
            raise Unsupported("method call %s" % src(n)[:50])
        # ---- classes given by their source
        if cn in self.classes and cn not in self.models:
            return self.instantiate(cn, [self.ex(a) for a in n.args], {k.arg: self.ex(k.value) for k in n.keywords if k.arg})
        if cn == "setattr" and len(n.args) == 3 and "setattr" not in self.models:
            o_ = self.ex(n.args[0])
            nm_ = self.pyval(self.ex(n.args[1]))
            if isinstance(o_, Obj) and isinstance(nm_, str):
                setattr(o_, nm_, self.ex(n.args[2]))
                return None
            raise Unsupported("setattr on %s" % type(o_).__name__)
        if cn in ("getattr", "hasattr") and len(n.args) >= 2:
            o_ = self.ex(n.args[0])
            nm_ = self.pyval(self.ex(n.args[1]))
            if isinstance(o_, Obj) and isinstance(nm_, str):
                probe = ast.Attribute(value=ast.Constant(value=None), attr=nm_, ctx=ast.Load())
                saved = self.env.get("__probe__")
                self.env["__probe__"] = o_
                probe.value = ast.Name(id="__probe__", ctx=ast.Load())
                try:
                    v_ = self.ex(probe)
                    found = True
                except Raised as e:
                    if not (e.exc or "").startswith("AttributeError"):
                        raise
                    found, v_ = False, None
                finally:
                    if saved is None:
                        self.env.pop("__probe__", None)
                    else:
                        self.env["__probe__"] = saved
                if cn == "hasattr":
                    return found
                if found:
                    return v_
                if len(n.args) >= 3:
                    return self.ex(n.args[2])
                raise Raised("the analysed path raises AttributeError", "AttributeError(%r)" % nm_)
            if cn == "hasattr" and isinstance(nm_, str):
                if isinstance(o_, (list, tuple, dict, frozenset)):
                    return nm_ in ("__iter__", "__len__", "__getitem__", "__contains__")
                if isinstance(o_, Ten):
                    return nm_ in ("shape", "ndim", "dtype", "T", "__iter__", "__len__", "__getitem__", "copy", "astype")
                return False
        if cn == "iter" and len(n.args) == 1:
            return list(self.iterate(self.ex(n.args[0])))
        # ---- a function value obtained from a container / expression: table[key](args)
        if isinstance(n.func, (ast.Subscript, ast.Call, ast.IfExp, ast.Lambda)):
            f = self.ex(n.func)
            if isinstance(f, tuple) and f[:1] == ("<lambda>",):
                return self.apply_lambda(f, [self.ex(a) for a in n.args])
            if isinstance(f, tuple) and f[:1] == ("<closure>",):
                return self.apply_closure(f, n)
            if callable(f) and not isinstance(f, (Obj, str)):
                return f(*self.call_args(n), **{k_.arg: self.ex(k_.value) for k_ in n.keywords if k_.arg})
            raise Unsupported("call of %s" % src(n.func)[:40])
        # ---- local functions and lambdas held in variables
        if isinstance(n.func, ast.Name) and n.func.id in self.env and isinstance(self.env[n.func.id], tuple) and self.env[n.func.id][:1] in (("<closure>",), ("<lambda>",)):
            f = self.env[n.func.id]
            if f[0] == "<lambda>":
                return self.apply_lambda(f, [self.ex(a) for a in n.args])
            return self.apply_closure(f, n)
        # ---- summarised / inlined package functions
        if cn in self.models:
            return self.models[cn](self, n)
        if cn in self.funcs:
            return self.inline(self.funcs[cn], n)
        if isinstance(n.func, ast.Name) and cn.startswith("_") and cn not in self.env:
            # a private helper of the module the analysed function lives in (a block that a refactoring moved out): evaluated from its source
            hf_ = self.same_module_function(cn)
            if hf_ is not None:
                return self.inline(hf_, n)
        A = lambda i: self.ex(n.args[i])      # noqa: E731
        if cn in ("np.array", "np.asarray", "np.ascontiguousarray", "np.asfortranarray"):
            v = A(0)
            if isinstance(v, Ten) and cn == "np.array" and self.kw(n, "copy", None, True) is not False:
                return Ten(v.shape, v.data)         # np.array copies unless told not to
            if isinstance(v, (list, tuple)) and v and all(x_ is None for x_ in v):
                return list(v)      # an object array of None: kept as the list it was made from
            res = self.to_ten(v) if isinstance(v, (list, tuple)) else v
            dt = n.args[1] if len(n.args) > 1 else next((k.value for k in n.keywords if k.arg == "dtype"), None)
            if isinstance(res, Ten) and res.isbool and dt is not None and "bool" not in src(dt):
                res = Ten(res.shape, res.data)      # an explicit numeric dtype: 0 / 1 numbers, not a mask
            return res
        if cn in ("np.broadcast_to",):
            t = self.to_ten(A(0))
            shp = self.shape_arg(self.kw(n, "shape", 1))
            try:
                bshape(t.shape, tuple(shp))
            except Unsupported:
                raise
            if len(shp) < t.ndim or any(a_ not in (1, b_) for a_, b_ in zip(reversed(t.shape), reversed(shp))):
                raise ShapeError("np.broadcast_to: shape %s does not broadcast to %s" % (t.shape, tuple(shp)))
            return bcast(t, tuple(shp))
        if cn in ("np.expand_dims",):
            t = self.to_ten(A(0))
            ax = self.concrete(self.kw(n, "axis", 1))
            ax = ax % (t.ndim + 1)
            return t.reshape(list(t.shape[:ax]) + [1] + list(t.shape[ax:]))
        if cn in ("np.swapaxes",):
            t = self.to_ten(A(0))
            a, b = self.concrete(A(1)), self.concrete(A(2))
            perm = list(range(t.ndim))
            perm[a], perm[b] = perm[b], perm[a]
            return t.transpose(perm)
        if cn in ("np.transpose",):
            t = self.to_ten(A(0))
            perm = self.kw(n, "axes", 1)
            return t.transpose([self.concrete(x) for x in perm] if perm else None)
        if cn in ("np.reshape",):
            return self.to_ten(A(0)).reshape([self.concrete(x) for x in A(1)])
        if cn in ("np.prod",):
            t = self.to_ten(A(0))
            axis = self.kw(n, "axis", 1)
            return self.unwrap(t.reduce(axis if axis is None or isinstance(axis, (tuple, list)) else self.concrete(axis), op=lambda x, y: x * y))
        if cn in ("np.sum", "np.mean", "np.average"):
            t = self.to_ten(A(0))
            axis = self.kw(n, "axis", 1)
            keep = bool(self.kw(n, "keepdims", None, False))
            w = self.kw(n, "weights") if cn == "np.average" else None
            if w is not None:
                wt = self.to_ten(w)
                ax = self.concrete(axis)
                shape = [1] * t.ndim
                shape[ax % t.ndim] = wt.shape[0]
                num = self.elementwise(lambda x, y: x * y, t, wt.reshape(shape)).reduce(ax, keep)
                return self.unwrap(self.elementwise(lambda x, y: x / y, num, wt.reduce(None)))
            return self.unwrap(t.reduce(axis if axis is None or isinstance(axis, (tuple, list)) else self.concrete(axis), keep, mean=(cn != "np.sum")))
        if cn in ("np.dot", "np.inner", "np.matmul"):
            return self.dot(A(0), A(1))
        if cn in ("np.einsum",):
            spec = A(0)
            if not isinstance(spec, str):
                raise Unsupported("einsum with computed subscripts")
            return self.unwrap(einsum(spec, [self.to_ten(self.ex(a)) for a in n.args[1:]]))
        if cn in ("np.arange",):
            raw_ = [self.lift(self.ex(a)) for a in n.args]
            try:
                args_ = [self.concrete(v_) for v_ in raw_]
            except Unsupported:
                # arange(start, stop, step) with a symbolic positive step: the count k with stop - start == k*step
                if len(raw_) == 3 and all(isinstance(v_, Rat) for v_ in raw_) and self.sign(raw_[2]) == 1:
                    for k_ in range(0, 65):
                        if (raw_[1] - raw_[0] - raw_[2] * Rat(Poly.const(k_))).n.is_zero():
                            return Ten((k_,), [raw_[0] + raw_[2] * Rat(Poly.const(i)) for i in range(k_)])
                raise
            return Ten((len(range(*args_)),), [Rat(Poly.const(i)) for i in range(*args_)])
        if cn in ("np.full",):
            shp = self.shape_arg(self.kw(n, "shape", 0))
            return Ten.full(shp, self.lift(self.kw(n, "fill_value", 1)))
        if cn in ("np.int64", "np.int32", "np.float32", "np.float64", "float", "bool") and len(n.args) == 1:
            v_ = A(0)
            if cn != "bool" and isinstance(v_, (str, TText)):
                try:
                    return (TText([v_]) if isinstance(v_, str) else v_).number("float" if "float" in cn else "int")
                except ValueError as e_:
                    raise Raised("the analysed path raises: ValueError (%s)" % e_, "ValueError('float')")
            if cn == "bool":
                if isinstance(v_, (dict, list, tuple, str, frozenset)):
                    return bool(v_)
                return self.truth(v_)
            return v_
        if cn in ("np.eye", "np.identity"):
            k = self.concrete(A(0))
            return Ten((k, k), [Rat(Poly.const(1 if i == j else 0)) for i in range(k) for j in range(k)])
        if cn in ("np.zeros", "np.ones", "np.empty"):
            shp = self.shape_arg(self.kw(n, "shape", 0))
            if cn == "np.empty":
                out = []
                for _ in range(prod(shp)):
                    _UNDEF[0] += 1
                    out.append(Rat(Poly.var("undef#%d" % _UNDEF[0])))
                return Ten(shp, out)
            return Ten.full(shp, Rat(Poly.const(0 if cn == "np.zeros" else 1)))
        if cn in ("np.zeros_like", "np.ones_like", "np.empty_like"):
            t = self.to_ten(A(0))
            if cn == "np.empty_like":
                out = []
                for _ in range(prod(t.shape)):
                    _UNDEF[0] += 1
                    out.append(Rat(Poly.var("undef#%d" % _UNDEF[0])))
                return Ten(t.shape, out)
            return Ten.full(t.shape, Rat(Poly.const(0 if cn == "np.zeros_like" else 1)))
        if cn in ("np.sqrt", "np.cos", "np.sin", "np.arccos", "np.exp", "np.log", "np.abs", "np.cbrt", "np.tan", "np.arcsin"):
            f = {"arccos": "acos", "arcsin": "asin"}.get(last, last)
            if f == "abs":
                def _abs(x):
                    c_ = x.const_value() if isinstance(x, Rat) else None
                    return Rat(Poly.const(abs(c_))) if c_ is not None else self.fn("abs", x)
                return self.into_out(n, 1, self.elementwise(_abs, A(0)))
            return self.into_out(n, 1, self.elementwise(lambda x: self.fn(f, x), A(0)))
        if cn in ("np.allclose",):
            ta, tb = self.to_ten(A(0)), self.to_ten(A(1))
            rtol = self.kw(n, "rtol", 2, None)
            atol = self.kw(n, "atol", 3, None)
            rt = Fraction(1, 100000) if rtol is None else self.lift(rtol).const_value()
            at = Fraction(1, 100000000) if atol is None else self.lift(atol).const_value()
            diffs = self.elementwise(lambda x, y: x - y, ta, tb)
            refs = self.elementwise(lambda x, y: y, ta, tb)
            dl = self.to_ten(diffs).data
            rl = self.to_ten(refs).data
            if rt is None or at is None or any(d_.const_value() is None or r_.const_value() is None for d_, r_ in zip(dl, rl)):
                raise Unsupported("np.allclose of symbolic values")
            return all(abs(d_.const_value()) <= at + rt * abs(r_.const_value()) for d_, r_ in zip(dl, rl))
        if cn in ("np.arctan2",):
            return self.into_out(n, 2, self.elementwise(lambda y, x: self.fn("arctan2", y, x), A(0), A(1)))
        if cn in ("np.square",):
            return self.elementwise(lambda x: x * x, A(0))
        if cn in ("np.radians", "np.deg2rad"):
            return self.elementwise(lambda x: x * PI / 180, A(0))
        if cn in ("np.degrees", "np.rad2deg"):
            return self.elementwise(lambda x: x * 180 / PI, A(0))
        if cn in ("np.linalg.norm",):
            t = self.to_ten(A(0))
            axis = self.kw(n, "axis", None)
            sq = t.map(lambda x: x * x).reduce(None if axis is None else self.concrete(axis))
            return self.unwrap(sq.map(lambda x: self.fn("sqrt", x)))
        if cn in ("np.linalg.eigvalsh", "np.linalg.eigvals"):
            t = self.to_ten(A(0))
            return self.opaque_tensor(last, [t], t.shape[:-1])
        if cn in ("np.linalg.eig", "np.linalg.eigh"):
            t = self.to_ten(A(0))
            return (self.opaque_tensor(last + ".w", [t], t.shape[:-1]), self.opaque_tensor(last + ".v", [t], t.shape))
        if cn in ("np.linalg.det",):
            t = self.to_ten(A(0))
            if t.shape[-2:] != (3, 3):
                raise Unsupported("det of %s" % (t.shape,))
            lead = t.shape[:-2]
            out = []
            for multi in itertools.product(*[range(s) for s in lead]):
                m = [[t.at(list(multi) + [i, j]) for j in range(3)] for i in range(3)]
                out.append(m[0][0] * (m[1][1] * m[2][2] - m[1][2] * m[2][1]) - m[0][1] * (m[1][0] * m[2][2] - m[1][2] * m[2][0]) + m[0][2] * (m[1][0] * m[2][1] - m[1][1] * m[2][0]))
            return self.unwrap(Ten(lead, out))
        if cn in ("np.cross",):
            a, b = self.to_ten(A(0)), self.to_ten(A(1))
            sh = bshape(a.shape, b.shape)
            a, b = bcast(a, sh), bcast(b, sh)
            if sh[-1] != 3:
                raise ShapeError("cross product of vectors of length %d" % sh[-1])
            out = []
            for multi in itertools.product(*[range(s) for s in sh[:-1]]):
                x = [a.at(list(multi) + [k]) for k in range(3)]
                y = [b.at(list(multi) + [k]) for k in range(3)]
                out += [x[1] * y[2] - x[2] * y[1], x[2] * y[0] - x[0] * y[2], x[0] * y[1] - x[1] * y[0]]
            return Ten(sh, out)
        if cn in ("np.atleast_1d",):
            t = self.to_ten(A(0))
            return t if t.ndim >= 1 else t.reshape([1])
        if cn in ("np.concatenate", "np.hstack") :
            items = [self.to_ten(x) for x in self.iterate(A(0))]
            if not items:
                raise ShapeError("need at least one array to concatenate")
            axis = self.concrete(self.kw(n, "axis", 1, 0)) if cn == "np.concatenate" else (0 if items[0].ndim == 1 else 1)
            axis %= items[0].ndim
            ref = items[0].shape
            for it in items[1:]:
                if it.ndim != len(ref) or any(it.shape[k] != ref[k] for k in range(len(ref)) if k != axis):
                    raise ShapeError("arrays of shapes %s cannot be concatenated along axis %d" % ([i.shape for i in items], axis))
            shape = list(ref)
            shape[axis] = sum(i.shape[axis] for i in items)
            out = []
            for multi in itertools.product(*[range(s_) for s_ in shape]):
                k = multi[axis]
                for it in items:
                    if k < it.shape[axis]:
                        m2 = list(multi)
                        m2[axis] = k
                        out.append(it.at(m2))
                        break
                    k -= it.shape[axis]
            return Ten(shape, out)
        if cn in ("np.vstack", "np.stack", "np.dstack", "np.column_stack"):
            items = [self.to_ten(x) for x in A(0)]
            if cn in ("np.vstack",) or (cn == "np.stack" and self.concrete(self.kw(n, "axis", 1, 0)) == 0):
                items = [i.reshape([1, -1]) if i.ndim == 1 and cn == "np.vstack" else i for i in items]
                if cn == "np.stack":
                    return self.to_ten([i for i in items])
                return Ten((sum(i.shape[0] for i in items),) + items[0].shape[1:], [e for i in items for e in i.data])
            if cn == "np.column_stack":
                return self.to_ten([i for i in items]).transpose()
            if cn == "np.dstack":
                items = [i.reshape([1, -1, 1]) if i.ndim == 1 else (i.reshape(list(i.shape) + [1]) if i.ndim == 2 else i) for i in items]
                # concatenate along axis 2
                sh = items[0].shape
                out = []
                for multi in itertools.product(range(sh[0]), range(sh[1])):
                    for i in items:
                        for k in range(i.shape[2]):
                            out.append(i.at(list(multi) + [k]))
                return Ten((sh[0], sh[1], sum(i.shape[2] for i in items)), out)
            raise Unsupported("call %s" % cn)
        if cn in ("np.cumsum", "np.cumprod") and n.args:
            t_ = self.to_ten(self.ex(n.args[0]))
            ax_ = self.pyval(self.kw(n, "axis", 1))
            if t_.ndim != 1 and ax_ is not None:
                raise Unsupported("%s along an axis of an array of shape %s" % (cn, t_.shape))
            acc_, out_ = Rat(Poly.const(0 if cn == "np.cumsum" else 1)), []
            for x_ in t_.data:
                acc_ = acc_ + x_ if cn == "np.cumsum" else acc_ * x_
                out_.append(acc_)
            return Ten((len(out_),), out_)
        if cn in ("np.flatnonzero", "np.nonzero", "np.argwhere") and len(n.args) == 1:
            t_ = self.to_ten(self.ex(n.args[0]))
            cs_ = [x.const_value() for x in t_.data]
            if any(c_ is None for c_ in cs_) or (cn != "np.flatnonzero" and t_.ndim != 1):
                raise Unsupported("%s of symbolic values / of an array of shape %s" % (cn, t_.shape))
            idx_ = Ten((sum(1 for c_ in cs_ if c_ != 0),), [Rat(Poly.const(i_)) for i_, c_ in enumerate(cs_) if c_ != 0])
            if cn == "np.nonzero":
                return (idx_,)
            if cn == "np.argwhere":
                return Ten((idx_.shape[0], 1), list(idx_.data))
            return idx_
        if cn in ("np.logical_not", "np.logical_and", "np.logical_or", "np.invert"):
            ts_ = [self.to_ten(self.ex(a)) for a in n.args]

            def tv_(x):
                c_ = x.const_value()
                return None if c_ is None else (c_ != 0)
            if cn in ("np.logical_not", "np.invert"):
                res = Ten(ts_[0].shape, [Rat(Poly.const(int(not tv_(x)))) if tv_(x) is not None else self.fn("not", x) for x in ts_[0].data])
            else:
                sh = bshape(ts_[0].shape, ts_[1].shape)
                a_, b_ = bcast(ts_[0], sh), bcast(ts_[1], sh)
                is_and = cn == "np.logical_and"
                out_ = []
                for x, y in zip(a_.data, b_.data):
                    tx, ty = tv_(x), tv_(y)
                    if tx is not None and ty is not None:
                        out_.append(Rat(Poly.const(int((tx and ty) if is_and else (tx or ty)))))
                    elif (is_and and (tx is False or ty is False)) or (not is_and and (tx is True or ty is True)):
                        out_.append(Rat(Poly.const(0 if is_and else 1)))
                    elif tx is not None or ty is not None:
                        out_.append(y if tx is not None else x)      # True and y = y; False or y = y
                    else:
                        out_.append(self.fn("and" if is_and else "or", x, y))
                res = Ten(sh, out_)
            res.isbool = True
            return res if res.shape != () else (bool(self.concrete(res.data[0])) if res.data[0].const_value() is not None else res)
        if cn in ("np.clip",):
            t = self.to_ten(A(0))
            lo, hi = self.lift(A(1)), self.lift(A(2))
            outp = self.kw(n, "out", 3, None)

            def cl(x):
                try:
                    if self.sign(x - lo) < 0:
                        return lo
                    if self.sign(x - hi) > 0:
                        return hi
                except Unsupported:
                    return self.fn("clip", x, lo, hi)      # a symbolic operand: clip stays an opaque function of (x, lo, hi)
                return x
            res = Ten(t.shape, [cl(x) for x in t.data])
            if isinstance(outp, Ten):
                outp.data[:] = res.data
                return outp
            return self.unwrap(res)
        if cn in ("np.tile",):
            t = self.to_ten(A(0))
            reps = A(1)
            reps = [self.concrete(x) for x in reps] if isinstance(reps, (list, tuple)) else [self.concrete(reps)]
            if len(reps) < t.ndim:
                reps = [1] * (t.ndim - len(reps)) + reps
            if len(reps) > t.ndim:
                t = t.reshape([1] * (len(reps) - t.ndim) + list(t.shape))
            for ax, r_ in enumerate(reps):
                idx = list(range(t.shape[ax])) * r_
                t = self.getitem(t, tuple([slice(None)] * ax + [idx]))
                t.view = False
            return t
        if cn in ("np.repeat",):
            t = self.to_ten(A(0))
            reps = self.concrete(A(1))
            axis = self.kw(n, "axis", 2)
            if axis is None:
                return Ten((prod(t.shape) * reps,), [e for e in t.data for _ in range(reps)])
            axis = self.concrete(axis) % t.ndim
            idx = [i for i in range(t.shape[axis]) for _ in range(reps)]
            key = tuple([slice(None)] * axis + [idx])
            r = self.getitem(t, key)
            r.view = False
            return r
        if cn in ("len",):
            v = A(0)
            if isinstance(v, Ten):
                return v.shape[0]
            if isinstance(v, (list, tuple, str)):
                return len(v)
            if isinstance(v, Obj) and "n_frames" in (v.__dict__.get("_getters") or {}):
                return v._getters["n_frames"](v)
            if isinstance(v, Obj) and hasattr(v, "n_frames"):
                return v.n_frames
            if isinstance(v, TText):
                return v.total_width()
            if isinstance(v, FStr):
                # the length of formatted text: known only when every value is itself text; else a symbol (a test on it is put to the rule's `assume`)
                if all(isinstance(p_, str) or (isinstance(p_.value, str) and not p_.spec) for p_ in v.parts):
                    return sum(len(p_) if isinstance(p_, str) else len(p_.value) for p_ in v.parts)
                _UNDEF[0] += 1
                return Rat(Poly.var("len(text#%d)" % _UNDEF[0]))
            if v is None or isinstance(v, (bool, int, float, Rat)):
                raise Raised("the analysed path raises: TypeError (object of type %s has no len())" % type(v).__name__, "TypeError('len')")
            if isinstance(v, (dict, set, frozenset)):
                return len(v)
            raise Unsupported("len of %s" % type(v).__name__)
        if cn in ("range",):
            return list(range(*[self.concrete(self.ex(a)) for a in n.args]))
        if cn in ("match", "re.match", "re.search", "search", "re.fullmatch", "fullmatch") and len(n.args) == 2 and cn not in self.funcs:
            pat_, txt_ = A(0), A(1)
            if isinstance(txt_, FStr):
                txt_ = TText(txt_.parts)
            if isinstance(pat_, str) and isinstance(txt_, (str, TText)):
                from .ttext import samples as _samples
                ss_ = _samples(txt_)
                if ss_ is None:
                    raise Unsupported("regular expression on a cut field")
                f_ = getattr(re, cn.split(".")[-1])
                rs_ = [f_(pat_, x_) is not None for x_ in ss_]
                if all(rs_) or not any(rs_):
                    return rs_[0]       # decided on representative renderings of the formatted values (positive / negative / zero-or-small)
                raise Unsupported("%s(%r, ..) depends on the value formatted: %r" % (cn, pat_, txt_))
        if cn == "abs" and len(n.args) == 1 and cn not in self.env:
            v_ = self.lift(A(0))
            if isinstance(v_, int) and not isinstance(v_, bool):
                return abs(v_)
            if isinstance(v_, Rat):
                c_ = v_.const_value()
                if c_ is not None:
                    r_ = abs(c_)
                    return int(r_) if r_.denominator == 1 else Rat(Poly.const(r_))
                return self.fn("abs", v_)
            if isinstance(v_, Ten):
                return self.elementwise(lambda x_: (Rat(Poly.const(abs(x_.const_value()))) if x_.const_value() is not None else self.fn("abs", x_)), v_)
            raise Unsupported("abs of %s" % type(v_).__name__)
        if cn in ("chr", "ord") and len(n.args) == 1 and cn not in self.env:
            v_ = self.pyval(A(0))
            if cn == "chr" and isinstance(v_, int):
                return chr(v_)
            if cn == "ord" and isinstance(v_, str) and len(v_) == 1:
                return ord(v_)
            raise Unsupported("%s of %r" % (cn, v_))
        if cn == "locals" and not n.args and cn not in self.env:
            return {k_: v_ for k_, v_ in self.env.items() if not k_.startswith("__")}
        if cn == "format" and 1 <= len(n.args) <= 2 and cn not in self.funcs and cn not in self.env:
            v_ = A(0)
            spec_ = self.pyval(A(1)) if len(n.args) == 2 else ""
            if isinstance(spec_, str):
                pv_ = self.pyval(v_)
                if isinstance(pv_, (int, str)) and not isinstance(pv_, bool):
                    try:
                        return format(pv_, spec_)
                    except (TypeError, ValueError) as e_:
                        raise Raised("the analysed path raises: %s" % e_, type(e_).__name__)
                return FStr([FVal(v_, spec_)])
        if cn in ("sub", "re.sub") and len(n.args) == 3 and cn not in self.funcs:
            a_ = [self.pyval(self.ex(x_)) for x_ in n.args]
            if all(isinstance(x_, str) for x_ in a_):
                return re.sub(a_[0], a_[1], a_[2])
        if cn in ("findall", "re.findall") and len(n.args) == 2 and cn not in self.funcs:
            pat_, txt_ = A(0), A(1)
            if isinstance(txt_, FStr):
                txt_ = TText(txt_.parts)
            if isinstance(pat_, str) and isinstance(txt_, (str, TText)):
                from .ttext import findall as _findall
                return _findall(pat_, txt_)
        if cn == "map" and len(n.args) == 2 and isinstance(n.args[0], (ast.Name, ast.Attribute)):
            out_ = []
            for it_ in self.iterate(A(1)):
                self.env["__map_item"] = it_
                out_.append(self.ex(ast.copy_location(ast.Call(func=n.args[0], args=[ast.Name(id="__map_item", ctx=ast.Load())], keywords=[]), n)))
            self.env.pop("__map_item", None)
            return out_
        if cn in ("itertools.count", "count") and len(n.args) <= 2 and cn not in self.env:
            return itertools.count(*[self.concrete(self.ex(a_)) for a_ in n.args])
        if cn == "next" and n.args:
            it_ = A(0)
            if hasattr(it_, "__next__"):
                try:
                    return next(it_)
                except StopIteration:
                    if len(n.args) > 1:
                        return A(1)
                    raise Raised("the analysed path raises: StopIteration", "StopIteration")
            raise Unsupported("next() of %s" % type(it_).__name__)
        if cn in ("enumerate",):
            it_ = self.iterate(A(0))
            start_ = self.concrete(self.kw(n, "start", 1, 0))
            if not isinstance(it_, list):
                return ((i, x) for i, x in enumerate(it_, start_))      # a file-like model that is consumed as it is read
            return [(i, x) for i, x in enumerate(it_, start_)]
        if cn in ("zip",):
            return list(zip(*[self.iterate(self.ex(a)) for a in n.args]))
        if cn == "dict" and not n.args and all(k.arg is not None for k in n.keywords) and "dict" not in self.models and "dict" not in self.funcs:
            return {k.arg: self.ex(k.value) for k in n.keywords}        # dict(a=1, b=2): options collected to be splatted into a call
        if cn in ("list", "tuple"):
            return (list if cn == "list" else tuple)(self.iterate(A(0)))
        if cn in ("float", "np.float64", "np.float32", "np.double"):
            v_ = A(0)
            if isinstance(v_, (str, TText)):
                try:
                    return (TText([v_]) if isinstance(v_, str) else v_).number("float")
                except ValueError as e_:
                    raise Raised("the analysed path raises: ValueError (%s)" % e_, "ValueError('float')")
            return v_
        if cn == "bool":
            return self.truth(A(0))
        if cn == "slice":
            vs = [self.ex(a) for a in n.args]
            return slice(*[None if v is None else self.concrete(v) for v in vs])
        if cn == "str" and len(n.args) == 1:
            v_ = self.pyval(A(0))
            if isinstance(v_, str):
                return v_
            if isinstance(v_, (int, bool, type(None))):
                return str(v_)
            if isinstance(v_, Fraction) and v_.denominator == 1:
                return str(int(v_))
            raise Unsupported("str() of %s" % type(v_).__name__)
        if cn in ("list", "tuple") and len(n.args) == 1:
            items_ = self.iterate(A(0))
            return list(items_) if cn == "list" else tuple(items_)
        if cn in ("int", "np.ceil", "np.floor", "math.ceil", "math.floor") or (cn in ("ceil", "floor") and cn not in self.funcs and cn not in self.env):
            if cn in ("ceil", "floor"):
                cn = "math." + cn
            v = A(0)
            if cn == "int" and isinstance(v, (str, TText)):
                try:
                    r_ = (TText([v]) if isinstance(v, str) else v).number("int")
                except ValueError as e_:
                    raise Raised("the analysed path raises: ValueError (%s)" % e_, "ValueError('int')")
                return self.pyval(r_)
            v = self.lift(v)
            if isinstance(v, int):
                return v
            c = v.const_value() if isinstance(v, Rat) else None
            if c is None:
                raise Unsupported("%s of a symbolic value" % cn)
            import math
            r = math.ceil(c) if cn.endswith("ceil") else math.floor(c) if cn.endswith("floor") else int(c)
            return r if cn in ("int", "math.ceil", "math.floor") else Rat(Poly.const(r))
        if cn in ("np.power",):
            e = self.lift(A(1))
            return self.elementwise(lambda x: PySym.binop(self, ast.Pow(), x, e, n), A(0))
        if cn in ("np.unique",):
            t = self.to_ten(A(0))
            vals = sorted({self.concrete(x) for x in t.data})
            return Ten((len(vals),), [Rat(Poly.const(v)) for v in vals])
        if cn in ("isinstance",):
            v = A(0)
            tn = src(n.args[1])
            if isinstance(n.args[1], ast.Name) and n.args[1].id in self.env:
                # the types held in a local: `kinds = (list, tuple)`
                tv_ = self.env[n.args[1].id]
                tv_ = list(tv_) if isinstance(tv_, (tuple, list)) and not (len(tv_) == 2 and tv_[0] == "<type>") else [tv_]
                if not all(isinstance(x_, tuple) and len(x_) == 2 and x_[0] == "<type>" for x_ in tv_):
                    raise Unsupported("isinstance with types held in %s" % n.args[1].id)
                tn = " ".join(x_[1] for x_ in tv_)
            if isinstance(v, str):
                return "str" in tn
            if isinstance(v, (list, tuple)):
                return "list" in tn or "tuple" in tn
            if v is None:
                return False
            if isinstance(v, Ten):
                return "ndarray" in tn
            if isinstance(v, Obj):
                return any(c in getattr(v, "_isa", ()) for c in re.findall(r"\w+", tn))
            if isinstance(v, (int, slice)) and not isinstance(v, bool):
                return ("int" in tn and isinstance(v, int)) or ("slice" in tn and isinstance(v, slice))
            if isinstance(v, Rat):
                # a scalar number of the world (a float unless it is a constant integer)
                words_ = set(re.findall(r"\w+", tn))
                c_ = v.const_value()
                if c_ is not None and c_.denominator == 1 and words_ & {"int", "integer", "Integral"}:
                    return True
                return bool(words_ & {"float", "floating", "Number", "Real", "number", "float64", "float32"})
            if isinstance(v, (TText, FStr)):
                return "str" in tn or "bytes" in tn
            raise Unsupported("isinstance on a symbolic value")
        if cn in ("ensure_type",):
            return A(0)
        if cn == "sorted" and any(k.arg == "key" for k in n.keywords):
            items = list(self.iterate(A(0)))
            keyf = self.kw(n, "key")
            if not (isinstance(keyf, tuple) and keyf and keyf[0] == "<lambda>"):
                raise Unsupported("sorted with a key that is not a lambda")
            ks = [self.pyval(self.apply_lambda(keyf, [it])) for it in items]
            if any(isinstance(k_, (Rat, Ten, Obj)) for k_ in ks):
                raise Unsupported("sorted by symbolic keys")
            order = sorted(range(len(items)), key=lambda i_: ks[i_])
            if self.kw(n, "reverse", None, False):
                order.reverse()
            return [items[i_] for i_ in order]
        if cn in ("np.fromiter",):
            return self.to_ten([x for x in self.iterate(A(0))])
        if cn == "set" and not n.args:
            return PSet()
        if cn in ("sorted", "min", "max", "reversed", "set", "abs") and cn != "abs":
            if cn in ("min", "max") and len(n.args) > 1:
                vals = [self.pyval(self.ex(a)) for a in n.args]
            else:
                vals = [self.pyval(x) for x in self.iterate(A(0))]
            if cn == "reversed":
                return list(reversed(vals))
            if cn in ("min", "max") and any(isinstance(v, Rat) for v in vals) and all(isinstance(v, (Rat, int, float, Fraction)) and not isinstance(v, bool) for v in vals) and not n.keywords:
                return self.extreme(cn, [self.lift(v) for v in vals])
            if any(isinstance(v, (Rat, Ten, Obj)) for v in vals):
                raise Unsupported("%s of symbolic values" % cn)
            if cn == "sorted":
                rev = self.kw(n, "reverse", None, False)
                return sorted(vals, reverse=bool(rev))
            if cn == "set":
                return sorted(set(vals))
            return min(vals) if cn == "min" else max(vals)
        if cn == "round":
            v_ = self.lift(A(0))
            c_ = v_.const_value() if isinstance(v_, Rat) else None
            if c_ is None:
                if len(n.args) > 1:
                    raise Unsupported("round of a symbolic value to a number of digits")
                return self.fn("round", v_)      # nearest integer of a symbolic value: an opaque function of that value
            nd = self.concrete(A(1)) if len(n.args) > 1 else None
            r_ = round(c_, nd) if nd is not None else round(c_)
            return r_ if nd is None else Rat(Poly.const(Fraction(r_)))
        if cn == "frozenset":
            vals = [self.pyval(x) for x in (self.iterate(A(0)) if n.args else [])]
            if any(isinstance(v, (Rat, Ten, Obj, list)) for v in vals):
                raise Unsupported("frozenset of symbolic values")
            return frozenset(vals)
        if cn in ("any", "all"):
            vals = [self.truth(x) for x in self.iterate(A(0))]
            return any(vals) if cn == "any" else all(vals)
        if cn in ("itertools.product", "product"):
            import itertools as _it
            return list(_it.product(*[self.iterate(self.ex(a)) for a in n.args]))
        if cn in ("np.diff",):
            t = self.to_ten(A(0))
            if self.concrete(self.kw(n, "n", 1, 1)) != 1:
                raise Unsupported("np.diff with n != 1")
            axis = self.concrete(self.kw(n, "axis", 2, -1)) % t.ndim
            L_ = t.shape[axis]
            hi = self.getitem(t, tuple([slice(None)] * axis + [slice(1, L_)]))
            lo = self.getitem(t, tuple([slice(None)] * axis + [slice(0, L_ - 1)]))
            return self.elementwise(lambda x, y: x - y, hi, lo)
        if cn in ("np.isscalar",):
            v_ = A(0)
            return isinstance(v_, (int, float, Fraction, str, bool)) or (isinstance(v_, Rat))
        if cn in ("np.array_equal",):
            a_, b_ = self.to_ten(A(0)), self.to_ten(A(1))
            return a_.shape == b_.shape and self.equal(a_, b_)
        if cn in ("np.count_nonzero",):
            t = self.to_ten(A(0))
            nz = Ten(t.shape, [Rat(Poly.const(int(self.concrete(x) != 0))) for x in t.data])
            axis = self.kw(n, "axis", 1, None)
            r_ = nz.reduce(None if axis is None else self.concrete(axis))
            return self.unwrap(r_) if isinstance(r_, Ten) else r_
        if cn in ("np.all", "np.any"):
            t = self.to_ten(A(0))
            cs = [x.const_value() for x in t.data]
            if any(c is None for c in cs):
                raise Unsupported("%s of symbolic values" % cn)
            axis = self.kw(n, "axis", 1, None)
            if axis is not None:
                axis = self.concrete(axis) % t.ndim
                f_ = all if cn == "np.all" else any
                moved = t.transpose([k for k in range(t.ndim) if k != axis] + [axis])
                L_ = t.shape[axis]
                vals = [x.const_value() != 0 for x in moved.data]
                res = Ten(moved.shape[:-1], [Rat(Poly.const(int(f_(vals[k * L_:(k + 1) * L_])))) for k in range(prod(moved.shape[:-1]))])
                res.isbool = True
                return res
            return all(c != 0 for c in cs) if cn == "np.all" else any(c != 0 for c in cs)
        if cn in ("sum",):
            tot = Rat(Poly.const(0))
            for x in self.iterate(A(0)):
                tot = self.binop(ast.Add(), tot, x)
            return tot
        if cn in ("np.max", "np.min", "np.amax", "np.amin") and not any(k.arg == "axis" for k in n.keywords) and len(n.args) == 1:
            t = self.to_ten(A(0))
            cs = [x.const_value() for x in t.data]
            if any(c is None for c in cs):
                return self.extreme(last[-3:], t.data)
            return Rat(Poly.const(max(cs) if last in ("max", "amax") else min(cs)))
        if cn in ("np.diagonal", "np.diag", "np.trace") and n.args:
            t = self.to_ten(A(0))
            if cn == "np.diag" and t.ndim == 1:
                m_ = t.shape[0]
                zero_ = Rat(Poly.const(0))
                return Ten((m_, m_), [t.data[i_] if i_ == j_ else zero_ for i_ in range(m_) for j_ in range(m_)])
            off = self.pyval(self.kw(n, "offset" if cn != "np.diag" else "k", 1)) or 0
            ax1 = self.pyval(self.kw(n, "axis1", 2)) if cn != "np.diag" else None
            ax2 = self.pyval(self.kw(n, "axis2", 3)) if cn != "np.diag" else None
            ax1 = 0 if ax1 is None else ax1 % t.ndim
            ax2 = 1 if ax2 is None else ax2 % t.ndim
            if t.ndim < 2 or ax1 == ax2 or not isinstance(off, int):
                raise Unsupported("%s of an array of shape %s" % (cn, t.shape))
            # numpy: the diagonal goes to the last axis, the other axes keep their order
            rest = [a_ for a_ in range(t.ndim) if a_ not in (ax1, ax2)]
            i0, j0 = (0, off) if off >= 0 else (-off, 0)
            ln = max(0, min(t.shape[ax1] - i0, t.shape[ax2] - j0))
            out, st_ = [], t.strides()
            for multi in itertools.product(*[range(t.shape[a_]) for a_ in rest]):
                for d_ in range(ln):
                    full = [0] * t.ndim
                    for a_, v_ in zip(rest, multi):
                        full[a_] = v_
                    full[ax1], full[ax2] = i0 + d_, j0 + d_
                    out.append(t.data[sum(i_ * s_ for i_, s_ in zip(full, st_))])
            r_ = Ten(tuple(t.shape[a_] for a_ in rest) + (ln,), out)
            if cn == "np.trace":
                sums = [sum(out[k_ * ln:(k_ + 1) * ln], Rat(Poly.const(0))) for k_ in range(len(out) // ln if ln else 0)]
                return sums[0] if not rest else Ten(tuple(t.shape[a_] for a_ in rest), sums)
            return r_
        if cn in ("np.argmin", "np.argmax", "np.argsort"):
            t = self.to_ten(A(0))
            axis = self.kw(n, "axis", 1)
            cs = [x.const_value() for x in t.data]
            if t.ndim == 1 and all(c is not None for c in cs):
                # concrete values (index arrays): numpy's answer - argsort is stable for equal keys whatever `kind` is asked for only with
                # kind='stable' / 'mergesort'; with distinct keys every kind agrees
                if cn == "np.argsort":
                    kind = self.kw(n, "kind", 2)
                    if len(set(cs)) != len(cs) and self.pyval(kind) not in ("stable", "mergesort"):
                        raise Unsupported("np.argsort of equal keys without kind='stable': the order is unspecified")
                    return Ten((len(cs),), [Rat(Poly.const(i_)) for i_ in sorted(range(len(cs)), key=lambda i_: cs[i_])])
                best = min(cs) if cn == "np.argmin" else max(cs)
                return Rat(Poly.const(cs.index(best)))
            ax_ = self.pyval(axis)
            if t.ndim == 2 and ax_ in (1, -1) and all(c is not None for c in cs) and cn in ("np.argmin", "np.argmax"):
                w_ = t.shape[1]
                rows_ = [cs[r_ * w_:(r_ + 1) * w_] for r_ in range(t.shape[0])]
                return Ten((t.shape[0],), [Rat(Poly.const(r_.index(min(r_) if cn == "np.argmin" else max(r_)))) for r_ in rows_])
            raise Unsupported("%s depends on the order of symbolic values" % cn)
        raise Unsupported("call %s" % cn)

    def dot(self, a, b):
        a, b = self.to_ten(self.lift(a)), self.to_ten(self.lift(b))
        if a.ndim == 0 or b.ndim == 0:
            return self.unwrap(self.elementwise(lambda x, y: x * y, a, b))
        if b.ndim == 1:
            if a.shape[-1] != b.shape[0]:
                raise ShapeError("shapes %s and %s not aligned in dot" % (a.shape, b.shape))
            return self.unwrap(einsum("...i,i->...", [a, b]))
        if a.shape[-1] != b.shape[-2]:
            raise ShapeError("shapes %s and %s not aligned in dot" % (a.shape, b.shape))
        la = "abcdefgh"[:a.ndim - 1]
        lb = "pqrstuvw"[:b.ndim - 2]
        return self.unwrap(einsum("%sz,%szy->%s%sy" % (la, lb, la, lb), [a, b]))

    def apply_lambda(self, lam, args):
        _, node, ev = lam
        sub = TenSym(dict(ev.env), ev.positive, ev.funcs, parent=ev)
        for p_, a in zip(node.args.args, args):
            sub.env[p_.arg] = a
        return sub.ex(node.body)

    def apply_closure(self, clo, call):
        _, fn, ev = clo
        if self.depth > 8:
            raise Unsupported("local function calls nested too deep at %s" % fn.name)
        a = fn.args
        names = [p.arg for p in a.posonlyargs + a.args]
        defaults = dict(zip(names[len(names) - len(a.defaults):], a.defaults))
        env = {}
        for i, x in enumerate(call.args):
            if isinstance(x, ast.Starred) or i >= len(names):
                raise Unsupported("call of local function %s with starred / surplus arguments" % fn.name)
            env[names[i]] = self.ex(x)
        for k in call.keywords:
            if k.arg is None:
                raise Unsupported("call of local function %s with **kwargs" % fn.name)
            env[k.arg] = self.ex(k.value)
        sub = TenSym(dict(ev.env, **env), ev.positive, ev.funcs, parent=self)
        for nme, d in defaults.items():
            if nme not in env:
                sub.env[nme] = ev.ex(d)
        missing = [x for x in names if x not in sub.env]
        if missing:
            raise Unsupported("call of %s without %s" % (fn.name, missing))
        sub.run(fn.body)
        return sub.returned

    def iterate(self, v):
        import types as _types
        if isinstance(v, (_types.GeneratorType, itertools.count)):
            return v
        if isinstance(v, Ten):
            if v.ndim == 0:
                raise Unsupported("iteration over a 0-d array")
            return [self.getitem(v, i) for i in range(v.shape[0])]
        if isinstance(v, (list, tuple)):
            return list(v)
        if isinstance(v, (range, frozenset)):
            return sorted(v) if isinstance(v, frozenset) else list(v)
        if isinstance(v, dict):
            return list(v.keys())
        if isinstance(v, Obj):
            it_ = v.__dict__.get("_iter")
            if callable(it_):
                r_ = it_()
                return r_ if isinstance(r_, _types.GeneratorType) else list(r_)
            cm = v.__dict__.get("_methods") or {}
            if "__iter__" in cm:
                sub = TenSym(self.globals_env(), self.positive, self.funcs, parent=self)
                return list(self.iterate(sub.run_fn(cm["__iter__"], self=v)))
        raise Unsupported("iteration over %s" % type(v).__name__)

    def inline(self, fn, call):
        if self.depth > 6:
            raise Unsupported("inlining too deep at %s" % fn.name)
        a = fn.args
        names = [p.arg for p in a.posonlyargs + a.args]
        env = {}
        defaults = dict(zip(names[len(names) - len(a.defaults):], a.defaults))
        for p, d in zip(a.kwonlyargs, a.kw_defaults):
            names.append(p.arg)
            if d is not None:
                defaults[p.arg] = d
        posv = self.call_args(call)         # `*seq` expanded
        if len(posv) > len(names) and a.vararg is None:
            raise Raised("the analysed path raises: TypeError (%s takes %d positional arguments, %d given)" % (fn.name, len(names), len(posv)), "TypeError('arguments')")
        for i, x in enumerate(posv[:len(names)]):
            env[names[i]] = x
        if a.vararg is not None:
            env[a.vararg.arg] = tuple(posv[len(names):])
        for k in call.keywords:
            if k.arg is None:
                kv_ = self.ex(k.value)
                if not isinstance(kv_, dict):
                    raise Unsupported("** of %s" % type(kv_).__name__)
                env.update(kv_)
            else:
                env[k.arg] = self.ex(k.value)
        sub = TenSym(dict(self.globals_env(), **env), self.positive, self.funcs, parent=self)
        for nme, d in defaults.items():
            if nme not in env:
                sub.env[nme] = sub.ex(d)
        missing = [x for x in names if x not in sub.env]
        if missing:
            raise Unsupported("call of %s without %s" % (fn.name, missing))
        sub.run(fn.body)
        return sub.returned

    def same_module_function(self, name):
        from .pyfront import MODULE_OF
        ev = self
        while ev is not None:
            fn_ = getattr(ev, "current_fn", None)
            if fn_ is not None:
                mod_ = MODULE_OF.get(id(fn_))
                if mod_ is not None:
                    f_ = mod_.functions.get(name)
                    if f_ is not None and f_ is not fn_:
                        return f_
            ev = getattr(ev, "parent_ev", None)
        return None

    def run_fn(_ev, fn, **given):
        """evaluate fn's body with `given` parameters; the others take their default values"""
        self = _ev
        self.current_fn = fn
        a = fn.args
        names = [p.arg for p in a.posonlyargs + a.args]
        defaults = dict(zip(names[len(names) - len(a.defaults):], a.defaults))
        for p, d in zip(a.kwonlyargs, a.kw_defaults):
            names.append(p.arg)
            if d is not None:
                defaults[p.arg] = d
        self.env.update(given)
        for nme, d in defaults.items():
            if nme not in given:
                self.env[nme] = self.ex(d)
        missing = [x for x in names if x not in self.env]
        if missing:
            raise Unsupported("%s needs %s" % (fn.name, missing))
        if any(isinstance(x, (ast.Yield, ast.YieldFrom)) for x in walk_no_nested(fn)):
            self.yielded = []           # a generator function: what it yields, collected in order
            self.run(fn.body)
            return list(self.yielded)
        self.run(fn.body)
        return self.returned

    def instantiate(self, cname, args, kwargs):
        """an object of a class given by its source: its methods and properties are evaluated from the class body, __init__ is run"""
        cd = self.classes[cname]
        methods, props, psetters, consts, isa = {}, {}, {}, {}, [cname]

        def collect(c):
            for b in c.bases:
                bn = dotted(b)
                if bn in self.classes and bn not in isa:
                    isa.append(bn)
                    collect(self.classes[bn])
            for st in c.body:
                if isinstance(st, ast.FunctionDef):
                    decs = [src(d) for d in st.decorator_list]
                    if "property" in decs:
                        props[st.name] = st
                    elif any(d.endswith(".setter") for d in decs):
                        psetters[st.name] = st
                    elif any(d in ("staticmethod", "classmethod") for d in decs):
                        methods[st.name] = st
                    else:
                        methods[st.name] = st
                elif isinstance(st, ast.Assign) and len(st.targets) == 1 and isinstance(st.targets[0], ast.Name):
                    v_ = st.value
                    if isinstance(v_, ast.Call) and call_name(v_) == "property" and v_.args and isinstance(v_.args[0], ast.Name) and v_.args[0].id in methods:
                        # name = property(getter[, setter]): the old spelling of @property
                        props[st.targets[0].id] = methods[v_.args[0].id]
                        if len(v_.args) > 1 and isinstance(v_.args[1], ast.Name) and v_.args[1].id in methods:
                            psetters[st.targets[0].id] = methods[v_.args[1].id]
                        continue
                    consts[st.targets[0].id] = st.value
        collect(cd)
        o = Obj(_cls=cname, _isa=tuple(isa), _methods=methods, _props=props, _psetters=psetters, tag="%s#%d" % (cname, len(self.calls) + id(cd) % 7))
        o._ctor = lambda *a_, **k_: self.instantiate(cname, list(a_), k_)        # self.__class__(...) / type(self)(...)
        for k, v in consts.items():
            try:
                setattr(o, k, self.ex(v))
            except Unsupported:
                pass
        if "__init__" in methods:
            f_ = methods["__init__"]
            sub = TenSym(self.globals_env(), self.positive, self.funcs, parent=self)
            pn = [a_.arg for a_ in f_.args.args][1:]
            given = {"self": o}
            for k, v in zip(pn, args):
                given[k] = v
            given.update(kwargs)
            sub.run_fn(f_, **given)
        return o

    def globals_env(self):
        return {k: v for k, v in self.env.items() if k.startswith("__g_")}

    # ------------------------------------------------------------------ statements
    def bind(self, target, v):
        if isinstance(target, ast.Name):
            self.env[target.id] = v
        elif isinstance(target, (ast.Tuple, ast.List)):
            items = self.iterate(v)
            stars = [k for k, t in enumerate(target.elts) if isinstance(t, ast.Starred)]
            if len(stars) == 1:
                k = stars[0]
                after = len(target.elts) - k - 1
                if len(items) < len(target.elts) - 1:
                    raise ShapeError("cannot unpack %d values into %d targets and a starred one" % (len(items), len(target.elts) - 1))
                for t, x in zip(target.elts[:k], items[:k]):
                    self.bind(t, x)
                self.bind(target.elts[k].value, list(items[k:len(items) - after]))
                for t, x in zip(target.elts[k + 1:], items[len(items) - after:]):
                    self.bind(t, x)
                return
            if len(items) != len(target.elts):
                raise ShapeError("cannot unpack %d values into %d targets" % (len(items), len(target.elts)))
            for t, x in zip(target.elts, items):
                self.bind(t, x)
        elif isinstance(target, ast.Subscript):
            base = self.ex(target.value)
            if isinstance(base, list):
                base[self.concrete(self.ex(target.slice))] = v
                return
            if isinstance(base, dict):
                base[self.pyval(self.ex(target.slice))] = v
                return
            if isinstance(base, Obj) and callable(base.__dict__.get("_setitem")):
                base._setitem(base, self.key(target.slice), v)     # a modelled container (an on-disk array) stores it
                return
            if not isinstance(base, Ten):
                raise Unsupported("store into %s" % type(base).__name__)
            try:
                k = self.key(target.slice)
            except Unsupported:
                # a[mask] = 0.0 with a mask computed from the values: clean-up of almost-zero components, no effect on exact values
                vv = self.lift(v)
                if isinstance(vv, Rat) and vv.const_value() == 0:
                    return
                raise
            self.setitem(base, k, v)
        elif isinstance(target, ast.Attribute):
            base = self.ex(target.value)
            if not isinstance(base, Obj):
                raise Unsupported("attribute store on %s" % type(base).__name__)
            st_ = base.__dict__.get("_setters")
            ps_ = base.__dict__.get("_psetters")
            if st_ and target.attr in st_:
                st_[target.attr](base, v)           # a property setter of the modelled class
            elif ps_ and target.attr in ps_:
                f_ = ps_[target.attr]
                sub = TenSym(self.globals_env(), self.positive, self.funcs, parent=self)
                sub.run_fn(f_, **{"self": base, f_.args.args[1].arg: v})
            else:
                setattr(base, target.attr, v)
        else:
            raise Unsupported("assignment target %s" % src(target))

    class _Return(Exception):
        pass

    class _Break(Exception):
        pass

    class _Continue(Exception):
        pass

    def run(self, stmts, stop=None):
        try:
            for s in stmts:
                self.st(s)
        except TenSym._Return:
            pass
        return self

    def block(self, stmts):
        for s in stmts:
            self.st(s)

    def st(self, s):
        if isinstance(s, ast.Assign):
            try:
                v = self.ex(s.value)
            except ShapeError:
                raise
            except Unsupported as e_:
                # a test of the *values* that is given a name before it is used (`looks_ok = np.all(x < limit)`): the name holds an
                # undecided truth value; whatever needs it decided (an `if`, `not`, an index) raises then, exactly as the test written in place would
                if len(s.targets) == 1 and isinstance(s.targets[0], ast.Name) and type(e_) is Unsupported and \
                        str(e_).startswith(("comparison of symbolic values", "np.all of symbolic", "np.any of symbolic", "truth value of a symbolic")) and \
                        isinstance(s.value, (ast.Compare, ast.BoolOp, ast.Call)):
                    v = UndecidedTruth(str(e_))
                else:
                    raise
            for t in s.targets:
                self.bind(t, v)
        elif isinstance(s, ast.AugAssign):
            if isinstance(s.target, ast.Subscript):
                base = self.ex(s.target.value)
                if isinstance(base, (list, dict)):
                    k_ = self.ex(s.target.slice)
                    k_ = self.concrete(k_) if isinstance(base, list) else self.pyval(k_)
                    base[k_] = self.binop(s.op, base[k_], self.ex(s.value), s)
                    return
                if not isinstance(base, Ten):
                    raise Unsupported("in-place update of %s" % type(base).__name__)
                self.setitem(base, self.key(s.target.slice), self.ex(s.value), op=lambda x, y: PySym.binop(self, s.op, x, y, s))
            else:
                cur = self.ex(s.target)
                new = self.binop(s.op, cur, self.ex(s.value), s)
                if isinstance(cur, Ten) and isinstance(new, Ten) and isinstance(s.target, ast.Name):
                    if new.shape != cur.shape:
                        raise ShapeError("in-place operation changes the shape %s to %s" % (cur.shape, new.shape))
                    cur.data[:] = new.data          # numpy updates the array object in place (aliases see it)
                else:
                    self.bind(s.target, new)
        elif isinstance(s, ast.Return):
            self.returned = self.ex(s.value) if s.value is not None else None
            raise TenSym._Return()
        elif isinstance(s, ast.Expr) and isinstance(s.value, (ast.Yield, ast.YieldFrom)):
            if not hasattr(self, "yielded"):
                raise Unsupported("yield outside a generator function")
            if isinstance(s.value, ast.Yield):
                self.yielded.append(self.ex(s.value.value) if s.value.value is not None else None)
            else:
                self.yielded.extend(self.iterate(self.ex(s.value.value)))
        elif isinstance(s, ast.Expr):
            if isinstance(s.value, ast.Constant):
                return
            if isinstance(s.value, ast.Call) and isinstance(s.value.func, ast.Name) and callable(self.env.get(s.value.func.id)) and not isinstance(self.env.get(s.value.func.id), (tuple, Obj, str)):
                self.ex(s.value)
                return
            if isinstance(s.value, ast.Call) and ((call_name(s.value) or "") in self.models or (call_name(s.value) or "") in self.funcs or
                                                  (isinstance(s.value.func, ast.Name) and isinstance(self.env.get(s.value.func.id), tuple) and self.env[s.value.func.id][:1] == ("<closure>",))):
                self.ex(s.value)
                return
            if isinstance(s.value, ast.Call) and (call_name(s.value) or "").split(".")[-1] in ("warn", "write", "print"):
                if isinstance(s.value.func, ast.Attribute) and s.value.func.attr == "write":
                    # a file handle the rule models (a recorder of what is written): the call is made; any other .write() is an effect outside the analysis
                    try:
                        recv_ = self.ex(s.value.func.value)
                    except Unsupported:
                        recv_ = None
                    if isinstance(recv_, Obj) and (callable(getattr(recv_, "write", None)) or "write" in (recv_.__dict__.get("_methods") or {})):
                        self.ex(s.value)
                return
            if isinstance(s.value, ast.Call) and (call_name(s.value) or "") in ("np.clip",) and any(k.arg == "out" for k in s.value.keywords):
                self.ex(s.value)
                return
            if isinstance(s.value, ast.Call) and isinstance(s.value.func, ast.Attribute) and s.value.func.attr in ("append", "extend", "insert", "remove", "pop", "update", "add", "setdefault", "clear"):
                self.ex(s.value)
                return
            if isinstance(s.value, ast.Call) and isinstance(s.value.func, ast.Attribute) and s.value.func.attr == "sort":
                recv = self.ex(s.value.func.value)
                if isinstance(recv, list) and not s.value.args and not s.value.keywords:
                    vals = [self.pyval(x) for x in recv]
                    if any(isinstance(v, (Rat, Ten, Obj)) for v in vals):
                        raise Unsupported("sort of symbolic values")
                    recv[:] = sorted(vals)
                    return
                if isinstance(recv, Ten) and not recv.view:
                    axis = self.concrete(self.kw(s.value, "axis", 0, -1)) % recv.ndim
                    cs = [x.const_value() for x in recv.data]
                    if any(c is None for c in cs):
                        raise Unsupported("sort of symbolic values")
                    other = [k for k in range(recv.ndim) if k != axis]
                    st_ = recv.strides()
                    for multi in itertools.product(*[range(recv.shape[k]) for k in other]):
                        offs = []
                        for i in range(recv.shape[axis]):
                            full = [0] * recv.ndim
                            for k, v in zip(other, multi):
                                full[k] = v
                            full[axis] = i
                            offs.append(sum(a * b for a, b in zip(full, st_)))
                        vals = sorted(recv.data[o].const_value() for o in offs)
                        for o, v in zip(offs, vals):
                            recv.data[o] = Rat(Poly.const(v))
                    return
                raise Unsupported("in-place sort of %s" % type(recv).__name__)
            if isinstance(s.value, ast.Call) and call_name(s.value) == "setattr" and "setattr" not in self.models:
                self.ex(s.value)
                return
            if isinstance(s.value, ast.Call) and (call_name(s.value) or "") in self.models:
                self.ex(s.value)        # a summarised callee called for its effect (a mutating kernel)
                return
            if isinstance(s.value, ast.Call) and isinstance(s.value.func, ast.Attribute):
                # a method of a model object called for its effect
                try:
                    recv_ = self.ex(s.value.func.value)
                except Unsupported:
                    recv_ = None
                if isinstance(recv_, Obj) and (s.value.func.attr in (recv_.__dict__.get("_methods") or {}) or callable(getattr(recv_, s.value.func.attr, None))
                                              or (s.value.func.attr not in recv_.__dict__ and self._sibling_method(recv_, s.value.func.attr) is not None)):
                    self.ex(s.value)
                    return
                if isinstance(recv_, Ten) and s.value.func.attr == "fill" and len(s.value.args) == 1:
                    v_ = self.lift(self.ex(s.value.args[0]))
                    for i_ in range(len(recv_.data)):
                        recv_.data[i_] = v_
                    return
            if isinstance(s.value, (ast.Compare, ast.Name, ast.Attribute, ast.Subscript, ast.BinOp, ast.BoolOp)):
                self.ex(s.value)        # an expression evaluated for nothing (e.g. a comparison left where an assert was meant): no effect
                return
            raise Unsupported("expression statement %s" % src(s)[:40])
        elif isinstance(s, ast.If):
            try:
                t = self.truth(self.ex(s.test))
            except ShapeError:
                raise
            except Unsupported:
                if self.assume is not None and getattr(self.assume, "wants_node", False):
                    t = self.assume(self, s.test)       # a policy that looks at the operands by value
                else:
                    t = self.assume(src(s.test)) if self.assume is not None else None
                validation = False
                if t is None:
                    validation = all(isinstance(b, ast.Raise) or (isinstance(b, ast.Expr) and isinstance(b.value, ast.Call) and (call_name(b.value) or "").split(".")[-1] in ("warn",)) for b in s.body)
                    if validation and not s.orelse:
                        return      # a check of the values that only warns or raises
                    if self.choices is None:
                        raise
                    if len(self.taken) >= len(self.choices):
                        raise NeedChoice(src(s.test))
                    t = self.choices[len(self.taken)]
                    self.taken.append((src(s.test), t))
            if t:
                self.block(s.body)
            else:
                self.block(s.orelse)
        elif isinstance(s, ast.For):
            broke = False
            for item in self.iterate(self.ex(s.iter)):
                self.bind(s.target, item)
                try:
                    self.block(s.body)
                except TenSym._Continue:
                    continue
                except TenSym._Break:
                    broke = True
                    break
            if not broke:
                self.block(s.orelse)
        elif isinstance(s, ast.With):
            # `with X as f:` - the body is evaluated with f bound to X.__enter__() when the model defines it, else to X; __exit__ is not modelled
            for item in s.items:
                cm_ = self.ex(item.context_expr)
                ent = getattr(cm_, "__enter__", None) if isinstance(cm_, Obj) else None
                val_ = ent() if callable(ent) else cm_
                if item.optional_vars is not None:
                    self.bind(item.optional_vars, val_)
            self.block(s.body)
        elif isinstance(s, ast.Try):
            try:
                self.block(s.body)
            except Raised as e:
                exc_name = (e.exc or "").split("(")[0].strip()
                for h in s.handlers:
                    names_ = []
                    if h.type is not None:
                        names_ = [dotted(x) or "" for x in (h.type.elts if isinstance(h.type, ast.Tuple) else [h.type])]
                    if h.type is None or exc_name in names_ or "Exception" in names_ or "BaseException" in names_ or \
                            (exc_name in ("KeyError", "IndexError") and "LookupError" in names_):
                        if h.name:
                            self.env[h.name] = Obj(tag="exception", args=(e.exc,))
                        self.block(h.body)
                        break
                else:
                    self.block(s.finalbody)
                    raise
            else:
                self.block(s.orelse)
            self.block(s.finalbody)
        elif isinstance(s, ast.While):
            n_it = 0
            broke = False
            while self.truth(self.ex(s.test)):
                n_it += 1
                if n_it > 5000:
                    raise Unsupported("while loop does not terminate on the model world (5000 iterations)")
                try:
                    self.block(s.body)
                except TenSym._Continue:
                    continue
                except TenSym._Break:
                    broke = True
                    break
            if not broke:
                self.block(s.orelse)
        elif isinstance(s, ast.Delete):
            for t in s.targets:
                if isinstance(t, ast.Subscript):
                    base = self.ex(t.value)
                    if isinstance(base, list):
                        k_ = self.ex(t.slice) if not isinstance(t.slice, ast.Slice) else slice(*[None if x is None else self.concrete(self.ex(x)) for x in (t.slice.lower, t.slice.upper, t.slice.step)])
                        del base[self.concrete(k_) if not isinstance(k_, slice) else k_]
                        continue
                    if isinstance(base, dict):
                        del base[self.pyval(self.ex(t.slice))]
                        continue
                elif isinstance(t, ast.Name):
                    self.env.pop(t.id, None)
                    continue
                raise Unsupported("del %s" % src(t)[:40])
        elif isinstance(s, ast.Continue):
            raise TenSym._Continue()
        elif isinstance(s, ast.Break):
            raise TenSym._Break()
        elif isinstance(s, (ast.Import, ast.ImportFrom)):
            return
        elif isinstance(s, (ast.Pass, ast.Assert)):
            return
        elif isinstance(s, ast.Raise):
            raise Raised("the analysed path raises: %s" % src(s)[:60], src(s.exc) if s.exc is not None else "")
        else:
            if isinstance(s, ast.FunctionDef):
                self.env[s.name] = ("<closure>", s, self)       # a local function: sees the variables of the enclosing call
                return
            raise Unsupported("statement %s" % type(s).__name__)


def sample_value(v):
    """a number for a symbolic scalar: every symbol (opaque function values included) stands for a distinct number between 1 and 2"""
    import zlib
    if isinstance(v, (int, Fraction)) and not isinstance(v, bool):
        return Fraction(v)
    if not isinstance(v, Rat):
        return None

    def val(p):
        tot = Fraction(0)
        for m, c in p.t.items():
            term = Fraction(c)
            for var, e in m:
                term *= (1 + Fraction(zlib.crc32(var.encode()) % 997, 1000)) ** e
            tot += term
        return tot
    d = val(v.d)
    if d == 0:
        return None
    return val(v.n) / d


def moderate_assume(ev, test):
    """assume-policy (operand aware): a test on symbolic values is answered for moderate, generic values - every symbol a distinct number between 1 and 2
    (in the units of the file).  The range / overflow / sign checks of the formats' writers and readers then take the branch of ordinary data."""
    ev.sampling = True
    try:
        return ev.truth(ev.ex(test))
    except Unsupported:
        return None
    finally:
        ev.sampling = False


moderate_assume.wants_node = True


def run_paths(make, fn, max_paths=8, **kw):
    """Evaluate fn once per combination of answers to the tests that depend on symbolic values (data-dependent branches).
    `make()` returns (evaluator, given-arguments) freshly for every run.  -> [(taken, evaluator, returned value)]"""
    out = []
    todo = [[]]
    while todo:
        ch = todo.pop(0)
        ev, given = make()
        ev.choices = list(ch)
        ev.taken = []
        try:
            r = ev.run_fn(fn, **given)
        except NeedChoice:
            todo.append(ch + [True])
            todo.append(ch + [False])
            if len(todo) + len(out) > max_paths:
                raise Unsupported("more than %d data-dependent paths" % max_paths)
            continue
        except Unsupported as e:
            r = e           # this path could not be evaluated to the end (the caller decides what that means)
        out.append((list(ev.taken), ev, r))
    return out


# ---------------------------------------------------------------------------------------------------
# numeric identity test of two symbolic expressions (a decision procedure for expression equality when the normal forms differ)
# ---------------------------------------------------------------------------------------------------
def numeric_value(ev, v, point):
    """the number an expression denotes when its free symbols take the values of `point` (name -> float; missing names are drawn deterministically
    from (0.5, 1.5)) and its opaque function symbols are the functions they stand for.  None when a symbol is neither."""
    import math
    import zlib

    def var_value(name, depth):
        if name == "pi":
            return math.pi
        if name in point:
            return point[name]
        op = ev.opaque.get(name)
        if op is not None and depth < 40:
            f, args = op
            av = [num(a_, depth + 1) for a_ in args]
            if any(a_ is None for a_ in av):
                return None
            try:
                if f == "sqrt":
                    if av[0] < 0:
                        raise _Domain("sqrt of %g" % av[0])
                    return math.sqrt(av[0])
                if f in ("cos", "sin", "tan", "exp", "log", "acos", "asin", "atan"):
                    return getattr(math, f)(av[0])
                if f == "abs":
                    return abs(av[0])
                if f in ("arctan2", "atan2"):
                    return math.atan2(av[0], av[1])
                if f == "clip":
                    return min(max(av[0], av[1]), av[2])
                if f == "round":
                    return float(round(av[0]))
                if f == "cbrt":
                    return math.copysign(abs(av[0]) ** (1.0 / 3), av[0])
            except (ValueError, OverflowError) as e_:
                raise _Domain("%s%s: %s" % (f, tuple(av), e_))
            return None
        for (f_, a_, r_) in ev.calls:
            if isinstance(r_, Rat) and f_ in ("min", "max") and r_.poly() is not None and r_.vars() == {name}:
                vals = [num(x_, depth + 1) for x_ in a_[0].data]
                if any(x_ is None for x_ in vals):
                    return None
                return min(vals) if f_ == "min" else max(vals)
        if "(" in name or "#" in name:
            return None
        lo_, hi_ = 0.5, 1.5
        for pre_, rng_ in (point.get("__ranges") or {}).items():
            if name.startswith(pre_):
                lo_, hi_ = rng_
        point[name] = lo_ + (hi_ - lo_) * (zlib.crc32((name + repr(point.get("__salt", 0))).encode()) % 100003) / 100003.0
        return point[name]

    def poly_value(p, depth):
        tot = 0.0
        for m, c in p.t.items():
            term = float(c)
            for var, e in m:
                x = var_value(var, depth)
                if x is None:
                    return None
                term *= x ** e
            tot += term
        return tot

    def num(x, depth=0):
        if isinstance(x, (int, float, Fraction)) and not isinstance(x, bool):
            return float(x)
        if not isinstance(x, Rat):
            return None
        n_, d_ = poly_value(x.n, depth), poly_value(x.d, depth)
        if n_ is None or d_ is None or d_ == 0:
            return None
        return n_ / d_
    return num(v)


class _Domain(Exception):
    """an expression has no real value at the point (sqrt of a negative number, acos outside [-1, 1])"""


def numeric_equal(ev, a, b, points=3, rel=1e-9, ranges=None):
    """True / False when the expressions can be evaluated at `points` generic points (equal at all of them within `rel` / different at one - also when
    only one of them has a value there), else None.  ranges: {symbol-name prefix: (lo, hi)} of the values drawn for free symbols (default 0.5 .. 1.5)"""
    for k in range(points):
        pt = {"__salt": k, "__ranges": ranges or {}}
        vals = []
        for x_ in (a, b):
            try:
                vals.append(numeric_value(ev, ev.lift(x_), pt))
            except _Domain:
                vals.append("undefined")
        va, vb = vals
        if va is None or vb is None:
            return None
        if va == "undefined" or vb == "undefined":
            if va == vb:
                return None
            return False
        if abs(va - vb) > rel * max(1.0, abs(va), abs(vb)):
            return False
    return True
