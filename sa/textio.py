"""What a text writer puts into its file, as evaluated by sa/tensym.py with the file handle replaced by a recorder.

The recorded items are strings, FStr (f-string / %-format / str.format templates with their values) and bytes-encoded forms of these; they are
flattened to a sequence of *pieces* - literal text (str) and formatted values (FVal: value, format spec) - which can be cut into lines and
whitespace-separated tokens and compared piece by piece (values by the evaluator's canonical form)."""
from __future__ import annotations

from .tensym import FStr, FVal, Ten
from .poly import Rat


def flatten(items):
    out = []
    for it in items:
        if isinstance(it, FStr):
            for p in it.parts:
                if isinstance(p, str):
                    if p:
                        out.append(p)
                elif isinstance(p.value, FStr) and p.spec in ("", "s"):
                    out.extend(flatten([p.value]))      # "%s" % <formatted text>: the inner text itself
                elif isinstance(p.value, str) and p.spec in ("", "s"):
                    if p.value:
                        out.append(p.value)
                else:
                    out.append(p)
        elif isinstance(it, str):
            if it:
                out.append(it)
        elif isinstance(it, (list, tuple)):
            out.extend(flatten(it))
        else:
            out.append(FVal(it, ""))
    # merge adjacent literals
    merged = []
    for p in out:
        if isinstance(p, str) and merged and isinstance(merged[-1], str):
            merged[-1] += p
        else:
            merged.append(p)
    return merged


def lines(pieces):
    """-> list of lines, each a list of pieces; the newline is dropped; a trailing unterminated line is kept (flagged by the second result)"""
    out, cur = [], []
    for p in pieces:
        if isinstance(p, str):
            parts = p.split("\n")
            for k, seg in enumerate(parts):
                if seg:
                    cur.append(seg)
                if k < len(parts) - 1:
                    out.append(cur)
                    cur = []
        else:
            cur.append(p)
    return out, cur


def tokens(line):
    """whitespace-separated tokens of a line: each token a list of pieces (a formatted value counts as non-blank text)"""
    toks, cur = [], []
    for p in line:
        if isinstance(p, str):
            segs = p.split()
            lead = p[:1].isspace() if p else False
            trail = p[-1:].isspace() if p else False
            if not segs:
                if cur:
                    toks.append(cur)
                    cur = []
                continue
            for k, seg in enumerate(segs):
                if k > 0 or lead:
                    if cur:
                        toks.append(cur)
                        cur = []
                cur.append(seg)
            if trail and cur:
                toks.append(cur)
                cur = []
        else:
            cur.append(p)
    if cur:
        toks.append(cur)
    return toks


def same_value(a, b):
    if a is b:
        return True
    if isinstance(a, Rat) and isinstance(b, Rat):
        return (a - b).n.is_zero() if a.d == b.d else (a.n * b.d - b.n * a.d).is_zero()
    if isinstance(a, Rat) or isinstance(b, Rat):
        try:
            from .poly import _r
            return same_value(_r(a) if not isinstance(a, Rat) else a, _r(b) if not isinstance(b, Rat) else b)
        except Exception:
            return False
    if isinstance(a, Ten) and isinstance(b, Ten):
        return a.shape == b.shape and all(same_value(x, y) for x, y in zip(a.data, b.data))
    if isinstance(a, FStr) and isinstance(b, FStr):
        return same_pieces(flatten([a]), flatten([b]))
    if isinstance(a, (list, tuple)) and isinstance(b, (list, tuple)):
        return len(a) == len(b) and all(same_value(x, y) for x, y in zip(a, b))
    try:
        return type(a) is type(b) and a == b
    except Exception:
        return False


def same_piece(a, b):
    if isinstance(a, str) or isinstance(b, str):
        return isinstance(a, str) and isinstance(b, str) and a == b
    return a.spec == b.spec and a.conv == b.conv and same_value(a.value, b.value)


def same_pieces(p1, p2):
    return len(p1) == len(p2) and all(same_piece(a, b) for a, b in zip(p1, p2))


def first_difference(p1, p2):
    for k, (a, b) in enumerate(zip(p1, p2)):
        if not same_piece(a, b):
            return "piece %d: %r / %r" % (k, a, b)
    if len(p1) != len(p2):
        return "%d pieces / %d pieces" % (len(p1), len(p2))
    return None


def show(pieces, limit=120):
    return "".join(p if isinstance(p, str) else "{%r:%s}" % (p.value, p.spec) for p in pieces)[:limit]
