"""TText: the abstract value of a line of text that a writer produced and a reader takes apart.

A TText is a sequence of pieces - literal text, formatted values (tensym.FVal: value, spec, %-style or {}-style) and cuts (a part of a
formatted field, produced by a slice that does not coincide with the field).  The operations a line parser applies (split, strip, slices by
column, index of the decimal point, float / int conversion, comparisons with literals) are decided from the widths and alignments the format
specs fix, under two stated assumptions:
    * a value fits its field (no overflow), so a right-aligned numeric field of fixed width starts with a blank and the decimal point of a
      `w.pf` field sits at column w-p-1 of the field;
    * a value formatted without a width carries no blanks.
Whatever cannot be decided this way raises Unsupported (the rule reports UNDECIDED); what the real parser would refuse raises Raised."""
from __future__ import annotations

import re
from fractions import Fraction

from .poly import Poly, Rat
from .pysym import Unsupported

_SPEC = re.compile(r"^(?P<align>[<>^=-]?)(?P<sign>[+ #]?)(?P<zero>0?)(?P<width>\d+)?(?:\.(?P<prec>\d+))?(?P<type>[a-zA-Z]?)$")
_CUT = [0]


class Cut:
    """characters [lo:hi) of a formatted field of width w"""
    def __init__(self, fval, lo, hi):
        self.fval, self.lo, self.hi = fval, lo, hi

    def __repr__(self):
        return "cut(%r)[%d:%d]" % (self.fval, self.lo, self.hi)


def spec_of(p):
    m = _SPEC.match(p.spec or "")
    if not m:
        return None
    return dict(align=m.group("align"), width=int(m.group("width")) if m.group("width") else None,
                prec=int(m.group("prec")) if m.group("prec") is not None else None, type=m.group("type"))


def is_text_value(p):
    return isinstance(p.value, str)


def concrete_text(p):
    """the exact characters of a formatted piece when they are known (a text value or a concrete integer), else None"""
    sp = spec_of(p)
    if sp is None:
        return None
    v = p.value
    if hasattr(v, "parts") and not isinstance(v, str):
        # formatted text formatted again ("%5s" % f"{b:5.2f}"): its characters, when they are known
        inner = TText(v.parts).literal() if "TText" in globals() else None
        if inner is None:
            return None
        v = inner
    if isinstance(v, Rat):
        c = v.const_value()
        if c is not None and c.denominator == 1 and sp["type"] in ("d", "", "i"):
            v = int(c)
        elif c is not None and sp["type"] in ("f", "F", "e", "E", "g", "G"):
            try:
                return format(float(c), ("-" if sp["align"] == "-" else sp["align"] or "") .replace("-", "<") + ("%d" % sp["width"] if sp["width"] else "") + ("" if sp["prec"] is None else ".%d" % sp["prec"]) + sp["type"])
            except ValueError:
                return None
    if isinstance(v, bool):
        return None
    if isinstance(v, int) and sp["type"] in ("d", "", "i", "s"):
        body = str(v)
        right = sp["align"] not in ("<", "-")
    elif isinstance(v, str) and sp["type"] in ("s", ""):
        body = v if sp["prec"] is None else v[:sp["prec"]]
        right = (sp["align"] == ">") or (getattr(p, "pct", False) and sp["align"] != "-")
        if sp["align"] in ("<", "-"):
            right = False
    else:
        return None
    w = sp["width"] or 0
    if len(body) >= w:
        return body
    return body.rjust(w) if right else body.ljust(w)


def width(p):
    if isinstance(p, str):
        return len(p)
    if isinstance(p, Cut):
        return p.hi - p.lo
    ct = concrete_text(p)
    if ct is not None:
        return len(ct)
    sp = spec_of(p)
    return sp["width"] if sp else None


def blanks(p):
    """(starts with a blank, ends with a blank) of a piece: True / False"""
    if isinstance(p, str):
        return (p[:1].isspace(), p[-1:].isspace())
    if isinstance(p, Cut):
        return (False, False)
    ct = concrete_text(p)
    if ct is not None:
        return (ct[:1].isspace(), ct[-1:].isspace())
    sp = spec_of(p)
    if sp is None or sp["width"] is None:
        return (False, False)
    if sp["align"] in ("<", "-"):
        return (False, not FULL[0])
    return (not FULL[0], False)        # right-aligned value that fits its field with room to spare - unless the world is one of values that fill their fields


FULL = [False]


class full_fields:
    """with full_fields(): ... - the values of the world are as wide as their fields allow (the format's field limit): a fixed-width field carries no
    padding, so neighbouring fields that are not separated by literal blanks run together under split()"""
    def __enter__(self):
        self.old = FULL[0]
        FULL[0] = True

    def __exit__(self, *a):
        FULL[0] = self.old


def unpadded(p):
    """the formatted value without the blanks that pad it to its field width (what is left of it after split() / strip())"""
    if isinstance(p, (str, Cut)):
        return p
    sp = spec_of(p)
    if sp is None or sp["width"] is None:
        return p
    from .tensym import FVal
    spec = ("" if sp["prec"] is None else ".%d" % sp["prec"]) + sp["type"]
    q = FVal(p.value, spec, p.conv, getattr(p, "pct", False))
    q.was_width = sp["width"]
    return q


class TText:
    def __init__(self, parts):
        out = []
        for p in parts:
            if isinstance(p, TText):
                out.extend(p.parts)
            elif isinstance(p, str):
                if p:
                    if out and isinstance(out[-1], str):
                        out[-1] += p
                    else:
                        out.append(p)
            else:
                out.append(p)
        self.parts = out

    def __repr__(self):
        return "T" + repr("".join(p if isinstance(p, str) else repr(p) for p in self.parts))

    def is_empty(self):
        return not self.parts

    def literal(self):
        """the text itself when every piece is known exactly, else None"""
        out = []
        for p in self.parts:
            if isinstance(p, str):
                out.append(p)
            elif isinstance(p, Cut):
                return None
            else:
                ct = concrete_text(p)
                if ct is None:
                    return None
                out.append(ct)
        return "".join(out)

    def total_width(self):
        ws = [width(p) for p in self.parts]
        if any(w is None for w in ws):
            raise Unsupported("length of text with a field of unknown width: %r" % self)
        return sum(ws)

    # ---------------------------------------------------------------- whitespace
    def strip(self, left=True, right=True):
        parts = list(self.parts)
        if left:
            while parts:
                p = parts[0]
                if isinstance(p, str):
                    q = p.lstrip()
                    if q:
                        parts[0] = q
                        break
                    parts.pop(0)
                else:
                    break
        if right:
            while parts:
                p = parts[-1]
                if isinstance(p, str):
                    q = p.rstrip()
                    if q:
                        parts[-1] = q
                        break
                    parts.pop()
                else:
                    break
        if parts and left and not isinstance(parts[0], (str, Cut)) and blanks(parts[0])[0] and concrete_text(parts[0]) is None:
            parts[0] = unpadded(parts[0])
        if parts and right and not isinstance(parts[-1], (str, Cut)) and blanks(parts[-1])[1] and concrete_text(parts[-1]) is None:
            parts[-1] = unpadded(parts[-1])
        t = TText(parts)
        # padding of a formatted text value is blank: stripping the line down to that one field gives the value
        if len(t.parts) == 1 and not isinstance(t.parts[0], (str, Cut)):
            ct = concrete_text(t.parts[0])
            if ct is not None:
                return ct.strip() if (left and right) else (ct.lstrip() if left else ct.rstrip())
        lit = t.literal()
        return lit if lit is not None else t

    def split(self):
        """whitespace-separated tokens"""
        toks, cur = [], []
        prev_trail = True
        for p in self.parts:
            if isinstance(p, str):
                segs = p.split()
                if not segs:
                    if cur:
                        toks.append(cur)
                        cur = []
                    prev_trail = True
                    continue
                for k, seg in enumerate(segs):
                    if (k > 0 or p[:1].isspace()) and cur:
                        toks.append(cur)
                        cur = []
                    cur.append(seg)
                if p[-1:].isspace():
                    toks.append(cur)
                    cur = []
                    prev_trail = True
                else:
                    prev_trail = False
                continue
            ct = concrete_text(p) if not isinstance(p, Cut) else None
            if ct is not None:
                # exact characters known: treat like a literal
                sub = TText([ct]).split() if ct.strip() else []
                if not sub:
                    if cur:
                        toks.append(cur)
                        cur = []
                    prev_trail = True
                    continue
                lead, trail = ct[:1].isspace(), ct[-1:].isspace()
                for k, tk in enumerate(sub):
                    if (k > 0 or lead) and cur:
                        toks.append(cur)
                        cur = []
                    cur.append(p if len(sub) == 1 else tk)
                if trail:
                    toks.append(cur)
                    cur = []
                prev_trail = trail
                continue
            lead, trail = blanks(p)
            if lead and cur:
                toks.append(cur)
                cur = []
            cur.append(p)
            if trail:
                toks.append(cur)
                cur = []
            prev_trail = trail
        if cur:
            toks.append(cur)
        out = []
        for tk in toks:
            if tk and not isinstance(tk[0], (str, Cut)) and concrete_text(tk[0]) is None and blanks(tk[0])[0]:
                tk = [unpadded(tk[0])] + tk[1:]
            if tk and not isinstance(tk[-1], (str, Cut)) and concrete_text(tk[-1]) is None and blanks(tk[-1])[1]:
                tk = tk[:-1] + [unpadded(tk[-1])]
            t = TText(tk)
            lit = t.literal()
            out.append(lit.strip() if lit is not None else t)
        return out

    # ---------------------------------------------------------------- columns
    def slice(self, a, b):
        n = None
        if (a is not None and a < 0) or (b is not None and b < 0):
            n = self.total_width()
            a = None if a is None else (a + n if a < 0 else a)
            b = None if b is None else (b + n if b < 0 else b)
        a = 0 if a is None else a
        col, out = 0, []
        for p in self.parts:
            if b is not None and col >= b:
                break
            w = width(p)
            if w is None:
                raise Unsupported("column slice of text with a field of unknown width: %r" % self)
            lo, hi = max(a, col), (col + w if b is None else min(b, col + w))
            if lo < hi:
                if isinstance(p, str):
                    out.append(p[lo - col:hi - col])
                elif lo == col and hi == col + w:
                    out.append(p)
                elif isinstance(p, Cut):
                    out.append(Cut(p.fval, p.lo + lo - col, p.lo + hi - col))
                else:
                    ct = concrete_text(p)
                    out.append(ct[lo - col:hi - col] if ct is not None else Cut(p, lo - col, hi - col))
            col += w
        t = TText(out)
        lit = t.literal()
        return lit if lit is not None else t

    def index(self, ch, start=0):
        """column of the first `ch` at or after column `start`; None when there is none"""
        if len(ch) != 1:
            raise Unsupported("index of %r in formatted text" % ch)
        col = 0
        for p in self.parts:
            w = width(p)
            if w is None:
                raise Unsupported("index in text with a field of unknown width: %r" % self)
            if col + w > start:
                if isinstance(p, str) or (not isinstance(p, Cut) and concrete_text(p) is not None):
                    s = p if isinstance(p, str) else concrete_text(p)
                    k = s.find(ch, max(0, start - col))
                    if k >= 0:
                        return col + k
                elif isinstance(p, Cut):
                    raise Unsupported("index of %r in a cut field" % ch)
                else:
                    sp = spec_of(p)
                    if ch == "." and sp and sp["type"] in ("f", "F") and sp["prec"]:
                        k = col + w - sp["prec"] - 1
                        if k >= start:
                            return k
                    elif ch == "." and sp and sp["type"] in ("d", "i"):
                        pass
                    elif ch.isspace():
                        lead, trail = blanks(p)
                        if lead and col >= start:
                            return col
                        if trail:
                            raise Unsupported("position of the padding of a left-aligned field")
                    elif ch in "0123456789-+eE.":
                        raise Unsupported("index of %r in the digits of a formatted value" % ch)
            col += w
        return None

    def contains(self, lit):
        r = self._contains_by_alignment(lit)
        if r is not None:
            return r
        for p in self.parts:
            s = p if isinstance(p, str) else (concrete_text(p) if not isinstance(p, Cut) else None)
            if s is not None and lit in s:
                return True
        whole = self.literal()
        if whole is not None:
            return lit in whole
        # joined across pieces? only literal-literal joins were merged; a formatted number contains digits, sign, point, exponent, inf / nan
        if any(c not in "0123456789.+-eEinfaINFA " for c in lit):
            # the part of `lit` that cannot be inside a number must sit in literal text: check across adjacent known pieces
            buf, found = "", False
            for p in self.parts:
                s = p if isinstance(p, str) else (concrete_text(p) if not isinstance(p, Cut) else None)
                if s is None:
                    buf = ""
                    # a number may supply a prefix / suffix of lit only if those characters are number characters: be conservative
                    continue
                buf += s
                if lit in buf:
                    found = True
            if found:
                return True
            strange = [c for c in lit if c not in "0123456789.+-eEinfaINFA "]
            if strange and not any(strange[0] in (p if isinstance(p, str) else (concrete_text(p) or "")) for p in self.parts if not isinstance(p, Cut)):
                return False
        raise Unsupported("whether %r occurs in %r" % (lit, self))

    def _contains_by_alignment(self, lit):
        """True / False / None: every way of laying `lit` over the columns of the text (all widths known); a column of a formatted number can only
        hold a character a number is written with"""
        pat = []
        for p in self.parts:
            s_ = p if isinstance(p, str) else (concrete_text(p) if not isinstance(p, Cut) else None)
            if s_ is not None:
                pat.extend(s_)
                continue
            w = width(p)
            if w is None:
                return None
            pat.extend([None] * w)
        numchars = set("0123456789.+-eE infaINFA")
        sure = possible = False
        for off in range(0, len(pat) - len(lit) + 1):
            ok, exact = True, True
            for k, ch in enumerate(lit):
                c = pat[off + k]
                if c is None:
                    exact = False
                    if ch not in numchars:
                        ok = False
                        break
                elif c != ch:
                    ok = False
                    break
            if ok and exact:
                sure = True
                break
            possible = possible or ok
        if sure:
            return True
        return None if possible else False

    def startswith(self, lit):
        buf = ""
        for p in self.parts:
            s = p if isinstance(p, str) else (concrete_text(p) if not isinstance(p, Cut) else None)
            if s is None:
                break
            buf += s
            if len(buf) >= len(lit):
                break
        if len(buf) >= len(lit):
            return buf.startswith(lit)
        if not lit.startswith(buf):
            return False
        raise Unsupported("whether %r starts with %r" % (self, lit))

    # ---------------------------------------------------------------- conversions
    def number(self, kind):
        """the value a parser obtains by float() / int() of this text; raises ValueError (python's) when the text is not a number"""
        t = self.strip()
        if isinstance(t, str):
            if kind == "int":
                return int(t)
            f = float(t)
            return Rat(Poly.const(Fraction(t))) if re.match(r"^[+-]?\d*\.?\d*$", t) and any(c.isdigit() for c in t) else Rat(Poly.const(Fraction(f)))
        if len(t.parts) != 1:
            # several pieces run together: digits of neighbouring fields / stray text
            if any(isinstance(p, str) and re.search(r"[^0-9.eE+\-\s]", p) for p in t.parts):
                raise ValueError("not a number: %r" % t)
            _CUT[0] += 1
            return Rat(Poly.var("runtogether#%d(%s)" % (_CUT[0], repr(t)[:60])))
        p = t.parts[0]
        if isinstance(p, Cut):
            # a part of a written field: a number, but not the one that was written
            _CUT[0] += 1
            return Rat(Poly.var("cut#%d(%r)[%d:%d]" % (_CUT[0], p.fval.value, p.lo, p.hi)))
        v = p.value
        if isinstance(v, str):
            return int(v) if kind == "int" else Rat(Poly.const(Fraction(float(v))))
        if isinstance(v, bool) or v is None:
            raise ValueError("not a number: %r" % t)
        sp = spec_of(p)
        if kind == "int" and sp is not None and sp["type"] in ("f", "F", "e", "E", "g", "G"):
            raise ValueError("int() of text with a decimal point: %r" % t)
        return v


def _field_samples(p):
    """representative renderings of a formatted value of unknown magnitude: positive, negative, zero / small"""
    ct = concrete_text(p)
    if ct is not None:
        return [ct, ct, ct]
    sp = spec_of(p) or dict(align="", width=None, prec=None, type="")
    t, pr, w = sp["type"], sp["prec"], sp["width"] or 0
    if t in ("f", "F"):
        pr = 6 if pr is None else pr
        body = ["1" + ("." + "0" * pr if pr else ""), "-12" + ("." + "3" * pr if pr else ""), "0" + ("." + "0" * pr if pr else "")]
    elif t in ("e", "E"):
        pr = 6 if pr is None else pr
        body = ["1." + "5" * pr + "e+00", "-2." + "5" * pr + "e-03", "0." + "0" * pr + "e+00"]
    elif t in ("d", "i"):
        body = ["7", "-3", "0"]
    else:
        body = ["1.0", "-2.5", "1e-05"]      # str() / repr() / %g of a float
    right = sp["align"] not in ("<", "-")
    return [(b.rjust(w) if right else b.ljust(w)) for b in body]


def samples(t):
    """three representative concrete renderings of a text (all fields positive / all negative / all zero-or-small); None when a cut field is involved"""
    if isinstance(t, str):
        return [t, t, t]
    outs = ["", "", ""]
    for p in t.parts:
        if isinstance(p, str):
            outs = [o + p for o in outs]
        elif isinstance(p, Cut):
            return None
        else:
            fs = _field_samples(p)
            outs = [o + f for o, f in zip(outs, fs)]
    return outs


def findall(pattern, t):
    """re.findall on formatted text, decided on the rendering in which every formatted value is a positive decimal that fits its field: what each
    match captures is literal text, exactly one formatted value (-> that value), or a part of one (-> a Cut: not the number that was written)"""
    if isinstance(t, str):
        return re.findall(pattern, t)
    buf, spans = "", []
    for p in t.parts:
        if isinstance(p, str):
            buf += p
        elif isinstance(p, Cut):
            raise Unsupported("regular expression on a cut field")
        else:
            r = _field_samples(p)[0]
            body = r.strip() or r
            k = r.find(body)
            spans.append((len(buf) + k, len(buf) + k + len(body), p))
            buf += r
    rx = re.compile(pattern)
    if rx.groups > 1:
        raise Unsupported("findall with %d groups on formatted text" % rx.groups)
    out = []
    for m in rx.finditer(buf):
        a, b = m.span(1) if rx.groups else m.span()
        hit = [(lo, hi, p) for lo, hi, p in spans if lo < b and a < hi]
        if not hit:
            out.append(buf[a:b])
        elif len(hit) == 1 and (a, b) == hit[0][:2]:
            out.append(TText([unpadded(hit[0][2])]))
        elif len(hit) == 1 and hit[0][0] <= a and b <= hit[0][1]:
            out.append(TText([Cut(hit[0][2], a - hit[0][0], b - hit[0][0])]))
        else:
            raise Unsupported("a match of %r spans literal text and formatted values" % pattern)
    return out
