"""The streaming text writers (xyz, mdcrd, lammpstrj, gro) evaluated whole by sa/tensym.py on symbolic frames, with the file handle replaced by a
recorder.  `written(ctx, key, partition, ...)` returns the pieces (literal text / formatted values, see sa/textio.py) that a sequence of write()
calls puts into the file; all runs that share a `root` evaluator name equal opaque values (min / max / sqrt ...) equally, so outputs of different
call sequences can be compared piece by piece."""
from __future__ import annotations

from . import formats as F
from . import textio as T
from .tensym import TenSym, Ten, Obj

N_ATOMS = 4
ATOM_NAMES = ["N", "CA", "C", "O"]


def model_topology(n_atoms=N_ATOMS):
    names = (ATOM_NAMES * ((n_atoms + len(ATOM_NAMES) - 1) // len(ATOM_NAMES)))[:n_atoms]
    ats = [Obj(name=nm, serial=None if k == 1 else 100 + k, index=k, element=Obj(symbol=nm[0]),
               residue=Obj(resSeq=7 + k // 2, name="RES%d" % (k // 2), index=k // 2, chain=Obj(index=0))) for k, nm in enumerate(names)]
    top = Obj(tag="topology", n_atoms=n_atoms, _numAtoms=n_atoms, atoms=ats, _lenient=True)
    top.atom = lambda i_: ats[i_]
    return top


class World:
    """data of n frames: symbolic coordinates x[f,a,k], cell lengths L[f,k], cell vectors B[f,i,j], times t[f]; concrete angles.
    cell: False | True (symbolic lengths / vectors) | "triangular" (vectors in mdtraj's reduced form) | "small" / "large" (concrete rectangular cell
    with all edges below / above 60 A) | "rhombohedral" (edges below 60 A, all angles exactly 60 degrees)"""
    def __init__(self, n_frames, cell=True, ortho=False, time=True, n_atoms=N_ATOMS):
        self.n, self.n_atoms = n_frames, n_atoms
        ev = TenSym({})
        self.x = Ten.sym("x", (n_frames, n_atoms, 3))
        self.L = Ten.sym("L", (n_frames, 3)) if cell else None
        if cell in ("small", "large", "rhombohedral"):
            self.L = ev.to_ten([[30 + f, 40 + f, 50 + f] if cell != "large" else [70 + f, 80 + f, 95 + f] for f in range(n_frames)])
            ortho = True
        # angles are concrete (whether a frame is rectangular is a fact of the world, not a case split): all 90 / all skewed / alternating
        skew = [[80 - 3 * f, 70 + 2 * f, 60 + f] for f in range(n_frames)]
        rows = [[90, 90, 90] if (ortho is True or (ortho == "mixed" and f % 2 == 0)) else skew[f] for f in range(n_frames)]
        if cell == "rhombohedral":
            rows = [[60, 60, 60] for f in range(n_frames)]      # the primitive cell of an fcc lattice: the largest number on the box line is exactly 60
        self.A = ev.to_ten(rows) if cell else None
        self.B = Ten.sym("B", (n_frames, 3, 3)) if cell else None
        if cell == "triangular":
            # mdtraj's own convention: a along x, b in the xy plane
            for f in range(n_frames):
                for (i, j) in ((0, 1), (0, 2), (1, 2)):
                    self.B.data[f * 9 + i * 3 + j] = ev.lift(0)
        self.t = Ten.sym("t", (n_frames,)) if time else None
        self.top = model_topology(n_atoms)
        self.types = ["T%s" % chr(97 + k) for k in range(n_atoms)]
        self._ev = ev

    def cut(self, arr, a, b):
        if arr is None:
            return None
        v = self._ev.getitem(arr, (slice(a, b),))
        return Ten(v.shape, list(v.data))       # the caller's own array: a writer that modifies its argument does not reach the other runs

    def args(self, key, a, b):
        x = self.cut(self.x, a, b)
        if key == "xyz":
            return dict(xyz=x, types=list(self.types))
        if key == "mdcrd":
            return dict(xyz=x, cell_lengths=self.cut(self.L, a, b))
        if key == "lammpstrj":
            return dict(xyz=x, cell_lengths=self.cut(self.L, a, b), cell_angles=self.cut(self.A, a, b))
        if key == "gro":
            return dict(coordinates=x, topology=self.top, time=self.cut(self.t, a, b), unitcell_vectors=self.cut(self.B, a, b))
        if key == "rst7":
            return dict(coordinates=x, time=None if self.t is None else self.t.data[a], cell_lengths=self.cut(self.L, a, b), cell_angles=self.cut(self.A, a, b))
        raise KeyError(key)


def default_assume(text):
    # the field-overflow checks of the fixed-width writers do not fire (values within the field), a symbolic cell is not rectangular
    if "len(" in text and ">" in text:
        return False
    if "allclose" in text:
        return False
    return None


def assume(ev, test):
    """branch decisions on symbolic data: moderate generic values (tensym.moderate_assume), else the textual fall-backs above"""
    from .tensym import moderate_assume
    r = moderate_assume(ev, test)
    if r is None:
        import ast as _ast
        r = default_assume(_ast.unparse(test))
    return r


assume.wants_node = True


def new_root():
    """the evaluator all runs of one comparison hang off.  Its world is in general position: different symbolic expressions are different numbers
    (a special relation between values - a zero component, equal lengths - is put into the world concretely, see World)"""
    r = TenSym({})
    r.generic_eq = True
    r.moderate = True
    return r


def written(ctx, key, world, partition, root, assume=assume, me_extra=None, extra_args=None):
    """pieces written by successive write() calls on one file object; partition = [(first frame, end frame), ...]"""
    fn = F.method(ctx, key, "write")
    rel, cls = F.rel_cls(key)
    mod = ctx.py.mod(rel)
    rec = []
    fh = Obj(tag="fh", _lenient=True)
    fh.write = lambda x_: rec.append(x_)
    fh.flush = lambda: None
    me = Obj(tag="file", _mode="w", _fh=fh, _file=fh, _handle=fh, _open=True, _closed=False, _needs_initialization=True, distance_unit="angstroms", _w_has_box=None, _lenient=True, **(me_extra or {}))
    me._methods = {q.split(".", 1)[1]: f for q, f in mod.functions.items() if q.startswith(cls + ".") and q.count(".") == 1}
    me._isa = [cls]
    for a, b in partition:
        ts = TenSym({"mdtraj": Obj(__version__="V", version=Obj(version="V")), "date": Obj(today=lambda: "D")},
                    models={"ensure_type": lambda ev, c: ev.ex(c.args[0]), "str": lambda ev, c: "S", "warnings.warn": lambda ev, c: None}, parent=root)
        ts.assume = assume
        kw = world.args(key, a, b)
        kw.update(extra_args or {})
        ts.run_fn(fn, self=me, **kw)
    return T.flatten(rec)


# ---------------------------------------------------------------------------------------------------
# reading back what was written
# ---------------------------------------------------------------------------------------------------
class EndOfFile(Exception):
    pass


def text_file(pieces):
    """a model of a text file opened for reading that holds the written pieces: readline() / iteration / tell() / seek()"""
    from .ttext import TText
    ls, tail = T.lines(pieces)
    lines_ = [TText(list(l_) + ["\n"]) for l_ in ls] + ([TText(tail)] if tail else [])
    lines_ = [(l_.literal() if l_.literal() is not None else l_) for l_ in lines_]
    fh = Obj(tag="fh(read)", _lenient=True)
    state = {"k": 0}

    def width_of(l_):
        return len(l_) if isinstance(l_, str) else l_.total_width()

    def readline():
        if state["k"] >= len(lines_):
            return ""
        state["k"] += 1
        return lines_[state["k"] - 1]

    def tell():
        return sum(width_of(l_) for l_ in lines_[:state["k"]])

    def seek(off, whence=0):
        pos = off if whence == 0 else (tell() + off if whence == 1 else sum(width_of(l_) for l_ in lines_) + off)
        acc = 0
        for k_, l_ in enumerate(lines_ + [""]):
            if acc == pos:
                state["k"] = k_
                return None
            if k_ < len(lines_):
                acc += width_of(l_)
        from .pysym import Unsupported
        raise Unsupported("seek to %s: not the start of a line" % pos)

    def it():
        while state["k"] < len(lines_):
            state["k"] += 1
            yield lines_[state["k"] - 1]
    fh.readline, fh.tell, fh.seek, fh._iter = readline, tell, seek, it
    fh.close = lambda: None
    fh._state, fh._lines = state, lines_
    return fh


def reader_object(ctx, key, fh, **fields):
    rel, cls = F.rel_cls(key)
    mod = ctx.py.mod(rel)
    me = Obj(tag="file(read)", _mode="r", _fh=fh, _file=fh, _open=True, _is_open=True, _frame_index=0, _line_counter=0, _filename="FILE", distance_unit="angstroms", _lenient=True, **fields)
    me._methods = {q.split(".", 1)[1]: f for q, f in mod.functions.items() if q.startswith(cls + ".") and q.count(".") == 1}
    me._isa = [cls]
    return me


def read_call(ctx, key, me, method, root, assume=assume, models=None, **kw):
    rel, cls = F.rel_cls(key)
    mod = ctx.py.mod(rel)
    fn = F.method(ctx, key, method)
    funcs = {q_: f_ for q_, f_ in mod.functions.items() if "." not in q_}
    mm = {"ensure_type": lambda ev, c: ev.ex(c.args[0]), "warnings.warn": lambda ev, c: None, "cast_indices": lambda ev, c: ev.ex(c.args[0])}
    mm.update(models or {})
    ts = TenSym({}, funcs=funcs, models=mm, parent=root)
    ts.assume = assume
    return ts.run_fn(fn, self=me, **kw)


def read_back(ctx, key, pieces, root, assume=assume, **kw):
    """read() of the format's file class evaluated on a model file that holds `pieces` (opened as the class opens it: mdcrd skips its title line)"""
    fh = text_file(pieces)
    n_atoms = kw.pop("n_atoms", N_ATOMS)
    fields = {"mdcrd": dict(_n_atoms=n_atoms, _has_box=None), "gro": dict(n_atoms=n_atoms)}.get(key, {})
    me = reader_object(ctx, key, fh, **fields)
    if key == "mdcrd":
        fh.readline()
    return read_call(ctx, key, me, "read", root, assume=assume, **kw), me


def parse_lines(ctx, key, method, pieces, root, assume=assume, **fields):
    """a parser that takes the list of the file's lines (f.readlines()): evaluated on the lines written"""
    fh = text_file(pieces)
    me = reader_object(ctx, key, fh, **fields)
    return read_call(ctx, key, me, method, root, assume=assume, lines=list(fh._lines)), me


# ---------------------------------------------------------------------------------------------------
# PDB
# ---------------------------------------------------------------------------------------------------
PDB = "mdtraj/formats/pdb/pdbfile.py"
PDBS = "mdtraj/formats/pdb/pdbstructure.py"


def pdb_topology(spec, serials=None):
    """spec: [(chain id, [(residue name, resSeq, [(atom name, element symbol), ...]), ...]), ...]"""
    chains, atoms, k = [], [], 0
    for ci, (cid, ress) in enumerate(spec):
        c = Obj(tag="chain", index=ci, chain_id=cid, _lenient=True)
        c.residues = []
        for (rn, rs, ans) in ress:
            r = Obj(tag="residue", name=rn, resSeq=rs, chain=c, _lenient=True)
            r.atoms = []
            for (an, el) in ans:
                a = Obj(tag="atom", name=an, serial=None if serials is None else serials[k], index=k, element=None if el is None else Obj(symbol=el), residue=r, segment_id="SEG", _lenient=True)
                r.atoms.append(a)
                atoms.append(a)
                k += 1
            c.residues.append(r)
        c._getters = {"atoms": lambda s_: [a_ for r_ in s_.residues for a_ in r_.atoms], "n_atoms": lambda s_: sum(len(r_.atoms) for r_ in s_.residues),
                      "n_residues": lambda s_: len(s_.residues), "_residues": lambda s_: s_.residues}
        for r_ in c.residues:
            r_._getters = {"n_atoms": lambda s_: len(s_.atoms), "_atoms": lambda s_: s_.atoms}
        chains.append(c)
    return Obj(tag="topology", chains=chains, _chains=chains, atoms=atoms, n_atoms=len(atoms), _numAtoms=len(atoms), bonds=[], _bonds=[], _lenient=True)


def pdb_written(ctx, top, frames, root, lengths=None, angles=None, bfactors=None, assume_=None, ter=None, footer=False):
    """lines printed by PDBTrajectoryFile.write for the given frames (one MODEL each), header first; with footer=True also those of _write_footer"""
    from .ttext import TText
    mod = ctx.py.mod(PDB)
    fn = ctx.py.func(PDB, "PDBTrajectoryFile.write")
    out = []
    fobj = Obj(tag="file")

    def prn(ev, call):
        dest = next((ev.ex(k_.value) for k_ in call.keywords if k_.arg == "file"), None)
        if dest is fobj:
            out.append([ev.ex(a_) for a_ in call.args])
    me = Obj(tag="pdb", _mode="w", _file=fobj, _header_written=False, _footer_written=False, _chain_names=[chr(65 + i) for i in range(26)], _lenient=True)
    me._methods = {q.split(".", 1)[1]: f for q, f in mod.functions.items() if q.startswith("PDBTrajectoryFile.") and q.count(".") == 1}
    funcs = {q: f for q, f in mod.functions.items() if "." not in q}
    for k, x in enumerate(frames):
        ts = TenSym({"mdtraj": Obj(__version__="V", version=Obj(version="V")), "date": Obj(today=lambda: "D")}, funcs=funcs,
                    models={"print": prn, "str": lambda ev, c: "S", "ilen": lambda ev, c: len(ev.iterate(ev.ex(c.args[0])))}, parent=root)
        ts.assume = assume_ or assume
        ts.module_env = {"mdtraj": Obj(__version__="V", version=Obj(version="V")), "date": Obj(today=lambda: "D")}
        extra = {} if ter is None else {"ter": ter}
        ts.run_fn(fn, self=me, positions=x, topology=top, modelIndex=k, unitcell_lengths=lengths, unitcell_angles=angles, bfactors=bfactors, **extra)
    if footer:
        ts = TenSym({}, funcs=funcs, models={"print": prn, "str": lambda ev, c: "S", "ilen": lambda ev, c: len(ev.iterate(ev.ex(c.args[0])))}, parent=root)
        ts.assume = assume_ or assume
        ts.run_fn(ctx.py.func(PDB, "PDBTrajectoryFile._write_footer"), self=me)
    lines_ = [TText(T.flatten(o) + ["\n"]) for o in out]
    return [(l_.literal() if l_.literal() is not None else l_) for l_ in lines_], me


def pdb_read_models(ctx, lines_, root, assume_=None):
    """PDBTrajectoryFile._read_models evaluated on the lines: PdbStructure, Model, Chain, Residue, Atom (and their nested classes) are instantiated
    from their source (sa/tensym.py `instantiate`), the mdtraj Topology that is filled in is a recorder.
    -> dict(positions=Ten(models, atoms, 3), lengths, angles, atoms=[(chain id, residue name, residue number, atom name, element symbol, serial)])"""
    import ast as _ast
    smod = ctx.py.mod(PDBS)
    pmod = ctx.py.mod(PDB)
    sfuncs = {q: f for q, f in smod.functions.items() if "." not in q}
    classes = {n.name: n for n in smod.tree.body if isinstance(n, _ast.ClassDef)}
    for n in list(classes.values()):
        for b in n.body:
            if isinstance(b, _ast.ClassDef):
                classes[n.name + "." + b.name] = b
    rm = ctx.py.func(PDB, "PDBTrajectoryFile._read_models")
    rec = {"atoms": [], "chains": 0, "residues": []}

    def mktop(ev, call):
        top = Obj(tag="topology", bonds=[], _lenient=True)

        def add_chain(chain_id=None, **kw):
            rec["chains"] += 1
            return Obj(tag="chain", chain_id=chain_id, index=rec["chains"] - 1)

        def add_residue(name, chain, resSeq=None, segment_id="", **kw):
            rec["residues"].append((name, resSeq, segment_id))
            return Obj(tag="residue", name=name, chain=chain, resSeq=resSeq, segment_id=segment_id)

        def add_atom(name, element, residue, serial=None, **kw):
            a = Obj(tag="atom", name=name, element=element, residue=residue, serial=serial, index=len(rec["atoms"]))
            rec["atoms"].append((residue.chain.chain_id, residue.name, residue.resSeq, name, getattr(element, "symbol", None), serial))
            return a
        top.add_chain, top.add_residue, top.add_atom = add_chain, add_residue, add_atom
        top.create_standard_bonds = lambda *a_, **k_: None
        top.create_disulfide_bonds = lambda *a_, **k_: None
        top.add_bond = lambda *a_, **k_: None
        return top
    me = Obj(tag="pdb file(read)", _mode="r", _file=list(lines_), _topology=None, _standard_names=False, _positions=None, _lenient=True)
    me._getters = {"positions": lambda s_: s_._positions}
    ts = TenSym({}, funcs=sfuncs, models={"Topology": mktop}, parent=root)
    ts.classes = classes
    ts.assume = assume_ or assume
    ts.module_env = {"element": Obj(get_by_symbol=lambda s_: Obj(tag="element", symbol=s_), hydrogen=Obj(tag="element", symbol="H")),
                     "sys": Obj(stdout=None), "warnings": Obj(warn=lambda *a_, **k_: None),
                     "PDBTrajectoryFile": Obj(_residueNameReplacements={}, _atomNameReplacements={}, _guess_element=lambda *a_: None)}
    ts.run_fn(rm, self=me)
    return dict(positions=me._positions, lengths=me._unitcell_lengths, angles=me._unitcell_angles, atoms=rec["atoms"], residues=rec["residues"])


def recorder_topology():
    """an mdtraj Topology that records what is added to it: .record = [(chain id / index, residue name, resSeq, atom name, element symbol, serial)]"""
    top = Obj(tag="topology (recorder)", bonds=[], record=[], _lenient=True)
    state = {"chains": 0}

    def add_chain(chain_id=None, **kw):
        state["chains"] += 1
        return Obj(tag="chain", chain_id=chain_id, index=state["chains"] - 1)

    def add_residue(name, chain, resSeq=None, segment_id="", **kw):
        return Obj(tag="residue", name=name, chain=chain, resSeq=resSeq, segment_id=segment_id)

    def add_atom(name, element=None, residue=None, serial=None, **kw):
        a = Obj(tag="atom", name=name, element=element, residue=residue, serial=serial, index=len(top.record))
        top.record.append((residue.chain.chain_id if residue.chain.chain_id is not None else residue.chain.index, residue.name, residue.resSeq, name, getattr(element, "symbol", None), serial))
        return a
    top.add_chain, top.add_residue, top.add_atom = add_chain, add_residue, add_atom
    top.create_standard_bonds = lambda *a_, **k_: None
    top.create_disulfide_bonds = lambda *a_, **k_: None
    top.add_bond = lambda *a_, **k_: None
    top._getters = {"n_atoms": lambda s_: len(top.record), "n_residues": lambda s_: len({(r_[0], r_[2], r_[1]) for r_ in top.record})}
    top.subset = lambda idx: top
    return top
