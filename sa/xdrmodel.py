"""Model of an XTC / TRR file for the evaluation (sa/tensym.py) of the two Cython classes (desugared by sa/pyxfront.py): the file is a list of frame
records; write_xtc / write_trr append the record they are handed (read through the element expressions `x[i, 0, 0]` that stand for the C pointers),
read_xtc / read_trr store the next record through the pointers given or report end of file; seek sets the position.  This is the assumption the
properties list for libxdrfile ("consume / produce exactly one frame per successful call")."""
from __future__ import annotations

import ast

from . import formats as F
from .tensym import TenSym, Ten, Obj, Raised, Rat, Poly

EXDROK, EXDRENDOFFILE = 0, 11
LIB = {"xtc": ("xdrlib.read_xtc", "xdrlib.write_xtc"), "trr": ("trrlib.read_trr", "trrlib.write_trr")}
# positions of the pointer arguments (after fh, natoms): name -> index in the call
ARGS = {"xtc": dict(step=2, time=3, box=4, x=5), "trr": dict(step=2, time=3, lambd=4, box=5, x=6)}


class XdrFile:
    def __init__(self, key):
        self.key = key
        self.frames = []        # dict(natoms, step, time, box=[9], x=[natoms*3])
        self.pos = 0

    # ---- the C library
    def _element(self, ev, node):
        """(array, first index) of `a[i, 0, 0]` / `a[i]`; None for NULL / scalars"""
        if isinstance(node, ast.Subscript):
            base = ev.ex(node.value)
            if isinstance(base, Ten):
                idx = node.slice.elts if isinstance(node.slice, ast.Tuple) else [node.slice]
                return base, ev.concrete(ev.ex(idx[0]))
        return None

    def write(self, ev, call):
        a = ARGS[self.key]
        rec = {"natoms": ev.pyval(ev.ex(call.args[1]))}
        for nm in ("step", "time") + (("lambd",) if "lambd" in a else ()):
            rec[nm] = ev.lift(ev.ex(call.args[a[nm]]))
        be = self._element(ev, call.args[a["box"]])
        xe = self._element(ev, call.args[a["x"]])
        if be is None or xe is None:
            raise Raised("the analysed path raises: the writer is not handed coordinate / box arrays", "TypeError('write_xdr')")
        barr, bi = be
        xarr, xi = xe
        n = rec["natoms"]
        per = 1
        for s_ in xarr.shape[1:]:
            per *= s_
        if not isinstance(n, int) or per < n * 3:
            raise Raised("the analysed path raises: heap overrun (%s atoms written from rows of %d numbers)" % (n, per), "MemoryError('overrun')")
        rec["x"] = list(xarr.data[xi * per: xi * per + n * 3])
        rec["box"] = list(barr.data[bi * 9: bi * 9 + 9])
        self.frames.append(rec)
        return EXDROK

    def read(self, ev, call):
        a = ARGS[self.key]
        if self.pos >= len(self.frames):
            return EXDRENDOFFILE
        rec = self.frames[self.pos]
        self.pos += 1
        for nm in ("step", "time") + (("lambd",) if "lambd" in a else ()):
            e = self._element(ev, call.args[a[nm]])
            if e is not None:
                e[0].data[e[1]] = rec[nm]
        be = self._element(ev, call.args[a["box"]])
        if be is not None:
            for j in range(9):
                be[0].data[be[1] * 9 + j] = rec["box"][j]
        xe = self._element(ev, call.args[a["x"]])
        if xe is not None:
            arr, i = xe
            per = 1
            for s_ in arr.shape[1:]:
                per *= s_
            if arr.ndim == 2:       # a frame buffer (n_atoms, 3)
                i, per = 0, len(arr.data)
            if per < len(rec["x"]):
                raise Raised("the analysed path raises: heap overrun (%d numbers read into rows of %d)" % (len(rec["x"]), per), "MemoryError('overrun')")
            for j, v in enumerate(rec["x"]):
                arr.data[i * per + j] = v
        return EXDROK


def file_object(ctx, key, xf, mode, n_atoms=None, cached_offsets=False):
    rel, cls = F.rel_cls(key)
    mod = ctx.py.mod(rel)
    methods = {q.split(".", 1)[1]: f for q, f in mod.functions.items() if q.startswith(cls + ".") and q.count(".") == 1}
    me = Obj(tag="%s file(%s)" % (key, mode), mode=mode, fh="FH", is_open=True, frame_counter=0, n_atoms=n_atoms or 0, with_unitcell=False,
             _offsets=("offsets" if cached_offsets else None), approx_n_frames=len(xf.frames), chunk_size_multiplier=2, min_chunk_size=3, distance_unit="nanometers", _lenient=True)
    me._methods = {k: v for k, v in methods.items() if k in ("write", "_write", "read", "_read", "read_as_traj")}
    me.n_frames = len(xf.frames)

    def seek(offset, whence=0):
        pos = offset if whence == 0 else (me.frame_counter + offset if whence == 1 else len(xf.frames) + offset)
        me.frame_counter = pos
        xf.pos = pos
    me.seek = seek
    me.tell = lambda: me.frame_counter
    me.__enter__ = lambda: me
    me.close = lambda: None
    return me


def models(key, xf):
    r, w = LIB[key]
    return {r: xf.read, w: xf.write, "ensure_type": lambda ev, c: (lambda v: ev.to_ten(v) if isinstance(v, (list, tuple)) else v)(ev.ex(c.args[0])), "warnings.warn": lambda ev, c: None,
            "str": lambda ev, c: ev.ex(c.args[0])}


MODULE_ENV = {"_EXDROK": EXDROK, "_EXDRENDOFFILE": EXDRENDOFFILE, "_EXDR_ERROR_MESSAGES": {}, "NULL": None}


def call(ctx, key, xf, me, method, assume=None, extra_models=None, **kw):
    fn = F.method(ctx, key, method)
    mm = models(key, xf)
    mm.update(extra_models or {})
    ts = TenSym({}, models=mm)
    ts.module_env = dict(MODULE_ENV)
    ts.assume = assume
    ts.moderate = True
    ts.generic_eq = True
    return ts.run_fn(fn, self=me, **kw)
