#!/bin/sh
# Build step after a fresh restore: nothing to fetch; byte-compile the analysers and run the embedded self-checks.
cd "$(dirname "$0")"
if [ -x /venv/bin/python ]; then PY=/venv/bin/python; else PY=python3; fi
"$PY" -m compileall -q sa >/dev/null 2>&1 || true
mkdir -p evidence .cache
"$PY" -B -c "import sa.core, sa.cfg, sa.pyfront, sa.pyxfront; print('sa ok')"
