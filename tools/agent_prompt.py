#!/usr/bin/env python3
"""Print the prompt for a seeding sub-agent: property text + worktree path only (nothing from /verif)."""
import json, sys
pid, wt = sys.argv[1], sys.argv[2]
n = sys.argv[3] if len(sys.argv) > 3 else "3"
for l in open('/verif/properties.jsonl'):
    d = json.loads(l)
    if d['id'] == pid:
        break
print(f"""You are testing how robust a Python/C++ library is against subtle regressions. The library is mdtraj (molecular-dynamics trajectory I/O and analysis).
You have your own scratch git worktree of the library at {wt} (a git checkout; work ONLY inside this directory, never touch /repo or /verif, and do not read anything under /verif).
Use /venv/bin/python to run code (run it with cwd={wt} so that `import mdtraj` picks up this worktree; the compiled extension modules are already in place). The test data is in {wt}/tests/data. There is no network.

PROPERTY ({d['id']}): {d['title']}
{d['statement']}
Quantified over: {d['quantifier']['text']}
Code anchors: {', '.join(d['anchors']['files'])}
Mechanisms: {'; '.join(m['name'] + ' [' + m['where'] + ']' for m in d['anchors']['mechanism'])}

TASK: produce {n} DIFFERENT, independent source changes to the library (each one a small realistic edit such as a developer could make by mistake in a refactoring, optimisation or "cleanup") such that, for each change:
 1. the library still imports/compiles and the EXISTING test suite still passes with the change (check at least the test files that exercise the edited code, e.g. `/venv/bin/python -m pytest -q -p no:cacheprovider tests/test_<area>.py`; tests that already fail without your change or need the network do not count);
 2. the change BREAKS the property above for some input / history / configuration;
 3. the breakage needs something specific to manifest - a particular multi-step sequence of operations, an unusual input (e.g. a particular cell shape, stride/chunk combination, zero value, multi-chain topology), a particular code path or option, or two cooperating sites that each look fine alone - NOT something ordinary use would expose at once;
 4. you write a demonstration: a small standalone Python program `demo.py` that exits non-zero (assertion failure) WITH the change and exits 0 WITHOUT it.
Prefer edits to .py files. Edits to .pyx files cannot be rebuilt here (Cython is not installed) so avoid them. Edits to the C/C++ kernels (.cpp/.h under mdtraj/geometry/src, mdtraj/geometry/include, mdtraj/rmsd/src) are possible: after editing run `{wt}/rebuild_ext.sh {wt} <geometry|neighbors|neighborlist|drid|rmsd>` to rebuild that extension by hand (takes ~10 s).
Make the changes diverse: different functions/files and different kinds of mistake.

DELIVERABLE: for each change k = 1..{n} create the directory {wt}/seed_out/<k>/ containing
   patch.diff  - output of `git diff` for that change alone (relative to the clean checkout, applies with `git apply`); do not include seed_out, rebuild_ext.sh or build products in it
   demo.py     - the demonstration (must run with cwd = a checkout of the library; use only relative paths like tests/data/... or temp files)
   meta.json   - {{"property": "{d['id']}", "summary": "...what was changed...", "needs": "...what is needed for the breakage to manifest...", "tests_run": "...the pytest command(s) you ran and their result...", "rebuild": "<extension name to rebuild, or null>"}}
After producing each patch, restore the worktree to the clean state (`git checkout -- .` and rebuild the extension if you had rebuilt it) before starting the next change, and verify yourself that demo.py passes on the clean tree and fails with the patch applied.
Never use `git stash` (the stash is shared between worktrees) and never run git commands that affect anything outside {wt}. Start demo.py with `import os, sys; sys.path.insert(0, os.getcwd())` so that it imports the library of the directory it is run in.
Also avoid changes that an attentive reviewer would spot at once as touching the obvious line for this property; prefer mistakes in helper functions, defaults, caches, index arithmetic, option plumbing or rarely-taken branches that the property depends on indirectly.
Finish with a short list of the changes you made. Do not commit anything.""")
