#!/usr/bin/env python3
"""Compare a junit xml with BASELINE.json stable_pass: print tests of the baseline that did not pass."""
import json, sys, xml.etree.ElementTree as ET
base = set(json.load(open('/root/.vp/BASELINE.json'))['stable_pass'])
passed = set()
for tc in ET.parse(sys.argv[1]).getroot().iter('testcase'):
    if not any(c.tag in ('failure', 'error', 'skipped') for c in tc):
        passed.add(tc.get('classname') + '::' + tc.get('name'))
missing = sorted(base - passed)
print('baseline', len(base), 'passed-now', len(passed & base), 'missing', len(missing))
for m in missing[:20]: print('  ', m)
sys.exit(1 if missing else 0)
