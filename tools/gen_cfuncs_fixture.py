#!/venv/bin/python
"""Record, per C / C++ file of mdtraj, the names of the functions defined in it on today's tree (sa/cfuncs_fixture.json).
A function of an analysed file that is not in this list is expanded at its call sites before the rules run (sa/cfront.py: inline_new_helpers).
Run on a clean tree:  VERIF_REPO=/repo tools/gen_cfuncs_fixture.py"""
import json
import os
import sys
sys.path.insert(0, os.path.join(os.path.dirname(os.path.abspath(__file__)), ".."))
from sa import cfront  # noqa: E402

repo = os.environ.get("VERIF_REPO", "/repo")
out = {}
for root, _d, files in os.walk(os.path.join(repo, "mdtraj")):
    for f in files:
        if f.endswith((".c", ".cpp", ".h", ".hpp", ".cc")):
            rel = os.path.relpath(os.path.join(root, f), repo)
            out[rel] = sorted(cfront.defined_function_names(repo, rel))
p = os.path.join(os.path.dirname(os.path.abspath(__file__)), "..", "sa", "cfuncs_fixture.json")
with open(p, "w") as fh:
    json.dump(out, fh, indent=0, sort_keys=True)
print("%d files, %d functions" % (len(out), sum(len(v) for v in out.values())))
