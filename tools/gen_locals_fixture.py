#!/usr/bin/env python3
"""gen_locals_fixture.py: record (name, type) of the local declarations of the C functions whose rules name locals.
Run on the tree the rules were written for; the result (sa/locals_fixture.json) lets the front-end tolerate a pure renaming of locals."""
import json, os, sys
sys.path.insert(0, "/verif")
from sa import cfront as C
repo = os.environ.get("VERIF_REPO", "/repo")
cf = C.get(repo)
FUNCS = [("mdtraj/geometry/src/neighbors.cpp", "_compute_neighbors"), ("mdtraj/geometry/src/neighborlist.cpp", "getNeighbors"), ("mdtraj/geometry/src/neighborlist.cpp", "_compute_neighborlist"),
         ("mdtraj/geometry/src/neighborlist.cpp", "Voxels"), ("mdtraj/geometry/src/neighborlist.cpp", "getVoxelIndex"),
         ("mdtraj/geometry/src/sasa.cpp", "asa_frame"), ("mdtraj/geometry/src/sasa.cpp", "sasa"), ("mdtraj/geometry/src/sasa.cpp", "generate_sphere_points"),
         ("mdtraj/geometry/src/dssp.cpp", "calculate_beta_sheets"), ("mdtraj/geometry/src/dssp.cpp", "calculate_bends"), ("mdtraj/geometry/src/dssp.cpp", "calculate_alpha_helices"), ("mdtraj/geometry/src/dssp.cpp", "dssp"),
         ("mdtraj/geometry/src/geometry.cpp", "kabsch_sander"), ("mdtraj/geometry/src/geometry.cpp", "ks_assign_hydrogens"), ("mdtraj/geometry/src/geometry.cpp", "ks_donor_acceptor"),
         ("mdtraj/geometry/src/geometry.cpp", "store_energies"), ("mdtraj/geometry/src/geometry.cpp", "find_closest_contact"),
         ("mdtraj/geometry/src/geometry.cpp", "dist"), ("mdtraj/geometry/src/geometry.cpp", "dist_mic"), ("mdtraj/geometry/src/geometry.cpp", "dist_mic_triclinic"),
         ("mdtraj/geometry/src/geometry.cpp", "dist_t"), ("mdtraj/geometry/src/geometry.cpp", "dist_mic_t"), ("mdtraj/geometry/src/geometry.cpp", "dist_mic_triclinic_t"),
         ("mdtraj/geometry/src/geometry.cpp", "angle"), ("mdtraj/geometry/src/geometry.cpp", "angle_mic"), ("mdtraj/geometry/src/geometry.cpp", "angle_mic_triclinic"),
         ("mdtraj/geometry/src/geometry.cpp", "dihedral"), ("mdtraj/geometry/src/geometry.cpp", "dihedral_mic"), ("mdtraj/geometry/src/geometry.cpp", "dihedral_mic_triclinic"),
         ("mdtraj/geometry/src/dridkernels.cpp", "drid_moments"), ("mdtraj/geometry/src/moments.cpp", "moments_push"),
         ("mdtraj/rmsd/src/theobald_rmsd.cpp", "msdFromMandG"), ("mdtraj/rmsd/src/theobald_rmsd.cpp", "DirectSolve"), ("mdtraj/rmsd/src/theobald_rmsd.cpp", "msd_atom_major"),
         ("mdtraj/rmsd/src/rotation.cpp", "rot_atom_major"), ("mdtraj/rmsd/src/rotation.cpp", "rot_msd_atom_major"), ("mdtraj/rmsd/src/center.cpp", "inplace_center_and_trace_atom_major")]
out = {}
C._FIXTURE = {}
for rel, name in FUNCS:
    try:
        fn = cf.function(rel, name)
    except Exception as e:
        print("skip", rel, name, e)
        continue
    out["%s:%s" % (rel, name)] = [[n, t] for n, t, _ in C.local_decls(fn)]
json.dump(out, open("/verif/sa/locals_fixture.json", "w"), indent=0, sort_keys=True)
print("recorded", len(out), "functions,", sum(len(v) for v in out.values()), "locals")
