#!/usr/bin/env python3
"""Regenerate /verif/MANIFEST.json from the table below (single source of truth)."""
import json, os
HERE = os.path.dirname(os.path.dirname(os.path.abspath(__file__)))

CLAIMED = {
    # id: (technique, level text, level note, design ref)
}
EXTRA = {}
NA = {
    # id: reason
}
exec(open(os.path.join(HERE, "tools", "manifest_table.py")).read())

checks = []
for pid in sorted(CLAIMED):
    tech, text, note, ref = CLAIMED[pid]
    if pid in globals().get("EXTRA", {}):
        tech, text = tech + EXTRA[pid][0], text + EXTRA[pid][1]
    checks.append({
        "property_id": pid,
        "quick_cmd": "./check %s --tier quick" % pid,
        "thorough_cmd": "./check %s --tier thorough" % pid,
        "evidence_file": "/verif/evidence/%s.json" % pid,
        "replay_cmd_template": "./check %s --replay {path}" % pid,
        "engine": "sa",
        "level_claimed": {"category": "other", "text": text, "design_ref": ref},
        "level_note": note,
        "technique": tech,
    })
man = {
    "version": 1,
    "setup_cmd": "./setup.sh",
    "hooks": {
        "guard": "MDTRAJ_VERIF",
        "enable": "no hooks: nothing in /repo is instrumented; the checks read the source text only",
        "baseline_off_cmd": "cd /repo && /venv/bin/python -m pytest -ra -q -p no:cacheprovider --timeout=900 --continue-on-collection-errors",
        "source_commits": [],
        "add_only": True,
    },
    "engines": [{
        "name": "sa",
        "path": "/verif/sa",
        "serves_properties": sorted(CLAIMED),
        "kind_free_text": "repository-specific static analysis: Python ast + own Cython desugarer + clang-14 JSON AST; "
                          "statement CFG with path-sensitive predicate abstraction, freshness/alias and dependence analyses, "
                          "table extraction, sibling (clone) comparison",
    }],
    "checks": checks,
    "notes": "Static analysis only: every verdict is computed from the source of /repo's working tree at run time; "
             "nothing under /repo is imported or executed. Exit 0 held (KNOWN-FINDING lines allowed), 1 new violation, "
             "2 analysis error (ANALYSIS-ERROR line).",
    "not_applicable": [{"property_id": k, "reason": NA[k]} for k in sorted(NA)],
}
with open(os.path.join(HERE, "MANIFEST.json"), "w") as f:
    json.dump(man, f, indent=1)
    f.write("\n")
print("claimed", sorted(CLAIMED), "n/a", sorted(NA))
