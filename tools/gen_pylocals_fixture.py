#!/venv/bin/python
"""gen_pylocals_fixture.py: record, for every function of the package, its local names (order of first binding) and a digest of
the function with those names masked.  sa/pyfront.py uses it to tolerate a pure renaming of locals."""
import json, os, sys
sys.path.insert(0, "/verif")
from sa import pyfront
repo = os.environ.get("VERIF_REPO", "/repo")
pyfront._PYFIXTURE = {}
r = pyfront.Repo(repo)
out = {}
files = list(r.all_py("mdtraj"))
for dp, dn, fn in os.walk(os.path.join(repo, "mdtraj")):
    for f in fn:
        if f.endswith((".pyx", ".pxi")):
            files.append(os.path.relpath(os.path.join(dp, f), repo))
for rel in sorted(set(files)):
    try:
        m = r.mod(rel)
    except Exception as e:
        print("skip", rel, str(e)[:60])
        continue
    seen = set()
    for q, fn in m.functions.items():
        if id(fn) in seen:
            continue
        seen.add(id(fn))
        names = pyfront.local_names(fn)
        if not names:
            continue
        out["%s:%s" % (rel, q)] = {"names": names, "digest": pyfront.masked_digest(fn, names)}
out["__python__"] = "%d.%d" % sys.version_info[:2]
json.dump(out, open("/verif/sa/pylocals_fixture.json", "w"), indent=0, sort_keys=True)
print("recorded", len(out), "functions")
