#!/usr/bin/env python3
"""keep_seed.py <seed_dir> <name> [--tests]: evaluate a sub-agent's seeded change and store it under /verif/seeded/<name>/."""
import json, os, shutil, subprocess, sys
seed, name = sys.argv[1], sys.argv[2]
extra = [a for a in sys.argv[3:]]
out = subprocess.run(["python3", "/verif/tools/seed_eval.py", seed] + extra, capture_output=True, text=True).stdout
ev = json.loads(out)
dst = os.path.join("/verif/seeded", name)
os.makedirs(dst, exist_ok=True)
for f in ("patch.diff", "demo.py"):
    shutil.copyfile(os.path.join(seed, f), os.path.join(dst, f))
meta = json.load(open(os.path.join(seed, "meta.json")))
head = subprocess.run("git -C /repo rev-parse --short HEAD", shell=True, capture_output=True, text=True).stdout.strip()
meta2 = {
    "property": meta.get("property"),
    "summary": meta.get("summary"),
    "needs_to_manifest": meta.get("needs"),
    "rebuild": meta.get("rebuild"),
    "author_tests_run": meta.get("tests_run"),
    "confirmed": {
        "repo_head": head,
        "how": "tools/seed_eval.py: fresh scratch worktree of /repo HEAD under /tmp (removed afterwards); demo.py on the clean tree and with patch.diff applied; "
               "then patch applied to /repo, every claimed check run (quick), patch undone with git checkout",
        "demo_clean_rc": ev.get("demo_clean_rc"),
        "demo_patched_rc": ev.get("demo_patched_rc"),
        "demo_patched_tail": ev.get("demo_patched_tail"),
        "baseline_tests_with_patch": ev.get("tests", "not run in this evaluation"),
        "baseline_tests_missing": ev.get("tests_missing", []),
    },
    "checks_fired": ev.get("checks_fired"),
    "caught": bool(ev.get("checks_fired")),
}
if "--repo-only" in extra and os.path.exists(os.path.join(dst, "meta.json")):
    old = json.load(open(os.path.join(dst, "meta.json")))
    old["checks_fired"] = ev.get("checks_fired")
    old["caught"] = bool(ev.get("checks_fired"))
    meta2 = old
json.dump(meta2, open(os.path.join(dst, "meta.json"), "w"), indent=1)
print(name, "caught" if meta2["caught"] else "MISSED", {k: [l.split("  ")[1] for l in v["lines"] if "  " in l] for k, v in (ev.get("checks_fired") or {}).items()},
      "demo", ev.get("demo_clean_rc"), ev.get("demo_patched_rc"), ev.get("tests", ""))
