_NOTE = ("Decides the named structural clauses (necessary conditions) for all inputs at once; does not decide "
         "numerical truth. Trusted base: Python ast, the Cython desugarer sa/pyxfront.py (fails closed), clang-14 AST.")
CLAIMED = {
 "C20": ("path-sensitive CFG dataflow (predicate abstraction over exists/force/mode) + call-graph who-may-call check",
         "Every destructive open/unlink/rmtree site in every file class is enumerated and proved to be reached only when "
         "the path does not exist or overwriting was requested; plumbing of force_overwrite from each save_*/open, mode "
         "sets and read-never-writes are decided over the whole formats package.", _NOTE, "DESIGN.md §4 C20"),
 "C03": ("forward abstract interpretation (freshness/alias lattice, path-sensitive) + CFG must-pass-through + inter-procedural effect analysis across py/pyx/C (clang AST)",
         "Every Trajectory construction site is enumerated and each argument required fresh is proved FRESH in every path world; "
         "slice co-indexes every per-frame field (incl. the cached traces) with the same key; every write that bypasses the xyz setter "
         "resets the cache before normal exit; join/stack completeness; no public analysis/save function writes through its trajectory "
         "argument (definite writes found in Python, Cython and C bodies).", _NOTE, "DESIGN.md §4 C03"),
 "C04": ("dependence analysis (backward slices) over rebuilders, writer/reader key-table agreement, transitive hash/eq field-set inclusion, CFG must-pass-through, affine counter summaries",
         "Every topology rebuilder (copy, join, subset, PDB reader, data frame and HDF5 JSON carriers) is checked argument by argument for "
         "preservation of chain_id/name/resSeq/segment_id/element/serial/type/order and for re-pointing of bonds through an old->new map; "
         "equality => equal hash is decided as a field-set inclusion; list/counter pairing and PDB ATOM/CONECT numbering agreement are decided "
         "structurally.", _NOTE, "DESIGN.md §4 C04"),
 "C19": ("CFG reachability (mutation -> schema-rejecting raise), sibling table of schema checks, dependence of defaults on the writer position, must-pass-through of flush/sync",
         "For every streaming write() the persistent mutations and the argument-rejecting raises are enumerated and ordered on the CFG "
         "(validate before mutate); stateful writers are cross-checked for atom-count and cell-presence checks; synthesised time/step defaults "
         "must depend on the position; counters move after the data; headers once; flush reaches the backend sync on every exit. Crash "
         "behaviour itself is not decided - only the ordering discipline it relies on.", _NOTE, "DESIGN.md §4 C19"),
 "C18": ("symbolic evaluation of seek/read position arithmetic (linear + min forms) with sibling comparison; CFG placement of cursor increments; opener/reset agreement; instance-state check",
         "The per-operation invariants every cursor history relies on are decided for all seekable classes: the whence table of each seek(), "
         "boundedness of the new position in array-backed readers, one increment per returned frame in sequential readers, reopen "
         "consistency, per-instance cursor state, and restoration of the C file position by the offset scan. Arbitrary histories "
         "(linearizability) are a run-time notion and are not decided.", _NOTE, "DESIGN.md §4 C18"),
 "C02": ("sibling protocol comparison over all registered loaders / file classes (argument plumbing, stride idiom classification, cursor-vs-window, affine time shape, subset pairing, iterload branch table)",
         "The protocol every reader must follow for partial loading to equal slicing is decided for all 12 registered loader/file-class pairs: "
         "frame/stride/atom_indices/n_frames reach read(); the stride scales the consumed window; the cursor ends at the window; synthesised time "
         "is affine in the absolute frame index; topology and coordinates are subset together; every iterload branch honours skip/stride/"
         "atom_indices/chunk. Equality of the values is run-time and not decided.", _NOTE, "DESIGN.md §4 C02"),
 "C12": ("constant-table extraction and folding (alias tables, precedence levels), comparison with the documentation table and a meaning oracle, AST-shape matching, CFG dominance for the rejection path",
         "The selection language is defined by constant tables and a precedence list, so it is decided completely: every documented keyword/synonym "
         "and its attribute, every operator spelling and its AST node, the precedence levels (per operator, not > comparisons > and > or), the shapes "
         "built for ranges / implicit lists / regex, that select and select_expression share one parse, and that malformed input ends in an exception.",
         _NOTE, "DESIGN.md §4 C12"),
 "C17": ("algebraic value numbering of the cell conversions (Gram identities as polynomial identities modulo sqrt^2 and sin^2+cos^2), dependence-set analysis, literal-zero orientation check, positional agreement getter/setter vs callee signatures, package-wide paired-field enumeration, degree/radian unit inference",
         "Which inputs each output of the lengths/angles <-> box-vector conversions depends on (alpha=angle(b,c), beta=angle(c,a), gamma=angle(a,b); "
         "for all inputs in exact arithmetic the vectors built from (lengths, angles) have |a|,|b|,|c| and a.b, b.c, c.a equal to those parameters, the inverse is sqrt(v.v) / acos(v.w/|v||w|), the LAMMPS tilt factors are the box-vector components and parse_box inverts write_box; "
         "a along x, b in the xy plane) is decided for unitcell.py, the Trajectory property pair and the LAMMPS box reader/writer; lengths and angles "
         "travel together at every construction/assignment site of the package; degrees are converted before cos/sin and back after arccos. "
         "Numerical agreement is not decided.", _NOTE, "DESIGN.md §4 C17"),
 "C01": ("table agreement (savers / registry), units-of-length flow check with a format-specification oracle, fixed-width layout engine (format strings -> column spans vs reader slices), permutation/token tables, loop-index dependence",
         "Structural necessary conditions of a correct round trip are decided for every writable format: dispatch tables agree; every length crosses the "
         "file boundary through exactly one conversion in the right direction and the class unit equals the unit the format specifies (catches errors "
         "that cancel in save-then-load); fixed-width writers and readers agree column by column (PDB ATOM/CRYST1, mdcrd, rst7, gro); token orders, the GRO "
         "box permutation, DCD/DTR cell fields and NetCDF/HDF5 names agree; restart writers index every per-frame field by the loop variable. "
         "Numerical equality within precision is not decided.", _NOTE, "DESIGN.md §4 C01"),
 "C11": ("shape analysis of the re-imaging kernels through the Cython desugarer (lattice-term form of every position update), effect analysis (cell never written), copy-unless-inplace and sorted-bonds checks on the callers",
         "Every term that reaches a position update in make_whole / wrap_mols / image_frame is shown to be cell[r,k] * rounding(v[r]/cell[r,r]) with rows "
         "processed c,b,a, position stores are old +/- accumulator, no kernel writes the cell, and with inplace=False the kernels act on a deep copy. "
         "That every bonded pair ends at its minimum-image separation is numerical and not decided.", _NOTE, "DESIGN.md §4 C11"),
 "C08": ("OpenMP data-sharing analysis on the clang AST (+ pragma clauses), callee write-effect summaries, first-access classification of scratch buffers, prange store discipline through the Cython desugarer",
         "Every OpenMP parallel region of the build (3) and every prange loop (9) is enumerated; each variable written in a region is shown to be region-local, "
         "private, the work-shared loop variable or an element addressed through the loop variable; callees write only such locations; buffers that outlive a frame are "
         "re-initialised when the callee accumulates into them; sequential frame loops construct per-frame state inside the loop and advance by the per-frame stride. "
         "This establishes absence of cross-frame / cross-thread state, not bitwise arithmetic determinism.", _NOTE, "DESIGN.md §4 C08"),
 "C13": ("first-access classification of the accumulator (clang AST), taint of the selection mask, value numbering of the quadrature points, guard facts at the blocker pre-filter, table / literal checks, positional FFI conformance against the real C prototype",
         "Decides that the SASA accumulator starts from zero for every frame, that the selection mask only decides which atoms are targets (blockers are all atoms), "
         "the -1/0 output convention, residue-mode mapping and summation, non-mutation of the radii table, the area formula's constants, and that arguments keep "
         "their meaning across sasa.py -> Cython -> C. Quadrature accuracy is numerical and not decided.", _NOTE, "DESIGN.md §4 C13"),
 "C14": ("degree/radian unit inference and operator/index tables (Python), algebraic value numbering of the Kabsch-Sander energy and of the hydrogen-placement paths with canonical path conditions, literal and guard analysis on the clang AST, sentinel-guard dominance, `periodic` plumbing",
         "Decides units, strictness and cutoff plumbing of the Baker-Hubbard / Wernet-Nilsson criteria, which distance and which angle of the D-H...A triplet the index "
         "tables select, the donor/acceptor element and filter tables, the Kabsch-Sander constants and proline guard, the best-two bookkeeping, and that no coordinate "
         "is read through the -1 sentinel of an incomplete residue. Set equality near thresholds is numerical and not decided.", _NOTE, "DESIGN.md §4 C14"),
 "C15": ("enum/switch/translation table bijection, guard dominance on the clang AST (skip, bounds, chain continuity)",
         "Decides that the eight DSSP states, the character switch, the simplified translation and the documented code list agree (exhaustive, injective), that the output has one "
         "code per residue per frame with 'NA' overlaid from the protein mask, that incomplete residues take part in no pattern, and that every i+-k access of the bridge / helix tests "
         "is behind its bounds and same-chain tests. The DSSP rule logic itself is combinatorial and not decided.", _NOTE, "DESIGN.md §4 C15"),
 "C05": ("algebraic value numbering of the four minimum-image kernels as whole functions (normal forms of the stored displacement / distance over the input symbols, symbolic loop variables), dispatch-predicate and box-orientation agreement across dispatchers (py) and wrappers (pyx), positional FFI conformance against the real C prototypes, `periodic` plumbing",
         "Decides that every distance/displacement dispatcher selects the periodic path by the same predicate, derives orthogonality from the cell angles and hands the box to the optimised and reference "
         "paths in the same orientation; that the wrap acts on pos2-pos1 in every kernel, the box is reduced before use, the image search enumerates exactly {-1,0,1}^3 and its minimum is what is stored; "
         "that the time-pair kernels equal their siblings; and that every extern call in _geometry.pyx passes the variable its C parameter names. That the result is the true minimum for every cell is numerical and not decided.",
         _NOTE, "DESIGN.md §4 C05"),
 "C07": ("algebraic value numbering of the per-frame body of the six angle / dihedral kernels and of the numpy reference (clamp paths, atan2 formula as normal forms), dispatch / FFI conformance (shared with C05), evaluation of index initializer lists to atom-slot tables, constant-table comparison with the IUPAC-IUB torsion definitions plus internal invariants",
         "Decides that angles and dihedrals take the periodic path like distances do, that C kernels and numpy references build (mid->first, mid->third) and consecutive bond vectors from the same atom slots and read them "
         "back in the order requested, that the cosine is clamped to [-1,1] before acos on every path and the dihedral is atan2(|b2| b1.(b2xb3), (b1xb2).(b2xb3)) in both implementations, and that PHI/PSI/OMEGA/CHI1-5 tables, "
         "offset parsing and per-chain lookup match the IUPAC definitions. Numerical values and sign at degeneracies are not decided.", _NOTE, "DESIGN.md §4 C07"),
 "C06": ("algebraic value numbering of the C kernels on the clang AST (every scalar / SIMD lane as a polynomial normal form; polynomial identities of the QCP method), prange/serial clone comparison, protocol and guard checks on the Python / Cython layers",
         "Decides for all inputs, in exact arithmetic: K(M) is the quaternion key matrix; C_0, C_1, C_2 are the coefficients of det(K - lambda I); msd = (G_a+G_b-2 lambda)/N clamped at 0 with lambda the largest root; "
         "q is the cofactor eigenvector; rot[] is a proper rotation; sum_ij R_ij S_ji = q^T K q, which ties matrix layout, rotation convention and kernel argument order together; the SSE kernels (all four remainders of n mod 4, "
         "masked tail, horizontal-add epilogue) produce M[3i+j] = sum a_i b_j, apply x' = x R, and centre by the float64 mean. Also: parallel and serial branches are identical; superpose centres alignment and displaced atoms by the "
         "same float64 offset and restores the reference offset; cached traces are used only when valid; array roles at every kernel call site. Floating-point behaviour of the quartic solver is not decided.", _NOTE, "DESIGN.md §4 C06"),
 "C10": ("guard and statement-order analysis of the two search kernels on the clang AST (facts in effect at each push_back, break after push_back, iterator loops, wrap statements), dominance of the primary-cell wrap over every use of the positions, FFI role agreement of the Cython wrappers",
         "Decides that compute_neighbors walks the haystack in the given order, skips the self pair, wraps the difference vector (reduced box; c, b, a), tests |delta|^2 < cutoff^2 strictly and leaves the query loop after recording an atom (no duplicates); "
         "that compute_neighborlist records a pair only for index < atomIndex within the squared cutoff and mirrors every recorded pair exactly once after the parallel search (symmetric, irreflexive, duplicate-free by construction); that under periodic "
         "boundary conditions the cell list is built and searched on positions wrapped into the primary cell; and that the wrappers hand over positions and box of the same frame with every argument in its role. "
         "Which voxels and x-ranges the cell list visits is arithmetic on run-time values and is not decided.", _NOTE, "DESIGN.md §4 C10"),
 "C09": ("abstract interpretation with a difference-taint lattice (CONST < INV < BOX < LAT < REL < ABS) over the clang AST of every geometry kernel and over the numpy idioms of the Python descriptors",
         "Decides the structural core of translation and lattice-translation invariance that the property itself names: in 20 C/C++ kernels and 12 Python functions every value derived from a position array reaches a product, norm, "
         "math function, comparison with a non-position or result array only after the subtraction of two positions (or of their mean / centre of geometry); every rounding call of a minimum-image reduction sees a difference, not a position; "
         "the cell list hashes wrapped positions. Rotation invariance and float32 cancellation at large offsets are numerical and are not decided.", _NOTE, "DESIGN.md §4 C09"),
 "C16": ("algebraic value numbering of the C and Python sources against the defining formulas (induction step of the single-pass moment recurrences for a symbolic count; rational normal forms of the shape, shell-volume, Karplus and density expressions), dataflow checks of the flattened atom-pair bookkeeping",
         "Decides, for all inputs and in exact arithmetic, that the formula evaluated is the defining one: the online moment update preserves u = S1/n, M2 = S2 - S1^2/n, M3 = S3 - 3 S1 S2/n + 2 S1^3/n^2 for symbolic n (base case and read-outs included); "
         "DRID pushes reciprocal distances of the non-bonded partners and stores (mean, sqrt, cbrt); gyration tensor, asphericity, acylindricity, relative shape anisotropy; centre of geometry / mass and the radius of gyration about the centre that belongs to its weights; "
         "compute_contacts membership, product, counts, offsets, min / soft-min and label lock-step; density conversion; RDF bin centres, shell volume and normalisation; the Karplus relation and its tables. "
         "Floating-point agreement with the closed forms, eigen-solver and histogram internals, and the descriptors listed under not_decided (nematic order, dipoles, inertia tensor) are NOT decided.", _NOTE, "DESIGN.md §4 C16"),
}
_PENDING = "check not built yet in this round (design in DESIGN.md §4); will be claimed when its rules run clean"
NA = {}

# additions of the later build rounds: (appended to the technique, appended to the level text)
EXTRA = {
 'C01': ('; rst7 / gro templates folded through locals, LAMMPS write_box / parse_box evaluated as whole functions on a generic triclinic cell; abstract evaluation (sa/tensym.py, sa/ttext.py, sa/writers.py, sa/e2e.py) of writer and reader of the text formats on symbolic frames: write() recorded as pieces of text, read() / _parse / PdbStructure evaluated on a model file of those pieces; Trajectory.save_<fmt> -> load_<fmt> end to end with symbolic unit conversion; NetCDF header initialisers evaluated on a recording handle against the AMBER conventions (type, shape, units of every variable); unit-tagged input of the HDF5 / NetCDF writers with the conversion symbolic; XTC / TRR / DCD savers and loaders end to end on model files (sa/xdrmodel.py, sa/dcdmodel.py)',
         ' For xyz, mdcrd, lammpstrj, gro, rst7 and PDB the coordinates, cell and time read back from the text written are, by value, the ones that went in (also for values that fill their fields, 1-4 and 10 atoms, triangular and concrete cells), the records sit in the columns of the published tables, and save_<fmt> followed by load_<fmt> returns the saved coordinates in nm.'),
 'C02': ("; cursor update of array-backed readers evaluated as a linear / min form; capacity of every buffer handed to read_xtc / read_trr against the atom count the reader writes (path-compatible reaching allocations); every read_as_traj, load_pdb / load_pdbx, the text readers' read / seek / tell, HDF5 / NetCDF read on model array stores and the XTC / TRR _read evaluated on model files over sequences of calls; read / seek / tell of the Cython DCD class and of the ARC reader (on a model archive built by the rule) evaluated over call sequences; single strided frames, seek to the end, the remainder read twice",
         ' Buffers handed to the XDR readers hold as many atoms as the reader writes on every path (the TRR stride buffer does not: known finding). Sequences of read(n, stride, atom_indices) / seek / tell on 7-frame model files return the frames, atoms, cell and time rows of the definition and leave the cursor at the end of the window consumed (text formats, HDF5, NetCDF, XTC / TRR with and without cached offsets: the XTC cached-offset end of file is a known finding).'),
 'C03': ('; tensor value numbering of join / stack / slice / atom_slice / center_coordinates on model trajectories (sa/tensym.py); md.join evaluated with recorder pieces; slice on view-backed trajectories (numpy base semantics); effect analysis through `with Cls(...) as f: f.write(self.xyz)` and self-method calls into the Python file classes',
         " For join, stack, slice and atom_slice every array of the result is shown, element for element on model trajectories, to be the numpy concatenation / indexing of the operands' arrays; cached traces - where carried - belong to the frames of the result and to frames centred on the geometric centre."),
 'C04': ('; codec tables (bond-type floats, element pickle key); Topology / Chain / Residue / Atom instantiated from their source and copy / subset / join / insert / delete evaluated on a model topology; PDB ATOM serials against CONECT numbers by evaluating write + _write_footer on model topologies (TER, atomless residues, more than four bonds); two reads of the HDF5 topology node share no object',
         ' The float codec of bond types is injective and decoded without rounding; elements are re-created on deepcopy / unpickle from a key that is unique in the element table. copy, subset and join are shown on a model topology to produce exactly the structure the operation calls for, with every preserved field and no object shared with the input.'),
 'C05': ('; every Python dispatcher evaluated on a model trajectory over periodic x cell x opt (which kernel, which box orientation, which orthogonality flag); the numpy reference functions (opt=False) by value against the documented scheme',
         ''),
 'C06': ('; reduction of the closed-form cubic / quartic roots modulo the relations of their radicals; guard facts for every partial function of the solvers; Trajectory.superpose evaluated as a whole on model trajectories with memory-sharing views (what reaches the kernel in each role, what self.xyz is afterwards, cached traces dropped); paths to the |q|^2 test of msdFromMandG (which adjugate rows the quaternion may come from; identity only when all four vanish); msd_atom_major evaluated for n = 1..9 atoms; complex-pair branches of the quartic solver carry the double root of their real siblings; superpose on a self-reference (reshape shares memory)',
         " Every root expression returned by the Cardano / trigonometric / repeated-root cases of the cubic and by Ferrari's method for the quartic (16 paths) satisfies its polynomial modulo sqrt(u)^2 = u, cbrt(u)^3 = u, the triple-angle identity and the resolvent; every sqrt / acos / cube root / division is taken under conditions that keep its argument in the domain."),
 'C07': ('; dispatch by evaluation over periodic x cell x opt; backbone torsion index builders evaluated on a two-chain model topology',
         ''),
 'C08': ('; scratch stores and skipped residues decided on decoded path conditions; no function-local static in any kernel source or header',
         ' No kernel keeps state between calls.'),
 'C09': ('; find_closest_contact by value numbering: compared vector = difference + whole-number combination of the cell vectors',
         ''),
 'C10': ('; algebraic value numbering of both loop bodies of compute_neighbors for generic atoms i, j against the definition built from the parameters; face tests and the y row of a z voxel under triclinic cells in the cell list; candidate wrap and voxel sizes of the cell list by value numbering with decoded path conditions; the two x ranges of a voxel near a cell face do not overlap (binary searches opaque, bounded by their hints); the triclinic pruning interval uses the extrema over the images of all four voxel corners; the result vector only grows by push_back',
         ' In triclinic cells the cell list visits the whole row of y voxels for a z voxel (a single periodic-copy offset loses pairs near half the box).'),
 'C11': ("; evaluation of make_molecules_whole / image_molecules through the class's own methods on a model trajectory (array identity: copy unless inplace; default bond list); no topology-derived memo on the trajectory; find_molecules evaluated on model bond graphs (connected components); a caller-supplied bond order reaches the kernel unchanged",
         ''),
 'C12': ("; evaluation of the infix operand chains on model operands; range / implicit-list / regex condition nodes by evaluation on model tokens; case-sensitivity of the grammar terminals; every keyword's attribute chain evaluated on a topology instantiated from the class sources through a history of edits (insert_atom, delete_atom_by_index, add_bond), containment decided with the class's own __eq__",
         ''),
 'C13': ('; shrake_rupley evaluated on a model trajectory (mode x selection x changed radii x falsy values), asa_frame by value numbering of one generic iteration with decoded path conditions (target skip, blocker test, point-in-sphere test, area formula); a preparatory loop summarised as a running maximum (quick rejection accepted only if the accumulation covers every atom); memset re-initialisation counted only when its size is in bytes',
         ''),
 'C14': ("; baker_hubbard / wernet_nilsson evaluated on an exact-rational threshold world; _get_bond_triplets on a model topology; hydrogen placement and sentinel-indexed reads with the path conditions in force; the slot of residue ri's hydrogen decided from the offsets stored; donor bonds of mixed participation; the Python side of kabsch_sander with a recording csr_matrix; no memoisation under the hash of a topology",
         ' The hydrogen-bond criteria are decided on worlds that sit on the thresholds (distance = cutoff, angle = cutoff, presence = freq, cone met with equality).'),
 'C15': ('; compute_dssp and the backbone index arrays evaluated on seven model residues; the state -> character map and the output offset of dssp() by value numbering (switch statements executed); locals read from a ladder are read again after the merges that grow it (calculate_beta_sheets)',
         ''),
 'C16': ('; tensor value numbering (sa/tensym.py) of the whole-array descriptors on a generic instance of every axis, compute_contacts evaluated on a model topology of unequal residues, RDF functions with histogram / distance calls summarised; the matrix decomposed by compute_directors is the inertia tensor of the compound about its centre of mass; no memoisation under the hash of a topology',
         ' Also decided by tensor evaluation: inertia tensor (both implementations), Q tensor and nematic order, dipole moments (sign included), density through cell lengths and angles, squareform, the chunk partition and weights of compute_rdf_t.'),
 'C17': ('; tensor evaluation of the unitcell_vectors getter / setter on every data-dependent path; lengths and angles from the same object at every call site; box vectors and the LAMMPS box (writer, reader, their composition) by whole-function evaluation; unitcell_volumes against the determinant of the real unitcell_vectors property (normal form, else numeric identity test of the two expressions); a box with a zero diagonal is a cell; save_mdcrd refuses a cell skewed in any frame',
         ''),
 'C18': ("; freshness of the arrays handed out by read() over the class's own methods; seek() as a path interpreter over (position, offset, length) for whence x sign of offset, helpers interpreted in place; tell() after every read of the text formats evaluated on model files (complete and with the last frame cut short)",
         ' read() never hands out (a view of) an array the reader keeps (scratch buffers, caches).'),
 'C19': ('; argument-only refusals before the first-write initialisation; reachability of the atom-count refusal; streaming text writers evaluated on symbolic frames (one call vs several calls, piece by piece); HDF5 / NetCDF write on model array stores (partition equivalence, ragged later writes refused without a trace); write of the three Cython classes in k calls on model files; ensure_type evaluated from its source (a 0 in the shape is a length, not a wildcard); PDB write refuses a block of frames',
         ' For xyz, mdcrd, lammpstrj, gro the text of n frames written in k calls equals the text of one call; for HDF5 / NetCDF k calls leave the arrays and counter of one call, and a later write with another atom count or with time / cell added or dropped is refused and changes nothing.'),
 'C20': ('; path classes (expanduser / expandvars change which file a string names); helpers in mdtraj/utils that destroy their parameter carry the obligation to their callers; Trajectory.save reaches the saver on every normal exit; open modes held in locals',
         ''),
}
