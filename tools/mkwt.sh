#!/bin/sh
# mkwt.sh <name>: scratch git worktree of /repo at HEAD under /tmp/wt_<name>, with the prebuilt extension modules copied in
set -e
D=/tmp/wt_$1
git -C /repo worktree add -q --detach "$D" HEAD
cd /repo && find mdtraj -name "*.so" | while read f; do cp "$f" "$D/$f"; done
# generated C/C++ from Cython (untracked) so that C++ kernels can be rebuilt by hand with g++
cd /repo && for f in mdtraj/geometry/src/_geometry.cpp mdtraj/geometry/drid.cpp mdtraj/geometry/neighbors.cpp mdtraj/geometry/neighborlist.cpp mdtraj/rmsd/_rmsd.cpp mdtraj/rmsd/_lprmsd.cpp mdtraj/formats/dcd/dcd.c mdtraj/formats/xtc/xtc.c mdtraj/formats/xtc/trr.c mdtraj/formats/dtr/dtr.cpp; do [ -f "$f" ] && cp "$f" "$D/$f"; done
echo "$D"
