#!/bin/sh
# rebuild_ext.sh <worktree> <ext>   ext in: geometry neighbors neighborlist drid rmsd
# Rebuilds one compiled extension of an mdtraj worktree by hand (Cython is not installed: the
# pre-generated C++ from the .pyx is reused, so only .cpp/.h kernel edits are picked up, not .pyx edits).
set -e
W="$1"; E="$2"; cd "$W"
NP=$(/venv/bin/python -c "import numpy; print(numpy.get_include())")
PYI=$(/venv/bin/python -c "import sysconfig; print(sysconfig.get_paths()['include'])")
SFX=$(/venv/bin/python -c "import sysconfig; print(sysconfig.get_config_var('EXT_SUFFIX'))")
FL="-shared -fPIC -O2 -fopenmp -msse3 -msse4.1 -std=c++11 -w -I$NP -I$PYI"
G=mdtraj/geometry
case "$E" in
 geometry) g++ $FL -I$G/include -I$G/src/kernels $G/src/_geometry.cpp $G/src/geometry.cpp $G/src/sasa.cpp $G/src/dssp.cpp -o $G/_geometry$SFX ;;
 neighbors) g++ $FL -I$G/include $G/neighbors.cpp $G/src/neighbors.cpp -o $G/neighbors$SFX ;;
 neighborlist) g++ $FL -I$G/include $G/neighborlist.cpp $G/src/neighborlist.cpp -o $G/neighborlist$SFX ;;
 drid) g++ $FL -I$G/include $G/drid.cpp $G/src/dridkernels.cpp $G/src/moments.cpp -o $G/drid$SFX ;;
 rmsd) g++ $FL -Imdtraj/rmsd/include mdtraj/rmsd/_rmsd.cpp mdtraj/rmsd/src/theobald_rmsd.cpp mdtraj/rmsd/src/rotation.cpp mdtraj/rmsd/src/center.cpp -o mdtraj/_rmsd$SFX ;;
 *) echo "unknown ext $E"; exit 2 ;;
esac
echo "rebuilt $E"
