#!/venv/bin/python
"""refresh_seed_meta.py [name ...]: re-run every claimed check (quick) on a scratch copy of VERIF_REPO (default /repo) with each kept seeded
change applied, and rewrite `checks_fired` / `caught` in seeded/<name>/meta.json. /repo itself is never modified."""
import json, os, subprocess, sys, shutil
sys.path.insert(0, "/verif")
from sa import selftest, core

repo = os.environ.get("VERIF_REPO", "/repo")
names = sys.argv[1:] or sorted(os.listdir("/verif/seeded"))
props = selftest.claimed_properties()


def work(chunk):
    res = {}
    sc = selftest.make_scratch(repo)
    env = dict(os.environ, GIT_DIR="/nonexistent", GIT_CEILING_DIRECTORIES=sc)
    try:
        for name in chunk:
            pp = os.path.join("/verif/seeded", name, "patch.diff")
            r = subprocess.run(["git", "apply", "--whitespace=nowarn", pp], cwd=sc, capture_output=True, text=True, env=env)
            if r.returncode != 0:
                res[name] = None
                continue
            fired = {}
            for p in props:
                rc, out = selftest.run_quiet(p, sc)
                if rc != 0:
                    lines = [l[:260] for l in out.split("\n") if ("  " + p + "-R") in l and not l.startswith(("NOTE", "KNOWN", "UNDECIDED"))] + [l[:260] for l in out.split("\n") if l.startswith("ANALYSIS-ERROR")]
                    if rc == 1:
                        fired[p] = {"rc": rc, "lines": lines[:6]}
                    else:
                        fired.setdefault("_undecided", {})[p] = lines[:3]
            subprocess.run(["git", "apply", "-R", "--whitespace=nowarn", pp], cwd=sc, capture_output=True, env=env)
            res[name] = fired
    finally:
        shutil.rmtree(sc, ignore_errors=True)
    return res


if __name__ == "__main__":
    import multiprocessing as mp
    jobs = 16
    chunks = [names[i::jobs] for i in range(jobs)]
    chunks = [c for c in chunks if c]
    allres = {}
    with mp.get_context("fork").Pool(len(chunks)) as pool:
        for r in pool.map(work, chunks):
            allres.update(r)
    changed = 0
    for name in names:
        mp_ = os.path.join("/verif/seeded", name, "meta.json")
        meta = json.load(open(mp_))
        fired = allres.get(name)
        if fired is None:
            print(name, "PATCH DOES NOT APPLY")
            continue
        und = fired.pop("_undecided", None)
        before = {k: sorted({l.split("  ")[1] for l in v.get("lines", []) if "  " in l}) for k, v in (meta.get("checks_fired") or {}).items()}
        after = {k: sorted({l.split("  ")[1] for l in v.get("lines", []) if "  " in l}) for k, v in fired.items()}
        if before != after or bool(fired) != meta.get("caught"):
            changed += 1
            print(name, "was", before, "now", after)
        meta["checks_fired"] = fired
        meta["caught"] = bool(fired)
        if und:
            meta["checks_undecided"] = und
        else:
            meta.pop("checks_undecided", None)
        json.dump(meta, open(mp_, "w"), indent=1)
    print("%d seeds, %d changed, %d caught" % (len(names), changed, sum(1 for n in names if allres.get(n))))
