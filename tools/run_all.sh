#!/bin/sh
# run every claimed check (quick tier) and print one summary line each
cd "$(dirname "$0")/.."
T=${1:-quick}
for p in $(python3 -c "import json; print(' '.join(c['property_id'] for c in json.load(open('MANIFEST.json'))['checks']))"); do
  out=$(./check $p --tier $T 2>&1); rc=$?
  echo "$p rc=$rc $(echo "$out" | tail -1)"
  [ $rc -ne 0 ] && echo "$out" | grep -v "^NOTE\|^KNOWN" | head -5
done
true
