#!/usr/bin/env python3
"""seed_eval.py <seed_dir> [--tests]: confirm a seeded change and run the claimed checks against it.

1. fresh scratch worktree of /repo HEAD (under /tmp, with the prebuilt extensions copied in; removed afterwards):
   demo.py must exit 0 on the clean tree and non-zero with patch.diff applied; optionally the full baseline test suite
   is run with the patch (--tests) and compared with BASELINE.json.
2. the patch is applied to /repo itself, every claimed check is run (quick tier), and the patch is undone at once.
Prints a JSON summary.
"""
import json, os, subprocess, sys, shutil, tempfile

seed = os.path.abspath(sys.argv[1])
run_tests = "--tests" in sys.argv
no_repo = "--no-repo" in sys.argv          # part 1 only (scratch worktree: demo, optional test suite)
repo_only = "--repo-only" in sys.argv      # part 2 only (patch applied to /repo, claimed checks, patch undone)
patch = os.path.join(seed, "patch.diff")
demo = os.path.join(seed, "demo.py")
meta = json.load(open(os.path.join(seed, "meta.json")))
res = {"seed": seed, "property": meta.get("property")}

def sh(cmd, cwd=None, timeout=1800):
    p = subprocess.run(cmd, shell=True, cwd=cwd, capture_output=True, text=True, timeout=timeout)
    return p.returncode, p.stdout + p.stderr

name = "verify_%d" % os.getpid()
wt = "/tmp/wt_" + name
if repo_only:
    wt = None
else:
    rc, out = sh("/verif/tools/mkwt.sh %s" % name)
try:
    if repo_only:
        raise StopIteration
    rc0, o0 = sh("/venv/bin/python %s" % demo, cwd=wt)
    res["demo_clean_rc"] = rc0
    rca, oa = sh("git apply %s" % patch, cwd=wt)
    res["patch_applies"] = rca == 0
    if rca != 0:
        res["apply_error"] = oa[-500:]
    else:
        reb = meta.get("rebuild")
        if reb and reb != "null":
            r, o = sh("/verif/tools/rebuild_ext.sh %s %s" % (wt, reb), cwd=wt)
            res["rebuild_rc"] = r
        rc1, o1 = sh("/venv/bin/python %s" % demo, cwd=wt)
        res["demo_patched_rc"] = rc1
        res["demo_patched_tail"] = o1.strip().split("\n")[-1][:300]
        if run_tests:
            r, o = sh("/venv/bin/python -m pytest -q -p no:cacheprovider --timeout=900 --continue-on-collection-errors --junitxml=/tmp/junit_%s.xml" % name, cwd=wt, timeout=3600)
            r2, o2 = sh("python3 /verif/tools/compare_baseline.py /tmp/junit_%s.xml" % name)
            res["tests"] = o2.strip().split("\n")[0]
            res["tests_missing"] = o2.strip().split("\n")[1:6]
            os.remove("/tmp/junit_%s.xml" % name)
except StopIteration:
    pass
finally:
    if wt:
        sh("git -C /repo worktree remove --force %s" % wt)
        shutil.rmtree(wt, ignore_errors=True)
if no_repo:
    print(json.dumps(res, indent=1))
    sys.exit(0)

# checks against /repo itself
rc, out = sh("git -C /repo status --porcelain --untracked-files=no")
if out.strip():
    res["error"] = "/repo has uncommitted tracked changes; not applying"
else:
    rca, oa = sh("git -C /repo apply %s" % patch)
    try:
        if rca == 0:
            fired = {}
            man = json.load(open("/verif/MANIFEST.json"))
            for c in man["checks"]:
                pid = c["property_id"]
                r, o = sh("cd /verif && VERIF_NO_EVIDENCE=1 ./check %s --tier quick" % pid)
                v = [l for l in o.split("\n") if "  C" in l and not l.startswith(("NOTE", "KNOWN", "VIOLATION", "UNDECIDED"))]
                if r != 0:
                    fired[pid] = {"rc": r, "lines": [l[:260] for l in v[:4]] or [l[:260] for l in o.split("\n") if "ANALYSIS-ERROR" in l][:2]}
            res["checks_fired"] = fired
        else:
            res["repo_apply_error"] = oa[-300:]
    finally:
        sh("git -C /repo checkout -- .")
print(json.dumps(res, indent=1))
