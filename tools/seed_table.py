#!/usr/bin/env python3
"""seed_table.py: markdown table of /verif/seeded/*/meta.json (which check / rule catches which seeded change)."""
import json, os, glob
rows = []
for d in sorted(glob.glob("/verif/seeded/*/")):
    m = json.load(open(os.path.join(d, "meta.json")))
    name = os.path.basename(d.rstrip("/"))
    fired = m.get("checks_fired") or {}
    rules = []
    for chk, v in fired.items():
        rs = sorted({l.split("  ")[1] for l in v.get("lines", []) if l.count("  ") >= 2 and l.split("  ")[1].startswith("C")})
        rules.append("%s (%s)" % (chk, ", ".join(rs)) if rs else chk)
    summ = (m.get("summary") or "").replace("|", "/").replace("\n", " ")
    if len(summ) > 150:
        summ = summ[:147] + "..."
    conf = m.get("confirmed", {})
    rows.append("| %s | %s | %s | %s | %s |" % (name, summ, "; ".join(rules) or "MISSED", "%s/%s" % (conf.get("demo_clean_rc"), conf.get("demo_patched_rc")), (conf.get("baseline_tests_with_patch") or "").replace("baseline ", "")[:40]))
print("| seed | change | caught by | demo rc clean/patched | baseline tests with patch |")
print("|---|---|---|---|---|")
print("\n".join(rows))
