#!/venv/bin/python
"""twin_eval.py <dir with twin_out/<k>/patch.diff> [--keep PREFIX]: run every claimed check on a scratch copy of VERIF_REPO (default /repo) with each
behaviour-preserving refactoring applied.  Anything that fires is a false alarm (or an unrecognised idiom) to be looked at.  With --keep the
patches are stored under /verif/twins/<PREFIX>-<k>/ and replayed by the self-test from then on."""
import json, os, subprocess, sys, shutil
sys.path.insert(0, "/verif")
from sa import selftest

repo = os.environ.get("VERIF_REPO", "/repo")
src = sys.argv[1]
keep = sys.argv[sys.argv.index("--keep") + 1] if "--keep" in sys.argv else None
props = selftest.claimed_properties()
ks = sorted([k for k in os.listdir(os.path.join(src, "twin_out")) if k.isdigit()], key=int)


def work(k):
    pp = os.path.join(src, "twin_out", k, "patch.diff")
    sc = selftest.make_scratch(repo)
    env = dict(os.environ, GIT_DIR="/nonexistent", GIT_CEILING_DIRECTORIES=sc)
    res = {}
    try:
        r = subprocess.run(["git", "apply", "--whitespace=nowarn", pp], cwd=sc, capture_output=True, text=True, env=env)
        if r.returncode != 0:
            return k, None
        for p in props:
            rc, out = selftest.run_quiet(p, sc)
            if rc != 0:
                res[p] = (rc, [l[:300] for l in out.split("\n") if (("  " + p + "-R") in l and not l.startswith(("NOTE", "KNOWN"))) or l.startswith("ANALYSIS-ERROR")][:4])
    finally:
        shutil.rmtree(sc, ignore_errors=True)
    return k, res


if __name__ == "__main__":
    import multiprocessing as mp
    with mp.get_context("fork").Pool(min(16, len(ks))) as pool:
        results = dict(pool.map(work, ks))
    for k in ks:
        r = results[k]
        meta = json.load(open(os.path.join(src, "twin_out", k, "meta.json")))
        head = "%s/%s %s [%s]" % (os.path.basename(src), k, meta.get("function"), (meta.get("technique") or "")[:60])
        if r is None:
            print(head, "PATCH DOES NOT APPLY")
        elif not r:
            print(head, "silent")
        else:
            print(head, "FIRES")
            for p, (rc, lines) in r.items():
                for l in lines:
                    print("     rc=%d %s" % (rc, l))
        if keep and r is not None:
            d = os.path.join("/verif/twins", "%s-%s" % (keep, k))
            os.makedirs(d, exist_ok=True)
            shutil.copyfile(os.path.join(src, "twin_out", k, "patch.diff"), os.path.join(d, "patch.diff"))
            json.dump(meta, open(os.path.join(d, "meta.json"), "w"), indent=1)
