#!/venv/bin/python
"""Put the output of tools/seed_table.py between the SEED-TABLE markers of DESIGN.md."""
import os
import re
import subprocess
here = os.path.dirname(os.path.abspath(__file__))
root = os.path.dirname(here)
tab = subprocess.run(["python3", os.path.join(here, "seed_table.py")], capture_output=True, text=True, check=True).stdout.rstrip("\n")
p = os.path.join(root, "DESIGN.md")
s = open(p).read()
new, n = re.subn(r"<!-- SEED-TABLE-BEGIN -->.*?<!-- SEED-TABLE-END -->", lambda m: "<!-- SEED-TABLE-BEGIN -->\n" + tab + "\n<!-- SEED-TABLE-END -->", s, flags=re.S)
assert n == 1
open(p, "w").write(new)
print("seed table: %d rows" % (tab.count("\n") - 1))
